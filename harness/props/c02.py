"""C02 — accepted values conform to the declared type; acceptance is compositional.

Pipeline
 1. regenerate Gen/AdaptTables (branch order/tests of adapt_typehints, origin sets, the statements the model
    transcribes, sort_subtypes_for_union on a probe) and build Props/C02 (the theorems + the `tie_*` obligations
    that compare the regenerated constants with what the model was written against);
 2. correspondence: real `parser.parse_object({k: v})` / `parser.parse_args(['--k=' + text])` versus the Lean
    model `parseObj` / `parseArg` (Drv/Adapt): accept/reject and the canonical result;
 3. property oracle on the real code: every accepted result is judged by `Conforms` *evaluated in Lean*
    (the spec is the oracle); conforming inputs must be accepted; containers are split and judged element by
    element; a Union is compared with its members and with every permutation of its members;
 4. fixed findings F05/F05b are replayed; open findings are replayed from their witnesses.

The loader (PyYAML + jsonargparse's yaml_load / load_value) is an oracle of the model: with every case the
harness sends what the real loader returned for each string the model may look up.
"""
from __future__ import annotations

import copy
import itertools
import json
import math
from enum import Enum

from ..lib.common import Ctx, MachineryError, jdump, repo_python_path
from . import c02_restr as rt

MANIFEST = {
    "engine": "E3-Adapt",
    "technique": "Lean 4 proofs over an executable model of adapt_typehints/_check_type (structural induction on the type grammar) "
                 "+ regenerated branch/sort tables + differential correspondence; the Lean validator `Conforms` is the oracle on the real parser",
    "text": "Theorems in lean/Jap/Props/C02.lean prove for all type hints of the modelled grammar, all values and all loader oracles: accepted values "
            "conform (for the validator relaxed exactly at Literal `==` and dict keys; strictly under the two stated hypotheses), conforming values are "
            "accepted, containers are accepted exactly when every element is (value channel; in the string channel exactly when what the loader made "
            "of the text is), a Union exactly when a member accepts, independently of member order, in the value and in the string channel; str "
            "arguments are returned verbatim.  Restricted string/number types are leaves of the grammar at any depth: `Conforms` includes their "
            "predicate, a restricted leaf accepts exactly the convertible values whose converted value satisfies the restriction, a restricted string "
            "type exactly the strings its pattern matches from the start (regex.match, not search; equal for ^-anchored patterns), judged on the "
            "argument text alone.  The model is tied to /repo by regenerated tables (every statement of the transcribed branches of adapt_typehints, "
            "_check_type, the loader front end, the validation functions of typing.py) and by comparing model and real parser on generated (type, "
            "value) pairs incl. all permutations of every Union; restricted predicates are computed by the model from the type's specification.",
    "level_note": "Trusted: Lean kernel; axioms propext/Quot.sound/Classical.choice; the extractor; the correspondence harness and generators; PyYAML and "
                  "jsonargparse's yaml_load/load_value/int()/float() enter as oracles; the translation of Python patterns into the model's regular expressions "
                  "(harness, via re._parser; ASCII subjects). Outside the model: Callable, Type, Annotated, TypedDict, dataclass and subclass types, "
                  "registered types other than the restricted ones (C20), paths (C19), nargs/append, enable_path.",
}

FINDING_LITERAL = "C02-literal-pyeq"
FINDING_DICTKEY = "C02-dict-key-unchecked"
FINDING_SETELEM = "C02-set-element-becomes-unhashable"
FINDING_ENUMRETRY = "C02-enum-unhashable-no-retry"
FINDING_SENTINEL = "C02-string-sentinel-default"


# ---------------------------------------------------------------- enum pool
class Color(Enum):
    red = 1
    green = 2
    blue = 3


class Mode(Enum):
    on = 1
    null = 2
    x1 = 3


class Tiny(Enum):
    a = 1


# member names that the loader turns into a list / dict (functional API): only used by the corpus and the
# witness of FINDING_ENUMRETRY, never drawn by the random generator
Odd = Enum("Odd", {"[1]": 1, "{}": 2})

ENUMS = [Color, Mode, Tiny, Odd]
N_RANDOM_ENUMS = 3


def enum_desc(i):
    return {"e": [i, [m.name for m in ENUMS[i]]]}


# ---------------------------------------------------------------- descriptors <-> typing objects
def _union(members):
    """typing.Union[members] WITHOUT typing's lru_cache: Union[List[Union[a, b]], c] and Union[List[Union[b, a]], c]
    are == and hash-equal, so the cached constructor returns whichever was built first and a permuted nested
    Union could not be expressed"""
    import typing

    return typing.Union._getitem(typing.Union, tuple(members))


def to_typing(d):
    """typing object of a descriptor; containers are the builtin generics (list[...], no cache either)"""
    from typing import Any, Literal

    if isinstance(d, str):
        return {"str": str, "int": int, "float": float, "bool": bool, "none": type(None), "any": Any}[d]
    if "u" in d:
        return _union(to_typing(x) for x in d["u"])
    if "l" in d:
        return list[to_typing(d["l"])]
    if "d" in d:
        return dict[int if d["d"][0] == "int" else str, to_typing(d["d"][1])]
    if "t" in d:
        return tuple[tuple(to_typing(x) for x in d["t"])] if d["t"] else tuple[()]
    if "tv" in d:
        return tuple[to_typing(d["tv"]), ...]
    if "s" in d:
        return set[to_typing(d["s"])]
    if "lit" in d:
        return Literal[tuple(d["lit"])]
    if "e" in d:
        return ENUMS[d["e"][0]]
    if "rn" in d:
        return rt.cls_of(d["rn"][1])
    raise MachineryError("bad descriptor %r" % (d,))


def desc_of(T):
    """descriptor of a typing object (after typing's own normalisation: flattening, de-duplication)"""
    import typing

    if T is str:
        return "str"
    if T is int:
        return "int"
    if T is float:
        return "float"
    if T is bool:
        return "bool"
    if T is type(None):
        return "none"
    if T is typing.Any:
        return "any"
    if isinstance(T, type) and issubclass(T, Enum):
        return enum_desc(ENUMS.index(T))
    if isinstance(T, type) and hasattr(T, "_type") and (hasattr(T, "_restrictions") or hasattr(T, "_regex")):
        k = rt.index_of(T)
        if k is None:
            raise MachineryError("restricted type outside the pool: %r" % (T,))
        return rt.desc(k)
    o = typing.get_origin(T)
    a = typing.get_args(T)
    if o is typing.Union:
        return {"u": [desc_of(x) for x in a]}
    if o is list:
        return {"l": desc_of(a[0])}
    if o is dict:
        return {"d": ["int" if a[0] is int else "str", desc_of(a[1])]}
    if o is tuple:
        if len(a) == 2 and a[1] is Ellipsis:
            return {"tv": desc_of(a[0])}
        return {"t": [desc_of(x) for x in a]}
    if o is set:
        return {"s": desc_of(a[0])}
    if o is typing.Literal:
        return {"lit": list(a)}
    raise MachineryError("type outside the grammar: %r" % (T,))


def normalise(d):
    return desc_of(to_typing(d))


def ty_depth(d):
    if isinstance(d, str) or "lit" in d or "e" in d or "rn" in d:
        return 0
    if "u" in d:
        return 1 + max(ty_depth(x) for x in d["u"])
    if "t" in d:
        return 1 + max([ty_depth(x) for x in d["t"]] or [0])
    if "d" in d:
        return 1 + ty_depth(d["d"][1])
    return 1 + ty_depth(d.get("l") or d.get("tv") or d.get("s"))


def ty_children(d):
    """[(path-step, child)]"""
    if isinstance(d, str) or "lit" in d or "e" in d or "rn" in d:
        return []
    if "u" in d:
        return [(("u", i), x) for i, x in enumerate(d["u"])]
    if "t" in d:
        return [(("t", i), x) for i, x in enumerate(d["t"])]
    if "d" in d:
        return [(("d", 1), d["d"][1])]
    for k in ("l", "tv", "s"):
        if k in d:
            return [((k, None), d[k])]
    return []


def ty_walk(d, path=()):
    yield path, d
    for step, c in ty_children(d):
        yield from ty_walk(c, path + (step,))


def ty_replace(d, path, new):
    if not path:
        return new
    (k, i), rest = path[0], path[1:]
    d = copy.deepcopy(d)
    if k in ("u", "t"):
        d[k][i] = ty_replace(d[k][i], rest, new)
    elif k == "d":
        d["d"][1] = ty_replace(d["d"][1], rest, new)
    else:
        d[k] = ty_replace(d[k], rest, new)
    return d


def ty_kinds(d):
    return {("leaf:" + x) if isinstance(x, str) else next(iter(x)) for _, x in ty_walk(d)}


def set_elem_may_be_unhashable(d):
    """a Set whose element type can produce a list/dict/set (or Any) - class of FINDING_SETELEM"""
    for _, x in ty_walk(d):
        if isinstance(x, dict) and "s" in x:
            if ty_kinds(x["s"]) & {"l", "d", "s", "leaf:any"}:
                return True
    return False


# ---------------------------------------------------------------- values <-> wire encoding
class Unencodable(Exception):
    pass


def enc(x, depth=0, sort_sets=True):
    """python value -> wire JSON (see Drv/Adapt.lean); sort_sets=False keeps the iteration order of sets"""
    if depth > 40:
        raise Unencodable("too deep")
    if x is None or isinstance(x, bool):
        return x
    if isinstance(x, int):
        if abs(x) >= 10 ** 400:
            raise Unencodable("huge int")
        return int(x)                              # an instance of a restricted int type is the plain number
    if isinstance(x, float):
        return {"f": repr(float(x))}
    if isinstance(x, str):
        try:
            x.encode("utf-8")
        except UnicodeEncodeError:
            raise Unencodable("surrogate")
        return str(x)
    if isinstance(x, Enum):
        if type(x) in ENUMS:
            return {"e": [ENUMS.index(type(x)), x.name]}
        raise Unencodable("foreign enum")
    if type(x) is list:
        return [enc(y, depth + 1, sort_sets) for y in x]
    if type(x) is tuple:
        return {"t": [enc(y, depth + 1, sort_sets) for y in x]}
    if type(x) is set:
        ys = [enc(y, depth + 1, sort_sets) for y in x]
        return {"s": sorted(ys, key=jdump) if sort_sets else ys}
    if type(x) is dict:
        out = []
        for k, v in x.items():
            if isinstance(k, bool) or not isinstance(k, (str, int)):
                raise Unencodable("dict key %r" % (k,))
            out.append([enc(k), enc(v, depth + 1, sort_sets)])
        return {"d": out}
    raise Unencodable(type(x).__name__)


def to_py(j):
    if j is None or isinstance(j, (bool, int, str)):
        return j
    if isinstance(j, list):
        return [to_py(x) for x in j]
    if "f" in j:
        return float(j["f"])
    if "t" in j:
        return tuple(to_py(x) for x in j["t"])
    if "s" in j:
        return set(to_py(x) for x in j["s"])
    if "d" in j:
        return {to_py(k): to_py(v) for k, v in j["d"]}
    if "e" in j:
        return ENUMS[j["e"][0]][j["e"][1]]
    raise MachineryError("bad wire value %r" % (j,))


def canon(j):
    """canonical form for comparison: set elements sorted"""
    if isinstance(j, list):
        return [canon(x) for x in j]
    if isinstance(j, dict):
        if "s" in j:
            return {"s": sorted((canon(x) for x in j["s"]), key=jdump)}
        if "t" in j:
            return {"t": [canon(x) for x in j["t"]]}
        if "d" in j:
            return {"d": [[k, canon(v)] for k, v in j["d"]]}
        if "ok" in j:
            return {"ok": canon(j["ok"])}
    return j


def has_multi_set(j):
    """does the wire value contain a set with two or more elements (its iteration order is not defined)"""
    if isinstance(j, list):
        return any(has_multi_set(x) for x in j)
    if isinstance(j, dict):
        if "s" in j:
            return len(j["s"]) > 1 or any(has_multi_set(x) for x in j["s"])
        if "t" in j:
            return any(has_multi_set(x) for x in j["t"])
        if "d" in j:
            return any(has_multi_set(v) for _, v in j["d"])
    return False


def canon_unordered(j):
    """comparison form that also forgets the order of lists and tuples (used when the input holds a multi-element set,
    whose enumeration order by list(set) is not defined)"""
    if isinstance(j, list):
        return sorted((canon_unordered(x) for x in j), key=jdump)
    if isinstance(j, dict):
        if "s" in j or "t" in j:
            k = "s" if "s" in j else "t"
            return {k: sorted((canon_unordered(x) for x in j[k]), key=jdump)}
        if "d" in j:
            return {"d": [[k, canon_unordered(v)] for k, v in j["d"]]}
        if "ok" in j:
            return {"ok": canon_unordered(j["ok"])}
    return j


def strings_of(j, out=None):
    out = set() if out is None else out
    if isinstance(j, str):
        out.add(j)
    elif isinstance(j, list):
        for x in j:
            strings_of(x, out)
    elif isinstance(j, dict):
        if "d" in j:
            for k, v in j["d"]:
                if isinstance(k, str):
                    out.add(k)
                strings_of(v, out)
        elif "t" in j or "s" in j:
            for x in j.get("t", j.get("s")):
                strings_of(x, out)
    return out


def ints_of(j, out=None):
    out = set() if out is None else out
    if isinstance(j, bool):
        pass
    elif isinstance(j, int):
        out.add(j)
    elif isinstance(j, list):
        for x in j:
            ints_of(x, out)
    elif isinstance(j, dict):
        if "d" in j:
            for _, v in j["d"]:
                ints_of(v, out)
        elif "t" in j or "s" in j:
            for x in j.get("t", j.get("s")):
                ints_of(x, out)
    return out


# ---------------------------------------------------------------- the loader oracle
_LOAD_CACHE: dict = {}
EXC = {"x": 1}


def _load_one(s):
    """(yaml_load(s), load_value(s, simple_types=True)) as wire values / EXC; raises Unencodable"""
    if s in _LOAD_CACHE:
        r = _LOAD_CACHE[s]
        if isinstance(r, Unencodable):
            raise r
        return r
    import yaml
    from jsonargparse._common import parser_context
    from jsonargparse._loaders_dumpers import load_value, yaml_load

    try:
        try:
            y = enc(yaml_load(s))
        except yaml.YAMLError:
            y = EXC
        except RecursionError:
            raise Unencodable("recursive yaml")
        try:
            with parser_context(load_value_mode="yaml"):
                a = enc(load_value(s, simple_types=True))
        except yaml.YAMLError:
            a = EXC
        except RecursionError:
            raise Unencodable("recursive yaml")
    except Unencodable as ex:
        _LOAD_CACHE[s] = ex
        raise
    _LOAD_CACHE[s] = (y, a)
    return y, a


def build_tables(*values):
    """oracle tables for every string/int the model may look up while working on `values`"""
    ytab, atab, itab, btab = {}, {}, {}, {}
    todo = set()
    ints = set()
    for v in values:
        strings_of(v, todo)
        ints_of(v, ints)
    rounds = 0
    while todo:
        rounds += 1
        if rounds > 2000:
            raise Unencodable("oracle closure does not converge")
        s = todo.pop()
        if s in ytab:
            continue
        y, a = _load_one(s)
        ytab[s], atab[s] = y, a
        try:
            itab[s] = int(s)
            if abs(itab[s]) >= 10 ** 400:
                raise Unencodable("huge int key")
        except ValueError:
            itab[s] = None
        for r in (y, a):
            if r is not EXC:
                todo |= strings_of(r) - set(ytab)
                ints_of(r, ints)
    for i in ints:
        if abs(i) > 2 ** 53:
            try:
                btab[i] = repr(float(i))
            except OverflowError:
                btab[i] = None                  # the model rejects: int beyond the float range
    return {"yaml": [[s, r] for s, r in ytab.items()], "any": [[s, r] for s, r in atab.items()],
            "intof": [[s, r] for s, r in itab.items()], "bigflt": [[i, r] for i, r in btab.items()]}


def _nodes(j):
    yield j
    if isinstance(j, list):
        for x in j:
            yield from _nodes(x)
    elif isinstance(j, dict) and ("t" in j or "s" in j):
        for x in j.get("t", j.get("s")):
            yield from _nodes(x)
    elif isinstance(j, dict) and "d" in j:
        for _, v in j["d"]:
            yield from _nodes(v)


def tables_for(desc, *values):
    """`build_tables` plus, when the type has restricted leaves: their specifications ("rspec": the model computes the
    predicates itself), `int(s)` / `float(s)` for every string the model may meet ("numstr") and the base type applied to
    every node that is not of the base type ("baseof", the serializer of a restricted type).  int() / float() / str() are
    Python builtins, not code under test."""
    tabs = build_tables(*values)
    ks = rt.indices_in(desc)
    if not ks:
        return tabs
    tabs["rspec"] = rt.rspec_of(desc)
    numstr = []
    for s, _r in tabs["yaml"]:
        for tag, fn in (("int", int), ("float", float)):
            try:
                w = enc(fn(s))
            except (ValueError, OverflowError):
                w = None
            numstr.append([tag, s, w])
    tabs["numstr"] = numstr
    seen = {}
    for v in values:
        for u in _nodes(v):
            seen[jdump(u)] = u
    for _s, r in tabs["yaml"] + tabs["any"]:
        if r is not EXC:
            for u in _nodes(r):
                seen[jdump(u)] = u
    bases = {rt.base_tag(k) for k in ks}
    baseof = []
    for u in seen.values():
        try:
            pu = to_py(u)
        except TypeError:
            continue
        for tag, fn in (("int", int), ("float", float), ("str", str)):
            if tag not in bases or (type(pu) is fn):
                continue
            try:
                w = enc(fn(pu))
            except Unencodable:
                raise
            except Exception:  # noqa: BLE001 - the builtin refuses the value
                w = None
            baseof.append([tag, u, w])
    tabs["baseof"] = baseof
    return tabs


# ---------------------------------------------------------------- real side
_PARSERS: dict = {}


class DeclareError(Exception):
    """add_argument(type=...) raised"""


def get_parser(desc):
    from jsonargparse import ArgumentParser

    key = jdump(desc)
    p = _PARSERS.get(key)
    if isinstance(p, DeclareError):
        raise p
    if p is None:
        p = ArgumentParser(exit_on_error=False, default_env=False)
        T = to_typing(desc)
        if jdump(desc_of(T)) != jdump(desc):
            raise MachineryError("descriptor %s is not in normal form (typing gives %s)" % (jdump(desc), jdump(desc_of(T))))
        try:
            p.add_argument("--k", type=T)
        except Exception as ex:  # noqa: BLE001 - the declaration itself fails
            _PARSERS[key] = DeclareError(type(ex).__name__)
            raise _PARSERS[key]
        if len(_PARSERS) > 4000:
            _PARSERS.clear()
        _PARSERS[key] = p
    return p


LAST_GIVEN = [None]


def real_parse(desc, channel, inp, keep=False, skip_validation=False):
    """run the real parser on one case; returns the canonical observation
    {"ok": wire} | {"err": "reject"} | {"err": "crash:<Type>"} (+ the namespace when keep=True).
    skip_validation: only the apply pass (`_skip_validation=True`), the result before the parser re-checks it"""
    kw = {"_skip_validation": True} if skip_validation else {}
    from jsonargparse import ArgumentError

    try:
        p = get_parser(desc)
    except DeclareError as ex:
        obs = {"err": "declare:" + str(ex)}
        return (obs, None, None) if keep else obs
    if channel == "obj":
        try:
            pyval = to_py(inp)
        except TypeError:                      # e.g. a list inside a set: not a Python value
            raise Unencodable("not a python value")
    if channel == "obj":
        given = copy.deepcopy(pyval)
        LAST_GIVEN[0] = enc(given, sort_sets=False)      # sets in the iteration order the parser is going to see
    try:
        if channel == "obj":
            cfg = p.parse_object({"k": given}, **kw)
        else:
            cfg = p.parse_args(["--k=" + inp], **kw)
        try:
            obs = {"ok": canon(enc(cfg.k))}          # snapshot immediately
        except Unencodable as ex:
            obs = {"ok": {"unencodable": str(ex)}}
    except ArgumentError:
        obs, cfg = {"err": "reject"}, None
    except Exception as ex:  # noqa: BLE001 - the class is the observation
        obs, cfg = {"err": "crash:" + type(ex).__name__}, None
    except SystemExit:
        obs, cfg = {"err": "crash:SystemExit"}, None
    return (obs, cfg, p) if keep else obs


def accepted(obs):
    return "ok" in obs


# ---------------------------------------------------------------- model side
def model_item(desc, channel, inp, extra=()):
    want = ["parseObj" if channel == "obj" else "parseArg", "conf"] + list(extra)
    return {"t": desc, "v": inp, "o": tables_for(desc, inp), "want": want}


def conf_item(desc, wire):
    o = {"rspec": rt.rspec_of(desc)} if rt.indices_in(desc) else {}
    return {"t": desc, "v": wire, "o": o, "pure": True, "want": ["conf", "confLit", "confKey", "confLoose", "confBase"]}


def model_obs(res, channel):
    r = res.get("parseObj" if channel == "obj" else "parseArg")
    if r is None:
        return {"err": "model-missing"}
    if "ok" in r:
        return {"ok": canon(r["ok"])}
    return {"err": "reject"}


def run_driver(ctx: Ctx, lines):
    if not lines:
        return []
    try:
        return ctx.driver("Adapt", lines, timeout=1500)
    except MachineryError as ex:
        if ctx.lean_ok:
            raise
        ctx.tie_break("correspondence E3 not runnable (model does not build)", str(ex))
        return None


# ---------------------------------------------------------------- generators
STR_POOL = ["abc", "", "1", "null", "true", "[1]", " x ", "a b", "1.5", "-", "on", "red", "a", "b", "x1", "None", "{}", "k: v", "0x1f", "1e3",
            "é", "a\nb", "'q'", "\"1\"", "~", "-1", "2", "nan", ".inf", "#c", "[1, 2", "1_0", " ", "True", "yes"]
LOOKALIKE = ["null", "Null", "~", "true", "false", "True", "yes", "no", "on", "off", "1", "-1", "+1", "01", "1_000", "0x10", "0o17", "1.5", "1.", ".5",
             "1e3", "1E3", "1e+3", "inf", ".inf", "-.inf", "nan", ".nan", "[1, 2]", "[1, \"a\"]", "[1.5]", "[null]", "[]", "{}", "{\"a\": 1}", "{a: 1}",
             "{1: 2}", "a: 1", "- 1", "-", "---", "", " ", "  2 ", " null ", "\"1\"", "'1'", "\"null\"", "[1", "{", "a: b: c", "!!set {a}", "red", "x1",
             "abc", "None", "2024-01-01", "1:30", "[[1]]", "[[1, 2], [3]]", "[true]", "[\"1\"]", "{\"a\": [1]}", "{\"1\": 2}", "{\"a\": null}", "? a",
             "|", ">", "@x", "`x`", "%x", "[1,2]]", "1 2", "1,2", "(1, 2)", "null # c", "1 # c", "é", "\t1", "1\n"]
INT_POOL = [0, 1, -1, 2, 3, 7, 42, -3, 10 ** 16, 2 ** 53 + 1, -(10 ** 17), 123456789, 10 ** 310, -(10 ** 309)]
FLT_POOL = [0.5, -1.5, 2.0, 1e22, 1e-7, 0.0, -0.0, 3.25, 1e16, 123456.789, float("inf"), float("-inf")]
LIT_STR = ["a", "b", "null", "1", "true", "red", ""]
LIT_INT = [0, 1, 2, -1, 7]
KEY_POOL = ["a", "b", "k1", "x y", "1", "null"]
INTKEY_POOL = [0, 1, 2, -5, 10]


def gen_leafish(rng, top, hashable):
    r = rng.random()
    if r >= 0.86:
        # a restricted string / number type (library and user-defined; see c02_restr.py)
        return rt.desc(rng.randrange(rt.N_TYPES))
    if r < 0.62:
        opts = ["str", "int", "float", "bool"] + ([] if top else ["none"]) + ([] if hashable else ["any"])
        return rng.choice(opts)
    if r < 0.82:
        n = rng.randint(1, 3)
        kind = rng.random()
        if kind < 0.4:
            ms = rng.sample(LIT_STR, n)
        elif kind < 0.7:
            ms = rng.sample(LIT_INT, n)
        elif kind < 0.8:
            ms = rng.sample([True, False], min(n, 2))
        else:
            ms = rng.sample(LIT_STR, 1) + rng.sample(LIT_INT, 1) + ([rng.choice([True, False])] if n > 2 else [])
            rng.shuffle(ms)
        return {"lit": ms}
    return enum_desc(rng.randrange(N_RANDOM_ENUMS))


def gen_ty(rng, depth=4, top=True, hashable=False, in_union=False):
    """descriptor (not yet normalised) of nesting depth <= depth"""
    if depth <= 0 or rng.random() < (0.12 if top else 0.3):
        return gen_leafish(rng, top, hashable)
    kinds = ["t", "tv", "u"] if hashable else ["l", "d", "t", "tv", "s", "u", "u"]
    if in_union:
        kinds = [k for k in kinds if k != "u"]
    k = rng.choice(kinds)
    if k == "u":
        n = rng.choice([2, 2, 3, 3, 4])
        ms = [gen_ty(rng, depth - 1, False, hashable, True) for _ in range(n)]
        if rng.random() < 0.3 and not hashable:
            ms[rng.randrange(n)] = "none"
        if rng.random() < 0.35:
            ms[rng.randrange(n)] = "str"
        return {"u": ms}
    if k == "l":
        return {"l": gen_ty(rng, depth - 1, False)}
    if k == "d":
        return {"d": [rng.choice(["str", "str", "int"]), gen_ty(rng, depth - 1, False)]}
    if k == "t":
        return {"t": [gen_ty(rng, depth - 1, False, hashable) for _ in range(rng.choice([0, 1, 2, 2, 3]))]}
    if k == "tv":
        return {"tv": gen_ty(rng, depth - 1, False, hashable)}
    return {"s": gen_ty(rng, depth - 1, False, hashable=(rng.random() < 0.93))}


def gen_type(rng, depth=4):
    for _ in range(50):
        d = gen_ty(rng, rng.randint(0, depth))
        try:
            n = normalise(d)
        except Exception:  # noqa: BLE001 - e.g. a Union that typing collapses to NoneType
            continue
        if n == "none":
            continue
        if ty_depth(n) <= depth:
            return n
    return "int"


def gen_any_value(rng, depth=2):
    r = rng.random()
    if depth <= 0 or r < 0.6:
        return rng.choice([None, True, 0, 5, {"f": "1.5"}, "abc", "1", "null", "[1]", "", "'123'", "'true'", "'null'", "'4.5'", "\"007\"", "'abc'", " 'x' "])
    if r < 0.8:
        return [gen_any_value(rng, depth - 1) for _ in range(rng.randint(0, 2))]
    return {"d": [[k, gen_any_value(rng, depth - 1)] for k in rng.sample(["a", "b"], rng.randint(0, 2))]}


def gen_input(rng, d, forms=True, hashable=False):
    """wire value acceptable for descriptor d.  forms=False: exactly conforming (already in normal form);
    forms=True: also the input forms the adapter converts (tuple as list, enum by name, int for float, scalars as text...)"""
    f = forms and rng.random() < 0.35
    if d == "str":
        return rng.choice(STR_POOL)
    if d == "int":
        i = rng.choice(INT_POOL)
        return (str(i) if rng.random() < 0.8 else " %d " % i) if f else i
    if d == "float":
        x = rng.choice(FLT_POOL)
        if f:
            r = rng.random()
            if r < 0.4:
                return rng.choice(INT_POOL)
            if r < 0.7 and math.isfinite(x):
                return repr(x)
            return rng.choice(["1", ".inf", "1e3", "2.5"])
        return {"f": repr(x)}
    if d == "bool":
        b = rng.random() < 0.5
        return rng.choice(["true", "True", "yes", "on"] if b else ["false", "no", "off", "False"]) if f else b
    if d == "none":
        return rng.choice(["null", "~", "Null"]) if f else None
    if d == "any":
        return gen_any_value(rng) if not hashable else rng.choice([1, "a", None])
    if "u" in d:
        return gen_input(rng, rng.choice(d["u"]), forms, hashable)
    if "l" in d:
        xs = [gen_input(rng, d["l"], forms) for _ in range(rng.choice([0, 1, 1, 2, 3]))]
        return {"t": xs} if f and rng.random() < 0.4 else xs
    if "d" in d:
        if d["d"][0] == "int":
            ks = rng.sample(INTKEY_POOL, rng.choice([0, 1, 2]))
            ks = [(str(k) if forms and rng.random() < 0.5 else k) for k in ks]
        else:
            ks = rng.sample(KEY_POOL, rng.choice([0, 1, 2]))
        return {"d": [[k, gen_input(rng, d["d"][1], forms)] for k in ks]}
    if "t" in d:
        xs = [gen_input(rng, x, forms, hashable) for x in d["t"]]
        return xs if f and not hashable else {"t": xs}
    if "tv" in d:
        xs = [gen_input(rng, d["tv"], forms, hashable) for _ in range(rng.choice([0, 1, 2, 3]))]
        return xs if f and not hashable else {"t": xs}
    if "s" in d:
        xs = [gen_input(rng, d["s"], forms, True) for _ in range(rng.choice([0, 1, 2, 3]))]
        if forms and rng.random() < 0.7:
            return xs if rng.random() < 0.8 else {"t": xs}
        try:
            return enc(set(to_py(xs)))
        except TypeError:
            return xs
    if "lit" in d:
        m = rng.choice(d["lit"])
        if f and isinstance(m, bool):
            return "true" if m else "false"
        if f and isinstance(m, int):
            return str(m)
        return m
    if "e" in d:
        n = rng.choice(d["e"][1])
        return n if forms and rng.random() < 0.7 else {"e": [d["e"][0], n]}
    if "rn" in d:
        # forms=False: a value the declaration of the type says conforms; forms=True: also text / other-kind forms and,
        # for one in four, a near miss (a string that only CONTAINS a match, a match followed by junk, a number just
        # outside the bounds) - so that restricted leaves nested in containers / Unions see refusals too
        near_miss = forms and rng.random() < 0.25
        return rt.gen_value(rng, d["rn"][1], not near_miss, forms)
    raise MachineryError("gen_input %r" % (d,))


def val_paths(j, path=()):
    yield path
    if isinstance(j, list):
        for i, x in enumerate(j):
            yield from val_paths(x, path + (("l", i),))
    elif isinstance(j, dict):
        if "t" in j or "s" in j:
            k = "t" if "t" in j else "s"
            for i, x in enumerate(j[k]):
                yield from val_paths(x, path + ((k, i),))
        elif "d" in j:
            for i, (_, x) in enumerate(j["d"]):
                yield from val_paths(x, path + (("d", i),))


def val_get(j, path):
    for k, i in path:
        j = j[i] if k == "l" else (j["d"][i][1] if k == "d" else j[k][i])
    return j


def val_set(j, path, new):
    if not path:
        return new
    j = copy.deepcopy(j)
    cur = j
    for k, i in path[:-1]:
        cur = cur[i] if k == "l" else (cur["d"][i][1] if k == "d" else cur[k][i])
    k, i = path[-1]
    if k == "l":
        cur[i] = new
    elif k == "d":
        cur["d"][i][1] = new
    else:
        cur[k][i] = new
    return j


def wrong_scalar(rng, old):
    """a scalar of another kind (bool for int, float for int, text for number, ...)"""
    cands = [None, True, False, 0, 1, 5, {"f": "1.0"}, {"f": "2.5"}, "abc", "zz", "1", "1.5", "true", "null", {"e": [0, "red"]}, {"e": [2, "a"]}, "purple", 99, -7]
    for _ in range(20):
        c = rng.choice(cands)
        if jdump(c) != jdump(old):
            return c
    return "zz"


def mutate(rng, j):
    """make the value wrong (or at least different) at one position"""
    paths = list(val_paths(j))
    path = rng.choice(paths)
    old = val_get(j, path)
    r = rng.random()
    if isinstance(old, list) or (isinstance(old, dict) and ("t" in old or "s" in old)):
        k = None if isinstance(old, list) else ("t" if "t" in old else "s")
        xs = list(old if k is None else old[k])
        if r < 0.35 and xs:
            xs.pop(rng.randrange(len(xs)))                      # wrong arity (shorter)
        elif r < 0.7:
            xs.insert(rng.randint(0, len(xs)), wrong_scalar(rng, None))   # wrong arity (longer) / wrong element
        elif r < 0.8:
            return val_set(j, path, wrong_scalar(rng, old))
        else:
            return val_set(j, path, {"d": []} if r < 0.9 else (xs if k else {"t": xs}))
        return val_set(j, path, xs if k is None else {k: xs})
    if isinstance(old, dict) and "d" in old:
        kvs = copy.deepcopy(old["d"])
        if r < 0.4:
            kvs.append([rng.choice(["zz", "a", 3, "7"]), wrong_scalar(rng, None)])
            seen, out = set(), []
            for k, v in kvs:
                if jdump(k) not in seen:
                    seen.add(jdump(k))
                    out.append([k, v])
            return val_set(j, path, {"d": out})
        if r < 0.7:
            return val_set(j, path, [v for _, v in kvs])
        return val_set(j, path, wrong_scalar(rng, old))
    if isinstance(old, bool):
        return val_set(j, path, rng.choice([int(old), "abc", None, {"f": "1.0"}]))
    if isinstance(old, int):
        return val_set(j, path, rng.choice([bool(old % 2), {"f": repr(float(old)) if abs(old) < 10 ** 300 else "1.0"}, {"f": "0.5"}, "x%d" % old, None, [old]]))
    return val_set(j, path, wrong_scalar(rng, old))


def to_text(j):
    """JSON text of a wire value when it has one (no tuples/sets/members/int keys/non-finite floats)"""
    def conv(x):
        if x is None or isinstance(x, (bool, int, str)):
            return x
        if isinstance(x, list):
            return [conv(y) for y in x]
        if "f" in x:
            f = float(x["f"])
            if not math.isfinite(f):
                raise ValueError
            return f
        if "d" in x:
            if any(not isinstance(k, str) for k, _ in x["d"]):
                raise ValueError
            return {k: conv(v) for k, v in x["d"]}
        raise ValueError

    try:
        c = conv(j)
    except ValueError:
        return None
    if isinstance(c, str):
        return c
    return json.dumps(c)


def union_variants(desc, cap):
    """all descriptors obtained by permuting the members of one Union position (identity excluded)"""
    out = []
    for path, x in ty_walk(desc):
        if isinstance(x, dict) and "u" in x and len(x["u"]) <= 4:
            for perm in itertools.permutations(range(len(x["u"]))):
                if list(perm) == sorted(perm):
                    continue
                out.append(ty_replace(desc, path, {"u": [x["u"][i] for i in perm]}))
    seen, res = set(), []
    for d in out:
        k = jdump(d)
        if k not in seen:
            seen.add(k)
            res.append(d)
    return res if cap is None else res[:cap]


# Unions of container members where an earlier member converts a prefix of the elements before it fails
# (int -> float, text -> int/bool/None, name -> Enum member, list -> tuple): the later member must still see the
# ORIGINAL value (row F05g: a failing List/Dict member used to rewrite the value in place).
PREFIX_PAIRS = [
    # (element type of the earlier member, element type of the later member, a convertible element, an element only the later member takes)
    ("float", {"u": ["int", "str"]}, [1, 7, "2"], ["a", "zz"]),
    ("int", "str", ["1", " 2 ", "-3"], ["a", "x1"]),
    ("bool", "str", ["true", "no", "on"], ["a", "maybe"]),
    ("none", "str", ["null", "~"], ["a", "b"]),
    ({"e": [0, ["red", "green", "blue"]]}, "str", ["red", "blue"], ["purple", "a"]),
    ({"tv": "int"}, {"l": {"u": ["int", "str"]}}, [[1, 2], [3]], [["a"], [1, "b"]]),
    ("float", "int", [1, 2], [True]),
    ({"lit": [1, 2]}, "str", ["1", "2"], ["a", "3"]),
    ({"l": "float"}, {"l": {"u": ["int", "str"]}}, [[1], [2, 3]], [[1, "a"]]),
    ({"d": ["int", "int"]}, {"d": ["str", "int"]}, [{"d": [["1", 1]]}], [{"d": [["a", 1]]}]),
    ("float", "any", [1, "2"], ["a", None]),
]


def prefix_union_cases(rng, n):
    """[(desc, channel, input, origin)] of the class above"""
    out = []
    for _ in range(n):
        a, b, conv, only_b = rng.choice(PREFIX_PAIRS)
        kind = rng.choice(["l", "l", "d", "tv", "t", "s"])
        k = rng.randint(1, 2)
        xs = [rng.choice(conv) for _ in range(k)] + [rng.choice(only_b)] + ([rng.choice(conv)] if rng.random() < 0.4 else [])
        if kind == "l":
            ma, mb, v = {"l": a}, {"l": b}, xs
        elif kind == "tv":
            ma, mb, v = {"tv": a}, {"tv": b}, rng.choice([xs, {"t": xs}])
        elif kind == "t":
            ma, mb, v = {"t": [a] * len(xs)}, {"t": [b] * len(xs)}, rng.choice([xs, {"t": xs}])
        elif kind == "s":
            if any(isinstance(x, (list, dict)) for x in xs) or ty_kinds(a) & {"l", "d", "s", "leaf:any"} or ty_kinds(b) & {"l", "d", "s", "leaf:any"}:
                ma, mb, v = {"l": a}, {"l": b}, xs
            else:
                ma, mb, v = {"s": a}, {"s": b}, xs
        else:
            keys = rng.sample(KEY_POOL, len(xs))
            ma, mb, v = {"d": ["str", a]}, {"d": ["str", b]}, {"d": [[kk, x] for kk, x in zip(keys, xs)]}
        members = [ma, mb]
        r = rng.random()
        if r < 0.25:
            members.append(rng.choice(["int", "none", {"d": ["str", "bool"]}, {"t": ["int"]}]))
        elif r < 0.35:
            members.insert(0, rng.choice(["bool", {"lit": ["a"]}]))
        desc = {"u": members}
        r = rng.random()
        if r < 0.2:
            desc, v = {"l": desc}, [v]
        elif r < 0.3:
            desc, v = {"d": ["str", desc]}, {"d": [["a", v]]}
        elif r < 0.4:
            desc, v = {"t": ["int", desc]}, [5, v]
        try:
            desc = normalise(desc)
        except Exception:  # noqa: BLE001
            continue
        out.append((desc, "obj", v, "prefix-union"))
        t = to_text(v)
        if t is not None:
            out.append((desc, "arg", t, "prefix-union-text"))
    return out


def restricted_family_cases(rng, per_type):
    """[(desc, channel, input, origin)]: EVERY restricted type of the pool at a leaf, inside List / Dict / Tuple / Set /
    Optional and as a Union member, with conforming values and near misses (a string that only contains a match, a match
    followed by junk, numbers on and just outside the bounds, other kinds), as values and as argument text"""
    out = []
    for k in range(rt.N_TYPES):
        d = rt.desc(k)
        other = rt.desc((k + 1 + rng.randrange(rt.N_TYPES - 1)) % rt.N_TYPES)
        for _ in range(per_type):
            vals = [rt.gen_value(rng, k, True, False), rt.gen_value(rng, k, True, True), rt.gen_value(rng, k, False, True),
                    rt.gen_value(rng, k, False, False)]
            v = rng.choice(vals)
            w = rng.choice(vals)
            pos = rng.choice(["leaf", "leaf", "list", "dict", "tuple", "tuplevar", "set", "optional", "union", "opt-list-union"])
            if pos == "leaf":
                desc, x = d, v
            elif pos == "list":
                desc, x = {"l": d}, [w, v]
            elif pos == "dict":
                desc, x = {"d": ["str", d]}, {"d": [["a", w], ["b", v]]}
            elif pos == "tuple":
                desc, x = {"t": [d, other]}, rng.choice([[v, rt.gen_value(rng, other["rn"][1], True, False)], {"t": [v, rt.gen_value(rng, other["rn"][1], rng.random() < 0.7, False)]}])
            elif pos == "tuplevar":
                desc, x = {"tv": d}, {"t": [v, w]}
            elif pos == "set":
                desc, x = {"s": d}, [v, w]
            elif pos == "optional":
                desc, x = {"u": [d, "none"]}, rng.choice([v, None])
            elif pos == "union":
                m = rng.choice(["int", "bool", {"l": "int"}, other, "float"])
                desc, x = {"u": rng.sample([d, m], 2)}, rng.choice([v, 3, [1]])
            else:
                desc, x = {"u": [{"l": {"u": [d, "int"]}}, "none"]}, [v, 3]
            try:
                desc = normalise(desc)
                enc(to_py(x))
            except Exception:  # noqa: BLE001 - e.g. an unhashable element for the Set position
                continue
            out.append((desc, "obj", x, "restricted:" + pos))
            t = to_text(x)
            if t is not None:
                out.append((desc, "arg", t, "restricted:" + pos + "-text"))
    return out


def restricted_leaf_exhaustive(thorough):
    """every restricted type of the pool against a deterministic value list: for a string type every declared example,
    every example behind every junk prefix and in front of every junk suffix; for a number type every candidate as a
    number, as text and as the other numeric kind - as a value and as argument text"""
    out = []
    for k in range(rt.N_TYPES):
        d = rt.desc(k)
        if k < rt.N_STR:
            _n, _p, _f, _c, good, bad = rt.declared(k)
            pres = rt.JUNK_PRE if thorough else rt.JUNK_PRE[:4]
            posts = rt.JUNK_POST if thorough else rt.JUNK_POST[:4]
            vals = list(good) + list(bad) + [p + g for g in good for p in pres] + [g + q for g in good for q in posts] + [5, None, [good[0]]]
        else:
            base = rt.declared(k)[1]
            cands = rt.INT_CANDS if base is int else rt.FLT_CANDS
            vals = []
            for x in cands:
                vals.append(x if base is int else {"f": repr(x)})
                vals.append(str(x) if base is int else repr(x))
                if base is int:
                    vals.append({"f": repr(float(x))})
                elif float(x).is_integer() and abs(x) < 2 ** 53:
                    vals.append(int(x))
            vals += [True, None, "abc", "", {"f": "nan"}, {"f": "inf"}, {"f": "-inf"}, {"f": "0.5"}, "0x10", "1_0", " 3 ", [1]]
            if base is float:    # ints beyond the float range: an ordinary refusal since /repo 4c191c6 (the model: `toFlt` = none)
                vals += [10 ** 310, -(10 ** 309), "1e400"]
            if base is int:      # floats that are not integers (numbers and text), integral floats as text
                vals += [{"f": "2.5"}, {"f": "7.5"}, {"f": "-3.5"}, {"f": "9.99"}, {"f": "1e-07"}, "2.5", "7.0", "1e1"]
        seen = set()
        for v in vals:
            if jdump(v) in seen:
                continue
            seen.add(jdump(v))
            out.append((d, "obj", v, "restricted-exhaustive"))
            if isinstance(v, str) and v != "--" and not v.startswith("\n"):
                out.append((d, "arg", v, "restricted-exhaustive-text"))
    return out


def gen_cases(rng, desc, n_inputs):
    """[(channel, input, origin)] for one type"""
    cases = []
    for _ in range(n_inputs):
        v = gen_input(rng, desc, forms=False)
        cases.append(("obj", v, "conforming"))
        w = gen_input(rng, desc, forms=True)
        cases.append(("obj", w, "input-form"))
        m = mutate(rng, rng.choice([v, w]))
        cases.append(("obj", m, "mutated"))
        for x, o in ((w, "input-form"), (m, "mutated")):
            t = to_text(x)
            if t is not None:
                cases.append(("arg", t, o + "-text"))
    for s in rng.sample(LOOKALIKE, min(len(LOOKALIKE), max(2, n_inputs))):
        cases.append(("arg", s, "lookalike"))
        if rng.random() < 0.5:
            cases.append(("obj", s, "lookalike"))
    seen, out = set(), []
    for c in cases:
        k = jdump(c[:2])
        if k not in seen:
            seen.add(k)
            out.append(c)
    return out


# ---------------------------------------------------------------- oracles on the real code
def split_container(desc, v):
    """for a container type and a container value: [(wrapper-type, wrapper-value)] one per element, plus the
    structural condition (arity / container kind) the container itself has to meet; None when not applicable"""
    if isinstance(v, dict) and "d" in v:
        if not (isinstance(desc, dict) and "d" in desc):
            return None
        return True, [(desc, {"d": [[k, x]]}) for k, x in v["d"]]
    if isinstance(v, list):
        xs = v
    elif isinstance(v, dict) and ("t" in v or "s" in v):
        xs = v.get("t", v.get("s"))
    else:
        return None
    if not isinstance(desc, dict):
        return None
    if "l" in desc:
        return True, [({"l": desc["l"]}, [x]) for x in xs]
    if "tv" in desc:
        return True, [({"l": desc["tv"]}, [x]) for x in xs]
    if "s" in desc:
        return True, [({"l": desc["s"]}, [x]) for x in xs]
    if "t" in desc:
        return len(xs) == len(desc["t"]), [({"l": t}, [x]) for t, x in zip(desc["t"], xs)]
    return None


class Run:
    """collects real observations with a cache (the real parser is deterministic per (type, channel, input))"""

    def __init__(self, ctx):
        self.ctx = ctx
        self.cache = {}

    def obs(self, desc, channel, inp):
        return self.obs_given(desc, channel, inp)[0]

    def obs_given(self, desc, channel, inp):
        """(observation, the input as the parser saw it: sets in their actual iteration order)"""
        k = jdump([desc, channel, inp])
        r = self.cache.get(k)
        if r is None:
            LAST_GIVEN[0] = None
            o = real_parse(desc, channel, inp)
            r = (o, LAST_GIVEN[0] if channel == "obj" and LAST_GIVEN[0] is not None else inp)
            self.cache[k] = r
            self.ctx.count()
        return r


def check_case_oracles(ctx: Ctx, run: Run, desc, channel, inp, origin, conf_in, obs, conf_out):
    """property oracle for one case.  conf_in: Lean `Conforms desc inp` (obj channel) ; conf_out: the four validator
    answers on the real result (None when rejected or null)"""
    rep = {"desc": desc, "channel": channel, "input": inp, "origin": origin}
    # (a) soundness: accepted non-null results conform
    if accepted(obs) and obs["ok"] is not None and conf_out is not None and not conf_out["conf"]:
        if conf_out["confLit"] and ctx.is_open(FINDING_LITERAL):
            ctx.known(FINDING_LITERAL, "Literal membership by ==: %s accepts %s -> %s" % (jdump(desc)[:80], jdump(inp)[:40], jdump(obs["ok"])[:40]))
        elif conf_out["confKey"] and ctx.is_open(FINDING_DICTKEY):
            ctx.known(FINDING_DICTKEY, "dict keys are not checked: %s accepts %s" % (jdump(desc)[:80], jdump(inp)[:60]))
        elif conf_out["confLoose"] and ctx.is_open(FINDING_LITERAL) and ctx.is_open(FINDING_DICTKEY):
            ctx.known(FINDING_LITERAL, "Literal membership by == (together with an unchecked dict key)")
        else:
            ctx.violation("accepted value does not conform to the declared type", dict(rep, kind="sound", result=obs["ok"]))
    # (b) shape: a conforming value is never rejected
    if channel == "obj" and conf_in and not accepted(obs):
        if set_elem_may_be_unhashable(desc) and ctx.is_open(FINDING_SETELEM):
            ctx.known(FINDING_SETELEM, "conforming value rejected: %s given %s" % (jdump(desc)[:80], jdump(inp)[:60]))
        else:
            ctx.violation("a value of the right shape is rejected", dict(rep, kind="shape", real=obs))
    # (c) containers element by element (value channel)
    if channel == "obj":
        sp = split_container(desc, inp)
        if sp is not None:
            struct_ok, parts = sp
            each = [accepted(run.obs(t, "obj", x)) for t, x in parts]
            want = struct_ok and all(each)
            if want != accepted(obs):
                # a Set adds a requirement on the converted elements (hashability) that is not element-wise
                if isinstance(desc, dict) and "s" in desc and set_elem_may_be_unhashable(desc):
                    pass
                else:
                    ctx.violation("container acceptance is not the conjunction of its elements' acceptance",
                                  dict(rep, kind="iff-container", whole=obs, elements=each, structure_ok=struct_ok))
    # (d) Union = disjunction of its members
    if isinstance(desc, dict) and "u" in desc:
        if channel == "obj":
            whole = accepted(run.obs({"l": desc}, "obj", [inp]))
            members = [accepted(run.obs({"l": t}, "obj", [inp])) for t in desc["u"]]
            if whole != any(members):
                ctx.violation("Union acceptance is not the disjunction of its members' acceptance (element position)",
                              dict(rep, kind="iff-union", whole=whole, members=members))
        elif "none" not in desc["u"]:
            members = [accepted(run.obs(t, "arg", inp)) for t in desc["u"]]
            if accepted(obs) != any(members):
                if accepted(obs) and any(isinstance(t, dict) and "e" in t and t["e"][0] == 3 for t in desc["u"]) and ctx.is_open(FINDING_ENUMRETRY):
                    ctx.known(FINDING_ENUMRETRY, "Union accepts the member name %r that the Enum alone rejects" % inp)
                    return
                ctx.violation("Union acceptance is not the disjunction of its members' acceptance (argument text)",
                              dict(rep, kind="iff-union", whole=accepted(obs), members=members))


def check_perm(ctx: Ctx, run: Run, desc, variants, channel, inp, origin, obs):
    for d2 in variants:
        o2 = run.obs(d2, channel, inp)
        if accepted(o2) != accepted(obs):
            if set_elem_may_be_unhashable(desc) and ctx.is_open(FINDING_SETELEM):
                ctx.known(FINDING_SETELEM, "acceptance by a Set depends on which Union member converts the element: %s given %s" % (jdump(desc)[:80], jdump(inp)[:60]))
                continue
            ctx.violation("Union acceptance depends on the order of its members",
                          {"kind": "perm", "desc": desc, "permuted": d2, "channel": channel, "input": inp, "origin": origin,
                           "real": obs, "real_permuted": o2})
            return


# ---------------------------------------------------------------- arguments that have a default
# (type, default, extra values).  Conforming defaults and sentinel defaults that do not conform; the values tried are
# the default itself, values equal to it by Python == but of another kind (True / 1 / 1.0, False / 0 / 0.0, 3 / 3.0),
# other values, and text forms - through parse_object, a config text (parse_string) and argv.
DEFAULT_CASES = [
    ("int", 1, []), ("int", 0, []), ("int", 3, [{"f": "3.0"}]), ("int", "auto", ["auto", "other"]), ("int", -1, []),
    ("float", {"f": "1.0"}, []), ("float", {"f": "0.0"}, []), ("float", 1, []), ("float", "none", ["none"]),
    ("bool", True, []), ("bool", False, []), ("bool", 1, []),
    ("str", "x", ["x", "1", "true"]), ("str", "1", [1, "1"]), ("str", 1, [1]),
    ({"u": ["int", "none"]}, 0, []), ({"u": ["int", "none"]}, 1, []), ({"u": ["int", {"l": "int"}]}, 1, [[1]]),
    ({"u": ["int", "str"]}, 1, ["1"]), ({"u": ["bool", "str"]}, "off", ["off", "on"]),
    ({"l": "int"}, [1], [[1], [True], [{"f": "1.0"}]]), ({"lit": [1, 2]}, 1, []), ({"lit": ["a", "b"]}, "c", ["c", "a"]),
    ({"t": ["int", "str"]}, {"t": [1, "a"]}, [[1, "a"]]), ({"d": ["str", "int"]}, {"d": [["a", 1]]}, [{"d": [["a", 1]]}]),
    ({"tv": "float"}, "auto", ["auto", [1]]),
]
EQ_POOL = [True, False, 0, 1, {"f": "0.0"}, {"f": "1.0"}, 2, {"f": "2.5"}, "1", "true", "0", "1.0", "abc", None, -1, {"f": "-1.0"}]


def default_parser(desc, dflt):
    from jsonargparse import ArgumentParser

    p = ArgumentParser(exit_on_error=False, default_env=False)
    p.add_argument("--k", type=to_typing(desc), default=to_py(dflt))
    return p


def real_with_default(p, channel, inp):
    from jsonargparse import ArgumentError

    try:
        if channel == "obj":
            cfg = p.parse_object({"k": copy.deepcopy(to_py(inp))})
        elif channel == "cfg":
            cfg = p.parse_string(json.dumps({"k": to_py(inp)}))
        else:
            cfg = p.parse_args(["--k=" + inp])
        return {"ok": canon(enc(cfg.k))}
    except ArgumentError:
        return {"err": "reject"}
    except Exception as ex:  # noqa: BLE001
        return {"err": "crash:" + type(ex).__name__}


def defaults_family(ctx: Ctx):
    """arguments WITH defaults: correspondence with the model (`parseObjD` / `parseArgD`) and soundness judged by Lean"""
    items, metas = [], []
    for desc, dflt, extra in DEFAULT_CASES:
        try:
            p = default_parser(desc, dflt)
        except Exception as ex:  # noqa: BLE001
            ctx.violation("an argument with this default cannot be declared", {"kind": "default-declare", "desc": desc, "default": dflt, "got": type(ex).__name__})
            continue
        # a default that the parser itself refuses (parse_object / parse_string re-check the defaults, argparse converts
        # string defaults) makes every parse of that channel fail, whatever the value: outside the per-value model
        from jsonargparse import ArgumentError
        usable = set()
        for chk, fn in (("obj", lambda: p.parse_object({})), ("cfg", lambda: p.parse_string("{}")), ("arg", lambda: p.parse_args([]))):
            try:
                fn()
                usable.add(chk)
            except ArgumentError:
                ctx.hist("defaults_family", chk + ":default refused by the parser itself")
        values = [dflt] + extra + EQ_POOL
        seen = set()
        for v in values:
            chans = ["obj"] + (["cfg"] if to_text(v) is not None or v is None or isinstance(v, (bool, int)) else []) + (["arg"] if isinstance(v, str) else [])
            if not isinstance(v, str):
                t = to_text(v)
                if t is not None and not isinstance(v, (list, dict)) or isinstance(v, list):
                    chans = chans + ["arg:" + (t if t is not None else "")] if t is not None else chans
            for ch in chans:
                inp = v
                if ch.startswith("arg:"):
                    ch, inp = "arg", ch[4:]
                if ch == "cfg" and isinstance(v, dict) and ("t" in v or "s" in v or "e" in v):
                    continue
                key = jdump([ch, inp])
                if key in seen or ch not in usable:
                    continue
                seen.add(key)
                try:
                    if ch == "cfg":
                        json.dumps(to_py(inp))
                    real = real_with_default(p, ch, inp)
                    mch = "arg" if ch == "arg" else "obj"
                    items.append({"t": desc, "v": inp, "dflt": dflt, "o": build_tables(inp, dflt), "want": ["parseArgD" if mch == "arg" else "parseObjD"]})
                    metas.append((desc, dflt, ch, inp, real))
                    ctx.count()
                    if accepted(real) and real["ok"] is not None:
                        items.append(conf_item(desc, real["ok"]))
                        metas.append(None)
                except (Unencodable, TypeError, ValueError):
                    continue
    res = run_driver(ctx, items) or []
    bad = []
    i = 0
    while i < len(res):
        m = metas[i]
        r = res[i]
        conf_out = None
        if i + 1 < len(res) and metas[i + 1] is None:
            conf_out = res[i + 1]
            i += 1
        i += 1
        desc, dflt, ch, inp, real = m
        if "miss" in r or "bad-input" in r:
            raise MachineryError("driver could not evaluate default case %s: %s" % (jdump(m[:4])[:300], jdump(r)[:200]))
        rr = r.get("parseArgD") or r.get("parseObjD")
        mine = {"ok": canon(rr["ok"])} if "ok" in rr else {"err": "reject"}
        ctx.hist("defaults_family", ch + (":accept" if accepted(real) else ":reject"))
        if accepted(real):
            ctx.nontrivial(jdump(["default", desc, dflt, ch, inp]))
        if jdump(mine) != jdump(real):
            bad.append({"desc": desc, "default": dflt, "channel": ch, "input": inp, "real": real, "model": mine})
        if conf_out is not None and not conf_out["conf"]:
            rep = {"kind": "default-sound", "desc": desc, "default": dflt, "channel": ch, "input": inp, "result": real["ok"]}
            if conf_out["confLit"] and ctx.is_open(FINDING_LITERAL):
                ctx.known(FINDING_LITERAL, "Literal membership by == (argument with a default)")
            elif isinstance(real["ok"], str) and isinstance(dflt, str) and real["ok"] == dflt and isinstance(inp, str) and ctx.is_open(FINDING_SENTINEL):
                ctx.known(FINDING_SENTINEL, "text equal to the non-conforming string default is returned: %s default %r" % (jdump(desc)[:60], dflt))
            else:
                ctx.violation("accepted value does not conform to the declared type (argument with a default)", rep)
    bad.sort(key=lambda b: len(jdump(b)))
    for b in bad[:3]:
        ctx.tie_break("correspondence E3 (adapter model with a default vs jsonargparse) disagrees", jdump(b)[:1800])
    ctx.extra["defaults_family_cases"] = len([m for m in metas if m is not None])
    ctx.extra["defaults_family_disagreements"] = len(bad)
    import os
    if os.environ.get("C02_DEBUG"):
        with open(os.environ["C02_DEBUG"] + ".dflt", "w") as f:
            for b in bad:
                f.write(jdump(b) + "\n")


# ---------------------------------------------------------------- the check
def corpus_cases(ctx):
    from ..lib import corpus as corpus_mod

    out = []
    for c in corpus_mod.load(ctx.prop):
        for case in c.get("cases", [c]):
            out.append((case["desc"], case["channel"], case["input"], "corpus"))
    return out


def generated_cases(ctx, n_types, n_inputs, perm_cap):
    """[(desc, channel, input, origin)], {jdump(desc): variants}"""
    cases, variants = [], {}
    for _ in range(n_types):
        desc = gen_type(ctx.rng)
        vs = union_variants(desc, perm_cap)
        variants[jdump(desc)] = vs
        cs = gen_cases(ctx.rng, desc, n_inputs)
        for ch, inp, origin in cs:
            cases.append((desc, ch, inp, origin))
    for desc, ch, inp, origin in prefix_union_cases(ctx.rng, max(40, n_types // 3)) + restricted_family_cases(ctx.rng, max(6, n_types // 40)):
        if jdump(desc) not in variants:
            variants[jdump(desc)] = union_variants(desc, perm_cap)
        cases.append((desc, ch, inp, origin))
    return cases, variants


def exhaustive_small(ctx):
    """thorough tier: every type of a small alphabet up to depth 2 against a fixed value list"""
    leaves = ["str", "int", "float", "bool", {"lit": [1, "a"]}, enum_desc(0)]
    unary = [lambda t: {"l": t}, lambda t: {"tv": t}, lambda t: {"s": t}, lambda t: {"d": ["str", t]}, lambda t: {"u": [t, "none"]}]
    tys = list(leaves)
    for a, b in itertools.permutations(leaves, 2):
        tys.append({"u": [a, b]})
        tys.append({"t": [a, b]})
    for f in unary:
        for t in leaves:
            tys.append(f(t))
    lvl1 = list(tys)
    for f in unary[:3]:
        for t in lvl1[len(leaves):len(leaves) + 30]:
            if not (f is unary[2] and ty_kinds(t) & {"l", "d", "s"}):
                tys.append(f(t))
    vals = [None, True, 1, 0, {"f": "1.0"}, {"f": "1.5"}, "a", "1", "null", "red", "true", [], [1], ["a"], [1, "a"], ["1", {"f": "1.5"}], [True],
            {"t": [1, "a"]}, {"t": [1]}, {"d": []}, {"d": [["a", 1]]}, {"d": [["a", "a"]]}, {"e": [0, "red"]}, [[1]], [None], {"s": [1]}, [1, 1]]
    texts = ["1", "a", "null", "true", "[1]", "[1, \"a\"]", "[\"a\"]", "{\"a\": 1}", "red", "1.5", "[]", "[null]", "[1.5]", "[[1]]", "", "\"1\""]
    cases = []
    for t in tys:
        try:
            d = normalise(t)
        except Exception:  # noqa: BLE001
            continue
        if d == "none":
            continue
        for v in vals:
            cases.append((d, "obj", v, "exhaustive"))
        for s in texts:
            cases.append((d, "arg", s, "exhaustive"))
    return cases


def norm_input(ch, inp):
    """a wire value that denotes a Python value exactly: sets de-duplicated the way Python does ({1, True} is {1})"""
    if ch != "obj":
        return inp
    try:
        return enc(to_py(inp))
    except TypeError:
        raise Unencodable("not a python value")


def correspond_and_judge(ctx: Ctx, run: Run, cases, variants, label):
    """runs the real parser and the model on `cases`; returns the list of disagreements"""
    items, metas = [], []
    skipped = 0
    for desc, ch, inp, origin in cases:
        try:
            inp = norm_input(ch, inp)
            obs, given = run.obs_given(desc, ch, inp)
            item = model_item(desc, ch, given)
        except Unencodable:
            skipped += 1
            continue
        if "err" in obs and obs["err"].startswith("declare:"):
            ctx.violation("a type hint of the grammar cannot be declared", {"kind": "declare", "desc": desc, "real": obs})
            continue
        items.append(item)
        metas.append(("case", desc, ch, inp, origin, obs))
        if accepted(obs) and obs["ok"] is not None and not (isinstance(obs["ok"], dict) and "unencodable" in obs["ok"]):
            items.append(conf_item(desc, obs["ok"]))
            metas.append(("conf",))
    ctx.extra["skipped_outside_wire_grammar"] = ctx.extra.get("skipped_outside_wire_grammar", 0) + skipped
    res = run_driver(ctx, items)
    bad = []
    if res is None:
        res = [None] * len(items)
    i = 0
    while i < len(items):
        kind, desc, ch, inp, origin, obs = metas[i]
        r = res[i]
        conf_out = None
        if i + 1 < len(items) and metas[i + 1][0] == "conf":
            conf_out = res[i + 1]
            i += 1
        i += 1
        ctx.hist("channel", ch)
        ctx.hist("origin", origin)
        ctx.hist("outcome", "accept" if accepted(obs) else obs["err"])
        ctx.hist("type_root", desc if isinstance(desc, str) else next(iter(desc)))
        ctx.hist("type_depth", ty_depth(desc))
        if accepted(obs):
            ctx.nontrivial(jdump([desc, ch, inp]))
        conf_in = None
        if r is not None:
            if "miss" in r or "bad-input" in r or "bad-json" in r:
                raise MachineryError("driver could not evaluate %s: %s" % (jdump([desc, ch, inp])[:300], jdump(r)[:200]))
            m = model_obs(r, ch)
            conf_in = r.get("conf")
            same = jdump(m) == jdump(obs) or (ch == "obj" and has_multi_set(inp) and jdump(canon_unordered(m)) == jdump(canon_unordered(obs)))
            if not same:
                bad.append({"desc": desc, "channel": ch, "input": inp, "origin": origin, "real": obs, "model": m, "label": label})
        if conf_in is None and ch == "obj":
            conf_in = False
        check_case_oracles(ctx, run, desc, ch, inp, origin, bool(conf_in) and ch == "obj", obs, conf_out)
        vs = variants.get(jdump(desc))
        if vs:
            check_perm(ctx, run, desc, vs, ch, inp, origin, obs)
    return bad


def size_of(b):
    return len(jdump([b["desc"], b["input"]]))


def run(ctx: Ctx):
    repo_python_path()
    ctx.rule = ("(type hint, channel, input) with the type hint drawn from the grammar str|int|float|bool|None|Any|Literal|Enum|restricted string/number types (24: the 8 "
                "that ship with the library and 16 user-defined ones, among them patterns not anchored with ^ or $, a compiled pattern with flags, "
                "or-joined comparisons)|Union|List|Dict[str/int,_]|Tuple[..]|Tuple[_,...]|Set up to nesting depth 4; inputs: conforming values, input forms (tuple as list, enum by name, text for "
                "scalars...), one-position mutations (wrong scalar kind, arity, unknown member, bool for int), JSON text of these and look-alike "
                "strings; every case is run on the real parser (parse_object / parse_args) and on the Lean model, every accepted result is judged by "
                "the Lean validator, and repeated under every permutation of every Union; non-trivial = accepted by the real parser; distinct by "
                "canonical JSON of (type, channel, input)")
    ctx.assumptions = [
        "restricted types: a fixed pool (harness/props/c02_restr.py); their predicates are computed by the Lean model from the declared "
        "specification (regular expression via CPython's re._parser into the model's Re with the meaning of regex.match; comparisons on exact "
        "decimals) - never by asking the class; ASCII subjects; floats compare like the decimals of their repr (exact for two floats); float "
        "references and int values of magnitude < 2^53; int(str)/float(str)/str() are oracles (Python builtins)",
        "arguments with a default: a fixed family (conforming and sentinel defaults; values equal to the default by == but of another kind) "
        "through parse_object / config text / argv, against the model's `checkTypeD` (the default early-out of adapt_typehints)",
        "otherwise one optional argument without nargs/default/enable_path; parser_mode yaml; values inside the wire grammar (str/int dict keys, |int| < 10^400)",
        "float(i) for an int beyond the float range: the oracle answers 'overflow' and the model rejects (ValueError, commit 31f099f)",
        "PyYAML + yaml_load/load_value, int(str) for dict keys and repr(float(int)) for |int| >= 10^16 are oracles of the model (supplied per case)",
        "dict keys contain no '.', values contain no 'class_path' key and no '__path__' key",
        "two NaN objects in one set, and float keys, are outside the model",
        "exception classes other than ArgumentError are observed as 'crash' and never expected by the model",
        "the argument text '--' is rewritten by argparse itself (Python 3.12 drops it) and is not generated",
    ]
    ctx.lean_build(extractors=["adapt_tables"])
    run_ = Run(ctx)

    # ---- cases ---------------------------------------------------------------
    corpus = corpus_cases(ctx)
    n_types = ctx.budget(260, 2600) * (2 if ctx.search_boost > 1 else 1)
    n_inputs = 3 if not ctx.thorough else 4
    perm_cap = 23 if not ctx.thorough else None
    gen, variants = generated_cases(ctx, n_types, n_inputs, perm_cap)
    for d, *_ in corpus:
        variants.setdefault(jdump(d), union_variants(d, None))
    cases = corpus + gen + restricted_leaf_exhaustive(ctx.thorough)
    if ctx.thorough:
        cases += exhaustive_small(ctx)
    ctx.extra["types"] = len({jdump(c[0]) for c in cases})
    ctx.extra["union_permutation_variants"] = sum(len(v) for v in variants.values())

    # ---- correspondence + oracles on the base cases ----------------------------
    bad = correspond_and_judge(ctx, run_, cases, variants, "generated")

    # ---- correspondence on a sample of the permuted variants -------------------
    vcases = []
    by_desc = {}
    for d, ch, inp, origin in cases:
        by_desc.setdefault(jdump(d), []).append((ch, inp, origin))
    for k, vs in variants.items():
        for d2 in vs[: (3 if not ctx.thorough else 8)]:
            for ch, inp, origin in by_desc.get(k, [])[: (6 if not ctx.thorough else 12)]:
                vcases.append((d2, ch, inp, origin + "+perm"))
    bad += correspond_and_judge(ctx, run_, vcases, {}, "permuted")

    bad.sort(key=size_of)
    for b in bad[:3]:
        ctx.tie_break("correspondence E3 (adapter model vs jsonargparse adapt_typehints/_check_type) disagrees", jdump(b)[:1800])
    ctx.extra["correspondence_disagreements"] = len(bad)
    import os
    if os.environ.get("C02_DEBUG"):
        with open(os.environ["C02_DEBUG"], "w") as f:
            for b in bad:
                f.write(jdump(b) + "\n")
    ctx.extra["cases"] = len(cases) + len(vcases)
    for c in gen[:4]:
        ctx.sample({"type": c[0], "channel": c[1], "input": c[2], "origin": c[3]})

    defaults_family(ctx)

    # ---- findings ---------------------------------------------------------------
    ctx.replay_fixed_demos()
    for f in ctx.open_findings():
        w = f["witness"]
        if replay_case(ctx, run_, w, quiet=True):
            ctx.known(f["id"], f["description"])
        else:
            ctx.stale_findings.append(f["id"])


# ---------------------------------------------------------------- replay
def lean_conf(ctx, desc, wire):
    r = ctx.driver("Adapt", [conf_item(desc, wire)])[0]
    return r


def replay_case(ctx: Ctx, run: Run, rp, quiet=False):
    """re-evaluate a stored case on the real code; True = the failure is still there"""
    kind = rp["kind"]
    desc, ch, inp = rp["desc"], rp.get("channel", "obj"), rp.get("input")
    say = (lambda *a: None) if quiet else print
    if kind == "demo":
        return None
    if kind == "default-sound":
        real = real_with_default(default_parser(desc, rp["default"]), ch, inp)
        say("real:", jdump(real))
        if not accepted(real) or real["ok"] is None:
            return False
        c = lean_conf(ctx, desc, real["ok"])
        say("Lean validator on the result:", c)
        return not c["conf"]
    if kind == "declare":
        obs = real_parse(desc, "obj", None)
        say("real:", jdump(obs))
        return "err" in obs and obs["err"].startswith("declare:")
    obs = real_parse(desc, ch, inp)
    say("real:", jdump(obs))
    if kind == "sound":
        if not accepted(obs) or obs["ok"] is None:
            return False
        c = lean_conf(ctx, desc, obs["ok"])
        say("Lean validator on the result:", c)
        return not c["conf"]
    if kind == "shape":
        item = dict(conf_item(desc, inp), want=["conf"])
        c = ctx.driver("Adapt", [item])[0]
        say("Lean validator on the input:", c)
        return bool(c["conf"]) and not accepted(obs)
    if kind == "iff-container":
        sp = split_container(desc, inp)
        if sp is None:
            return False
        each = [accepted(real_parse(t, "obj", x)) for t, x in sp[1]]
        say("structure ok:", sp[0], "elements:", each)
        return (sp[0] and all(each)) != accepted(obs)
    if kind == "iff-union":
        if ch == "obj":
            whole = accepted(real_parse({"l": desc}, "obj", [inp]))
            members = [accepted(real_parse({"l": t}, "obj", [inp])) for t in desc["u"]]
        else:
            whole = accepted(obs)
            members = [accepted(real_parse(t, "arg", inp)) for t in desc["u"]]
        say("whole:", whole, "members:", members)
        return whole != any(members)
    if kind == "perm":
        o2 = real_parse(rp["permuted"], ch, inp)
        say("permuted:", jdump(o2))
        return accepted(o2) != accepted(obs)
    if kind == "corr":
        r = ctx.driver("Adapt", [model_item(desc, ch, inp)])[0]
        say("model:", jdump(model_obs(r, ch)))
        return jdump(model_obs(r, ch)) != jdump(obs)
    raise MachineryError("unknown replay kind " + kind)


def replay(ctx: Ctx, body):
    repo_python_path()
    rp = body["replay"]
    if rp.get("kind") == "demo":
        import subprocess

        from ..lib.common import REPO, VERIF
        import os

        p = subprocess.run(["/venv/bin/python", os.path.join(VERIF, rp["demo"])], env=dict(os.environ, PYTHONPATH=REPO))
        return 1 if p.returncode else 0
    if "broken" in rp:
        print("broken tie (no concrete input):", jdump(rp)[:2000])
        ctx.lean_build(extractors=["adapt_tables"])
        return 1 if ctx.tie_broken else 0
    r = replay_case(ctx, Run(ctx), rp)
    print("still failing" if r else "no longer failing")
    return 1 if r else 0

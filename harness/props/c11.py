"""C11 — Namespace behaves as a nested mapping addressed by dotted keys.

Pipeline: (1) regenerate Gen/NsTables + build Props/C11 (refinement theorems);
(2) correspondence: real `Namespace` vs the Lean model (Drv/NS) after *every*
step of generated operation sequences — the model mirrors the code including
its behaviour through dict values; (3) property oracle: an independent nested
dict reference; deviations are violations unless they fall in the open known
finding class (operation whose key path traverses a dict value).
"""
from __future__ import annotations

import itertools
import json

from ..lib.common import Ctx, MachineryError, repo_python_path

MANIFEST = {
    "engine": "E1-Namespace",
    "technique": "Lean 4 refinement proof (Namespace model refines a nested-dict spec) + regenerated clash table + step-by-step differential correspondence",
    "text": "Theorems in lean/Jap/Props/C11.lean prove, for all keys, values and operation sequences, that the model of _namespace.py "
            "refines a nested-dictionary specification whenever no key path runs through a plain dict value (the open known finding), that keys/values/as_flat "
            "agree with items, that update is the fold of assignments, that dict -> namespace -> dict is the identity on plain nested dictionaries, that "
            "strip_meta removes exactly the meta keys (idempotent) and that get_sorted_keys is a stable depth-descending permutation; the model is "
            "tied to the code by regenerating dir(Namespace) into Gen/NsTables and by comparing model and real Namespace after every step of "
            "generated and exhaustively enumerated operation sequences.",
    "level_note": "Trusted: Lean kernel; axioms propext/Quot.sound/Classical.choice only; the extractor; the correspondence harness; String.splitOn as the "
                  "model of str.split. Object identity is left to C08. Keys starting with U+200B and dict-only attribute names are outside the model.",
}

ORD = ["a", "b", "c"]
CLASH = ["items", "keys", "get", "update", "pop", "clone", "values", "as_dict"]
FINDING_DICT = "C11-through-dict"


# ---------------------------------------------------------------- wire values
def enc(v):
    from jsonargparse import Namespace

    if v is None:
        return None
    if isinstance(v, (bool, float, str)) and (type(v).__name__, repr(v)) in VARIANT_ID:
        return VARIANT_ID[(type(v).__name__, repr(v))]
    if isinstance(v, bool):
        return {"o": repr(v)}
    if isinstance(v, int):
        return v
    if isinstance(v, Namespace):
        return {"n": [[k, enc(x)] for k, x in vars(v).items()]}
    if isinstance(v, dict):
        return {"d": [[k, enc(x)] for k, x in v.items()]}
    if isinstance(v, list):
        return [enc(x) for x in v]
    if isinstance(v, tuple):
        return {"t": [enc(x) for x in v]}
    return {"o": repr(v)}


# Wire atoms >= 1000: scalars of another type, most of them `==` to a plain int atom (the property says "value for
# value and type for type": an `==` shortcut anywhere in Namespace must not swallow a change of type).
VARIANTS = {1000: False, 1001: True, 1002: 0.0, 1003: 1.0, 1004: "0", 1005: "", 1006: 2.0}
VARIANT_ID = {(type(v).__name__, repr(v)): k for k, v in VARIANTS.items()}


def dec(j):
    from jsonargparse import Namespace

    if isinstance(j, int) and not isinstance(j, bool) and j in VARIANTS:
        return VARIANTS[j]
    if j is None or isinstance(j, int):
        return j
    if isinstance(j, list):
        return [dec(x) for x in j]
    if "t" in j:
        return tuple(dec(x) for x in j["t"])
    if "d" in j:
        return {k: dec(x) for k, x in j["d"]}
    if "n" in j:
        ns = Namespace()
        for k, x in j["n"]:
            ns.__dict__[k] = dec(x)
        return ns
    raise ValueError(j)


def err_name(ex):
    for cls, name in ((KeyError, "KeyError"), (AttributeError, "AttributeError"), (TypeError, "TypeError"), (ValueError, "ValueError")):
        if isinstance(ex, cls):
            return name
    return "Other:" + type(ex).__name__


# ---------------------------------------------------------------- real side
def real_step(cur, op):
    """returns (result-json, new cur)"""
    from jsonargparse import Namespace, dict_to_namespace

    o = op["op"]
    k = op.get("k")
    try:
        if o == "new":
            return None, Namespace()
        if o == "set":
            cur[k] = dec(op["v"])
            return None, cur
        if o == "setattr":
            setattr(cur, k, dec(op["v"]))
            return None, cur
        if o == "get":
            return {"v": enc(cur[k])}, cur
        if o == "getdef":
            return {"v": enc(cur.get(k, dec(op["v"])))}, cur
        if o == "del":
            del cur[k]
            return None, cur
        if o == "pop":
            return {"v": enc(cur.pop(k, dec(op["v"])))}, cur
        if o == "contains":
            return (k in cur), cur
        if o == "update":
            cur.update(dec(op["v"]), k, op.get("only_unset", False))
            return None, cur
        if o == "items":
            return [[kk, enc(vv)] for kk, vv in cur.items(op.get("branches", False))], cur
        if o == "keys":
            return list(cur.keys(op.get("branches", False))), cur
        if o == "values":
            return [enc(vv) for vv in cur.values(op.get("branches", False))], cur
        if o == "bool":
            return bool(cur), cur
        if o == "as_flat":
            return [[kk, enc(vv)] for kk, vv in vars(cur.as_flat()).items()], cur
        if o == "sorted_keys":
            return cur.get_sorted_keys(op.get("branches", False)), cur
        if o == "strip_meta":
            from jsonargparse._namespace import strip_meta

            return enc(strip_meta(cur)), cur
        if o == "as_dict":
            return enc(cur.as_dict()), cur
        if o == "clone_eq":
            return (cur.clone() == cur), cur
        if o == "clone_swap":  # continue on the clone; the oracle watches the original
            return None, cur.clone()
        if o == "eq":
            return (cur == dec(op["v"])), cur
        if o == "poke_lists":  # assign inside every namespace held in a list value (reachable only by identity)
            n = 0
            for _, v in list(cur.items()):
                if isinstance(v, list):
                    for x in v:
                        if isinstance(x, Namespace):
                            x["zz_poke"] = 1
                            n += 1
            return n, cur
        if o == "from_dict":
            return None, Namespace(dec(op["v"]))
        if o == "dict_to_namespace":
            return None, dict_to_namespace(dec(op["v"]))
    except Exception as ex:  # noqa: BLE001 - the error class is the observation
        return {"err": err_name(ex)}, cur
    raise MachineryError("unknown op " + o)


def real_run(ops):
    from jsonargparse import Namespace

    cur = Namespace()
    out = []
    for op in ops:
        r, cur = real_step(cur, op)
        out.append({"r": r, "s": enc(cur)})
    return out


# ---------------------------------------------------------------- reference (the property's nested dict)
class Node(dict):
    """branch of the reference tree; plain dict values assigned by the user are leaves"""


def ref_of_value(v):
    from jsonargparse import Namespace

    if isinstance(v, Namespace):
        n = Node()
        for k, x in vars(v).items():
            n[k.lstrip("​")] = ref_of_value(x)
        return n
    return v


def ref_segs(key):
    if not isinstance(key, str) or " " in key:
        return None
    segs = key.split(".")
    if any(s == "" for s in segs):
        return None
    return segs


def ref_through_dict(root, segs):
    """does the parent path of `segs` run into a plain-dict leaf (finding class)?"""
    cur = root
    for s in segs[:-1]:
        if isinstance(cur, Node):
            if s not in cur:
                return False
            cur = cur[s]
        elif isinstance(cur, dict):
            return True
        else:
            return False
    return isinstance(cur, dict) and not isinstance(cur, Node)


def ref_parent(root, segs, create=False):
    cur = root
    for s in segs[:-1]:
        nxt = cur.get(s) if isinstance(cur, Node) else None
        if not isinstance(nxt, Node):
            if not create:
                return None
            nxt = Node()
            cur[s] = nxt
        cur = nxt
    return cur


def ref_set(root, key, val):
    segs = ref_segs(key)
    if segs is None:
        raise KeyError(key)
    ref_parent(root, segs, create=True)[segs[-1]] = val


def ref_get(root, key):
    segs = ref_segs(key)
    if segs is None:
        raise KeyError(key)
    p = ref_parent(root, segs)
    if p is None or segs[-1] not in p:
        raise KeyError(key)
    return p[segs[-1]]


def ref_leaves(node, branches=False, pre=""):
    out = []
    for k, v in node.items():
        if isinstance(v, Node):
            if branches:
                out.append((pre + k, v))
            out.extend(ref_leaves(v, branches, pre + k + "."))
        else:
            out.append((pre + k, v))
    return out


def ref_as_dict(node):
    from jsonargparse import Namespace

    d = {}
    for k, v in node.items():
        if isinstance(v, Node):
            v = ref_as_dict(v)
        elif isinstance(v, dict) and v != {} and all(isinstance(x, Namespace) for x in v.values()):
            v = {kk: x.as_dict() for kk, x in v.items()}
        elif isinstance(v, list) and v != [] and all(isinstance(x, Namespace) for x in v):
            v = [x.as_dict() for x in v]
        d[k] = v
    return d


META = ("__path__", "__orig__", "__default_config__")


def ref_sorted_keys(root, branches):
    """what get_sorted_keys promises: the non-meta leaf keys (+ every proper prefix of one with `branches`)"""
    keys = [k for k, _ in ref_leaves(root) if k.rsplit(".", 1)[-1] not in META]
    want = set(keys)
    if branches:
        for k in keys:
            segs = k.split(".")
            for n in range(1, len(segs)):
                want.add(".".join(segs[:n]))
    return want


def ref_strip(v):
    """the same tree without any meta key, at every depth of namespaces, dicts, lists and tuples"""
    from jsonargparse import Namespace

    if isinstance(v, Node):
        n = Node()
        for k, x in v.items():
            if k not in META:
                n[k] = ref_strip(x)
        return n
    if isinstance(v, Namespace):
        return ref_strip(ref_of_value(v))
    if isinstance(v, dict):
        return {k: ref_strip(x) for k, x in v.items() if k not in META}
    if isinstance(v, list):
        return [ref_strip(x) for x in v]
    if type(v) is tuple:
        return tuple(ref_strip(x) for x in v)
    return v


def ref_expand(d):
    n = Node()
    for k, v in d.items():
        if isinstance(v, dict) and all(isinstance(x, str) for x in v):
            v = ref_expand(v)
        elif isinstance(v, list):
            v = [ref_expand(x) if isinstance(x, dict) and all(isinstance(y, str) for y in x) else x for x in v]
            v = [node_to_ns(x) if isinstance(x, Node) else x for x in v]
        if "." in k:
            ref_set(n, k, v)
        else:
            n[k] = v
    return n


def node_to_ns(node):
    from jsonargparse import Namespace

    ns = Namespace()
    for k, v in node.items():
        setattr(ns, k, node_to_ns(v) if isinstance(v, Node) else v)
    return ns


def ref_step(root, op):
    """apply op to the reference; returns (observation, new root, through_dict)"""
    o = op["op"]
    k = op.get("k")
    segs = ref_segs(k) if isinstance(k, str) else None
    through = bool(segs) and ref_through_dict(root, segs)
    try:
        if o == "new":
            return None, Node(), False
        if o in ("set", "setattr"):
            v = ref_of_value(dec(op["v"]))
            if o == "setattr" and "." not in k:
                root[k] = v
            else:
                ref_set(root, k, v)
            return None, root, through
        if o == "get":
            return ("v", ref_get(root, k)), root, through
        if o == "getdef":
            try:
                return ("v", ref_get(root, k)), root, through
            except KeyError:
                return ("v", dec(op["v"])), root, through
        if o == "del":
            if segs is None:
                raise KeyError(k)
            p = ref_parent(root, segs)
            if p is None:
                raise KeyError(k)
            del p[segs[-1]]
            return None, root, through
        if o == "pop":
            if segs is None:
                raise KeyError(k)
            p = ref_parent(root, segs)
            if p is None or segs[-1] not in p:
                return ("v", dec(op["v"])), root, through
            return ("v", p.pop(segs[-1])), root, through
        if o == "contains":
            try:
                ref_get(root, k)
                return True, root, through
            except KeyError:
                return False, root, through
        if o == "update":
            from jsonargparse import Namespace

            val = dec(op["v"])
            only = op.get("only_unset", False)
            if not isinstance(val, Namespace):
                if not k:
                    raise KeyError("key required")
                if not only or not _ref_has(root, k):
                    ref_set(root, k, ref_of_value(val))
                return None, root, through
            pre = k + "." if k else ""
            any_through = False
            for kk, vv in ref_leaves(ref_of_value(val)):
                s2 = ref_segs(pre + kk)
                if s2 is None:
                    raise KeyError(pre + kk)
                any_through = any_through or ref_through_dict(root, s2)
                if not only or not _ref_has(root, pre + kk):
                    ref_set(root, pre + kk, vv)
            return None, root, any_through
        if o == "items":
            return ("items", ref_leaves(root, op.get("branches", False))), root, False
        if o == "keys":
            return ("keys", [kk for kk, _ in ref_leaves(root, op.get("branches", False))]), root, False
        if o == "values":
            return ("values", [vv for _, vv in ref_leaves(root, op.get("branches", False))]), root, False
        if o == "bool":
            return (len(root) > 0), root, False
        if o == "as_flat":
            return ("items", ref_leaves(root, False)), root, False
        if o == "sorted_keys":
            return ("sorted_keys", ref_sorted_keys(root, op.get("branches", False))), root, False
        if o == "strip_meta":
            return ("strip", ref_strip(root)), root, False
        if o == "as_dict":
            return ("as_dict", ref_as_dict(root)), root, False
        if o == "clone_eq":
            return True, root, False
        if o == "clone_swap":
            return None, root, False
        if o == "poke_lists":
            n = 0
            for _, v in ref_leaves(root):
                if isinstance(v, list):
                    for x in v:
                        from jsonargparse import Namespace as _NS
                        if isinstance(x, _NS):
                            x["zz_poke"] = 1   # the reference holds its own copies of such namespaces
                            n += 1
            return ("poke", n), root, False
        if o == "eq":
            return (node_to_ns(root) == dec(op["v"])), root, False
        if o == "from_dict":
            n = Node()
            thr = False
            for kk, vv in dec(op["v"]).items():
                s2 = ref_segs(kk)
                if s2 is None:
                    raise KeyError(kk)
                thr = thr or ref_through_dict(n, s2)
                ref_set(n, kk, ref_of_value(vv))
            return None, n, thr
        if o == "dict_to_namespace":
            return None, ref_expand(dec(op["v"])), False
    except KeyError:
        return "error", root, through
    raise MachineryError("unknown op " + o)


def _ref_has(root, key):
    try:
        ref_get(root, key)
        return True
    except KeyError:
        return False


def canon_obs(x):
    """canonical comparable form of python values (Namespaces by their unmarked content)"""
    from jsonargparse import Namespace

    if isinstance(x, Node):
        return ("N", tuple(sorted((k, canon_obs(v)) for k, v in x.items())))
    if isinstance(x, Namespace):
        return ("N", tuple(sorted((k.lstrip("​"), canon_obs(v)) for k, v in vars(x).items())))
    if isinstance(x, dict):
        return ("D", tuple(sorted((k, canon_obs(v)) for k, v in x.items())))
    if isinstance(x, list):
        return ("L", tuple(canon_obs(v) for v in x))
    if isinstance(x, tuple):
        return ("T", tuple(canon_obs(v) for v in x))
    return ("A", repr(x))


def oracle_run(ops):
    """run ops on the real Namespace and on the reference; return list of deviations
    [(index, through_dict, description)]"""
    from jsonargparse import Namespace

    cur = Namespace()
    root = Node()
    devs = []
    tainted = False  # after a through-dict deviation the two states differ legitimately
    originals = []   # (object that was cloned, its canonical form at clone time)
    for i, op in enumerate(ops):
        if op["op"] == "clone_swap":
            originals.append((cur, json.dumps(enc(cur), sort_keys=True)))
        if op["op"] in ("from_dict", "dict_to_namespace"):
            # conversion from a dictionary must neither rewrite the caller's dictionary nor alias its containers
            from jsonargparse import Namespace, dict_to_namespace

            src = dec(op["v"])
            snap = json.dumps(enc(src), sort_keys=True)
            try:
                cur2 = Namespace(src) if op["op"] == "from_dict" else dict_to_namespace(src)
                r_real = None
            except Exception as ex:  # noqa: BLE001
                cur2, r_real = cur, {"err": err_name(ex)}
            # Namespace(dict) assigns key by key: a dotted key may legitimately write into a Namespace VALUE of the
            # same dictionary (shallow conversion) or, through a dict value, hit the known through-dict class
            undotted = all("." not in k for k in src) if isinstance(src, dict) else True
            if (op["op"] == "dict_to_namespace" or undotted) and json.dumps(enc(src), sort_keys=True) != snap:
                devs.append((i, False, "%s rewrote the dictionary it was given" % op["op"]))
                return devs
            if op["op"] == "dict_to_namespace" and r_real is None:
                # dict_to_namespace copies the branches: neither the source nor a second conversion may be
                # reachable from the result (Namespace(dict) is a shallow conversion and shares values by design)
                again = dict_to_namespace(src)
                originals.append((again, json.dumps(enc(again), sort_keys=True)))
                originals.append((src, snap))
            cur = cur2
        else:
            r_real, cur = real_step(cur, op)
        for obj, snap in originals:
            if json.dumps(enc(obj), sort_keys=True) != snap:
                devs.append((i, False, "a write to the clone changed the namespace it was cloned from"))
                return devs
        obs, root, through = ref_step(root, op)
        if tainted:
            through = True
        desc = None
        real_err = isinstance(r_real, dict) and "err" in r_real
        if obs == "error":
            if not real_err:
                desc = "reference rejects, Namespace accepts"
        elif real_err:
            desc = "Namespace raises %s, reference does not" % r_real["err"]
        elif isinstance(obs, tuple) and obs[0] == "v":
            if canon_obs(dec(r_real["v"])) != canon_obs(obs[1]):
                desc = "value read differs"
        elif isinstance(obs, tuple) and obs[0] == "items":
            got = [(k, canon_obs(dec(v))) for k, v in r_real]
            want = [(k, canon_obs(v)) for k, v in obs[1]]
            if sorted(got) != sorted(want):
                desc = "items() differ"
        elif isinstance(obs, tuple) and obs[0] == "keys":
            if sorted(r_real) != sorted(obs[1]) or len(set(r_real)) != len(r_real):
                desc = "keys() differ"
        elif isinstance(obs, tuple) and obs[0] == "values":
            if sorted(canon_obs(dec(v)) for v in r_real) != sorted(canon_obs(v) for v in obs[1]):
                desc = "values() differ"
        elif isinstance(obs, tuple) and obs[0] == "sorted_keys":
            depths = [len(k.split(".")) for k in r_real]
            if set(r_real) != obs[1] or len(set(r_real)) != len(r_real):
                desc = "get_sorted_keys() does not return the non-meta keys"
            elif any(a < b for a, b in zip(depths, depths[1:])):
                desc = "get_sorted_keys() is not in order of descending depth"
        elif isinstance(obs, tuple) and obs[0] == "strip":
            if canon_obs(dec(r_real)) != canon_obs(obs[1]):
                desc = "strip_meta() differs"
        elif isinstance(obs, tuple) and obs[0] == "as_dict":
            if canon_obs(dec(r_real)) != canon_obs(obs[1]):
                desc = "as_dict() differs"
        elif isinstance(obs, tuple) and obs[0] == "poke":
            if r_real != obs[1]:
                desc = "number of namespaces held in list leaves differs"
        elif isinstance(obs, bool):
            if r_real is not obs:
                desc = "boolean observation differs (%s)" % op["op"]
        # state: leaves held
        if desc is None and canon_obs(cur) != canon_obs(root):
            desc = "leaves held differ after %s" % op["op"]
        if desc is not None:
            devs.append((i, through, desc))
            if through:
                tainted = True
                # resynchronise the reference with the real state so that later, unrelated steps are still judged
                import copy

                root = ref_of_value(copy.deepcopy(cur))  # never share containers with the real namespace
                tainted = False
            else:
                return devs
    return devs


# ---------------------------------------------------------------- generators
def gen_value(rng, depth=0, names=None):
    names = names or (ORD + CLASH)
    r = rng.random()
    if depth >= 2 or r < 0.35:
        if rng.random() < 0.3:
            return rng.choice(sorted(VARIANTS))
        return rng.choice([None, 0, 1, 2, 7, -3])
    if r < 0.5:
        return [gen_value(rng, depth + 1) for _ in range(rng.randint(0, 2))]
    if r < 0.6:
        return {"t": [gen_value(rng, depth + 1) for _ in range(rng.randint(0, 2))]}
    if rng.random() < 0.15:
        names = list(names) + list(META)
    if r < 0.8:
        ks = rng.sample(names, rng.randint(0, 2))
        return {"d": [[k, gen_value(rng, depth + 1)] for k in ks]}
    ks = rng.sample(names, rng.randint(0, 2))
    return {"n": [[("​" + k if k in CLASH else k), gen_value(rng, depth + 1)] for k in ks]}


def gen_key(rng, names=None, bad=0.04):
    names = names or (ORD + CLASH)
    if rng.random() < bad:
        return rng.choice(["a b", "a..b", ".a", "a.", ""])
    d = rng.choice([1, 1, 2, 2, 3])
    return ".".join((rng.choice(META) if rng.random() < 0.05 else rng.choice(names)) for _ in range(d))


def gen_dict_value(rng, dotted=True):
    ks = []
    for _ in range(rng.randint(0, 3)):
        ks.append(gen_key(rng, bad=0.03) if dotted and rng.random() < 0.4 else rng.choice(ORD + CLASH))
    seen, items = set(), []
    for k in ks:
        if k not in seen:
            seen.add(k)
            items.append([k, gen_value(rng, 1)])
    return {"d": items}


def plain_dict(rng, depth=0):
    ks = rng.sample(ORD + CLASH, rng.randint(0, 3))
    items = []
    for k in ks:
        r = rng.random()
        if depth < 2 and r < 0.4:
            v = plain_dict(rng, depth + 1)
        elif depth < 2 and r < 0.55:
            v = [plain_dict(rng, depth + 1) if rng.random() < 0.5 else rng.choice([1, None]) for _ in range(rng.randint(0, 2))]
        else:
            v = rng.choice([None, 1, 2, {"t": [1]}])
        items.append([k, v])
    return {"d": items}


def gen_observation(rng):
    o = rng.choice(["keys", "values", "bool", "as_flat", "sorted_keys", "strip_meta"])
    if o in ("keys", "values", "sorted_keys"):
        return {"op": o, "branches": rng.random() < 0.5}
    return {"op": o}


def gen_op(rng):
    if rng.random() < 0.08:
        return gen_observation(rng)
    r = rng.random()
    if r < 0.30:
        return {"op": "set", "k": gen_key(rng), "v": gen_value(rng)}
    if r < 0.36:
        # attribute assignment of a malformed name ("", "a b") bypasses _parse_key: outside the quantifier (names)
        return {"op": "setattr", "k": gen_key(rng, bad=0), "v": gen_value(rng)}
    if r < 0.44:
        return {"op": "get", "k": gen_key(rng)}
    if r < 0.48:
        return {"op": "getdef", "k": gen_key(rng), "v": 99}
    if r < 0.56:
        return {"op": "del", "k": gen_key(rng)}
    if r < 0.64:
        return {"op": "pop", "k": gen_key(rng), "v": rng.choice([None, 99])}
    if r < 0.70:
        return {"op": "contains", "k": gen_key(rng)}
    if r < 0.80:
        v = gen_value(rng) if rng.random() < 0.3 else {"n": gen_value_ns(rng)}
        k = gen_key(rng) if rng.random() < 0.6 else None
        return {"op": "update", "k": k, "v": v, "only_unset": rng.random() < 0.4}
    if r < 0.85:
        return {"op": "items", "branches": rng.random() < 0.5}
    if r < 0.89:
        return {"op": "as_dict"}
    if r < 0.905:
        return {"op": "clone_eq"}
    if r < 0.92:
        return {"op": "clone_swap"}
    if r < 0.94:
        return {"op": "eq", "v": {"n": gen_value_ns(rng)}}
    if r < 0.97:
        return {"op": "from_dict", "v": gen_dict_value(rng)}
    if r < 0.985:
        return {"op": "dict_to_namespace", "v": plain_dict(rng)}
    return {"op": "poke_lists"}


def gen_value_ns(rng):
    ks = rng.sample(ORD + CLASH, rng.randint(0, 3))
    return [[("​" + k if k in CLASH else k), gen_value(rng, 1)] for k in ks]


def observe_tail():
    return [{"op": "poke_lists"}, {"op": "items", "branches": True}, {"op": "as_dict"}, {"op": "clone_eq"},
            {"op": "keys", "branches": True}, {"op": "values", "branches": False}, {"op": "bool"}, {"op": "as_flat"},
            {"op": "sorted_keys", "branches": True}, {"op": "strip_meta"}]


def exhaustive_sequences(max_len):
    """all sequences up to max_len over a small alphabet of ops (thorough tier)"""
    keys = ["a", "a.b", "a.keys", "keys", "a.b.c"]
    vals = [1, None, {"d": [["b", 2]]}, {"n": [["b", 3]]}]
    alpha = []
    for k in keys:
        for v in vals:
            alpha.append({"op": "set", "k": k, "v": v})
        alpha.append({"op": "del", "k": k})
        alpha.append({"op": "pop", "k": k, "v": None})
    alpha.append({"op": "update", "k": None, "v": {"n": [["a", {"n": [["b", 5]]}]]}, "only_unset": True})
    alpha.append({"op": "update", "k": "a", "v": {"n": [["​keys", 6]]}, "only_unset": False})
    alpha.append({"op": "set", "k": "a.b", "v": 1})
    alpha.append({"op": "update", "k": "a", "v": {"n": [["b", 1001]]}, "only_unset": False})  # True == 1, another type
    return alpha


# ---------------------------------------------------------------- the check
def correspond(ctx: Ctx, seqs, label):
    """real vs model after every step; returns list of disagreeing sequences"""
    lines = []
    for s in seqs:
        lines.append({"op": "new"})
        lines.extend(s)
    if not lines:
        return []
    try:
        model = ctx.driver("NS", lines)
    except MachineryError as ex:
        if ctx.lean_ok:
            raise
        ctx.tie_break("correspondence E1 not runnable (model does not build)", str(ex))
        return []
    bad = []
    pos = 0
    for s in seqs:
        real = real_run([{"op": "new"}] + s)
        mod = model[pos : pos + len(s) + 1]
        pos += len(s) + 1
        ctx.count(len(s))
        for i, (a, b) in enumerate(zip(real, mod)):
            if json.dumps(a, sort_keys=True) != json.dumps(b, sort_keys=True):
                bad.append({"ops": s, "step": i - 1, "real": a, "model": b, "label": label})
                break
    return bad


def shrink(seq, still_bad):
    """greedy delta debugging on the op list"""
    cur = list(seq)
    changed = True
    while changed:
        changed = False
        for i in range(len(cur)):
            cand = cur[:i] + cur[i + 1 :]
            if cand and still_bad(cand):
                cur = cand
                changed = True
                break
    return cur


def judge_oracle(ctx: Ctx, seq, origin):
    """evaluate the property itself on the real code; returns True if a NEW violation was reported"""
    devs = oracle_run(seq)
    new = False
    for i, through, desc in devs:
        if through and ctx.is_open(FINDING_DICT):
            ctx.known(FINDING_DICT, "operation whose key path traverses a dict value deviates from the nested-dict reference (e.g. %s)" % json.dumps(seq[i], ensure_ascii=True)[:120])
            continue

        def still(c):
            return any(not t for _, t, _ in oracle_run(c)) if not through else any(True for _ in oracle_run(c))

        small = shrink(seq[: i + 1], still)
        ctx.violation("Namespace deviates from the nested-dict reference: %s" % desc, {"kind": "oracle", "origin": origin, "ops": small, "step_desc": desc})
        new = True
    return new


def run(ctx: Ctx):
    repo_python_path()
    ctx.rule = ("operation sequences over {set,setattr,get,getdef,del,pop,contains,update(+only_unset,+key),items,keys,values,bool,as_flat,get_sorted_keys,strip_meta,as_dict,clone,eq,"
                "Namespace(dict),dict_to_namespace} with dotted keys of depth 1-3 from ordinary and clash names and scalar/list/tuple/dict/namespace "
                "values; every step compared real vs Lean model (state incl. clash marks + result) and real vs nested-dict reference; "
                "non-trivial = sequence whose final state has >=1 leaf; distinct by canonical JSON of the sequence")
    ctx.assumptions = [
        "string layer of _parse_key (split on '.', space check) is modelled with String.splitOn and tied by correspondence only",
        "caller keys do not start with U+200B; dict-only attribute names (copy, clear, ...) are outside the segment alphabet",
        "object identity (clone independence) is the subject of C08, here only value-level equality",
    ]
    ctx.lean_build(extractors=["ns_tables"])

    # --- corpus + known-finding witnesses -------------------------------
    from ..lib import corpus as corpus_mod

    seqs = [c["ops"] for c in corpus_mod.load(ctx.prop)]
    n_corpus = len(seqs)

    # --- generated sequences ---------------------------------------------
    n_random = ctx.budget(1500, 30000) * ctx.search_boost
    for _ in range(n_random):
        n = ctx.rng.choice([1, 2, 3, 4, 5, 6, 8, 12, 20, 40]) if ctx.rng.random() < 0.5 else ctx.rng.randint(1, 8)
        s = [gen_op(ctx.rng) for _ in range(n)]
        seqs.append(s + observe_tail())
    exhaustive_n = 0
    if ctx.thorough:
        alpha = exhaustive_sequences(3)
        for L in (1, 2, 3):
            for combo in itertools.product(alpha, repeat=L):
                seqs.append(list(combo) + observe_tail())
                exhaustive_n += 1
        ctx.extra["exhaustive_short_sequences"] = {"alphabet": len(alpha), "max_len": 3, "count": exhaustive_n}
    else:
        alpha = exhaustive_sequences(2)
        for L in (1, 2):
            for combo in itertools.product(alpha, repeat=L):
                seqs.append(list(combo) + observe_tail())
                exhaustive_n += 1
        ctx.extra["exhaustive_short_sequences"] = {"alphabet": len(alpha), "max_len": 2, "count": exhaustive_n}

    for s in seqs:
        for op in s:
            ctx.hist("ops", op["op"])
        ctx.hist("length", min(len(s) - len(observe_tail()), 40) // 5 * 5)

    # --- correspondence ----------------------------------------------------
    bad = correspond(ctx, seqs, "generated")
    for b in bad[:3]:
        def still(c, b=b):
            return bool(correspond_quiet(ctx, [c]))
        try:
            small = shrink(b["ops"], still)
        except Exception:  # noqa: BLE001
            small = b["ops"]
        ctx.tie_break("correspondence E1 (Namespace model vs jsonargparse._namespace) disagrees", json.dumps({"ops": small, "real": b["real"], "model": b["model"]}, ensure_ascii=True)[:1500])
    # --- oracle on the real implementation ---------------------------------
    for idx, s in enumerate(seqs):
        final = real_run([{"op": "new"}] + s)[-1]["s"]
        if final["n"]:
            ctx.nontrivial(json.dumps(s, sort_keys=True))
        judge_oracle(ctx, s, "corpus" if idx < n_corpus else "generated")
    for s in seqs[n_corpus : n_corpus + 3]:
        ctx.sample(s)

    # --- replay of catalogued findings --------------------------------------
    for f in ctx.open_findings():
        devs = oracle_run(f["witness"]["ops"])
        if devs:
            ctx.known(f["id"], f["description"])
        else:
            ctx.stale_findings.append(f["id"])
    for f in ctx.fixed_findings():
        if oracle_run(f["witness"]["ops"]):
            ctx.violation("fixed finding %s fails again" % f["id"], {"kind": "oracle", "ops": f["witness"]["ops"]})
    ctx.extra["correspondence_disagreements"] = len(bad)
    ctx.extra["sequences"] = len(seqs)


def correspond_quiet(ctx, seqs):
    n = ctx.evaluations
    r = correspond(ctx, seqs, "shrink")
    ctx.evaluations = n
    return r


def replay(ctx: Ctx, body):
    repo_python_path()
    ops = body["replay"]["ops"]
    devs = oracle_run(ops)
    print("deviations from the reference:", devs)
    print("real trace:")
    for op, o in zip(ops, real_run(ops)):
        print("  ", json.dumps(op, ensure_ascii=True), "->", json.dumps(o, ensure_ascii=True))
    return 1 if devs else 0

"""C11 — Namespace behaves as a nested mapping addressed by dotted keys.

Pipeline: (1) regenerate Gen/NsTables + build Props/C11 (refinement theorems);
(2) correspondence: real `Namespace` vs the Lean model (Drv/NS) after *every*
step of generated operation sequences — the model mirrors the code including
its behaviour through dict values; (3) property oracle: an independent nested
dict reference; deviations are violations unless they fall in the open known
finding class (operation whose key path traverses a dict value).
"""
from __future__ import annotations

import itertools
import json

from ..lib.common import Ctx, MachineryError, repo_python_path

MANIFEST = {
    "engine": "E1-Namespace",
    "technique": "Lean 4 refinement proof (Namespace model refines a nested-dict spec; exact deviating class through dict values; naturality in the "
                 "atoms; insertion order; key-helper algebra) + regenerated clash table + pinned normalised source of every function of _namespace.py "
                 "+ classified public surface + step-by-step differential correspondence",
    "text": "Theorems in lean/Jap/Props/C11.lean prove, for all keys, values and operation sequences, that the model of _namespace.py "
            "refines a nested-dictionary specification for every operation outside the exact deviating class (a dict value lies on the key path AND the "
            "walk of _parse_key gets through it: thruDict/devGet/devPop), and that inside that class it does not (the open known finding, with what the "
            "code does instead); that every operation and history is natural in the atoms (relabelling leaves by any function commutes with set/get/del/pop/"
            "update: no value is ever compared or converted - type-exactness); that assignment keeps the insertion order at every level, on every state; "
            "that keys/values/as_flat agree with items, that update is the fold of assignments, that dict -> namespace -> dict is the identity on plain "
            "nested dictionaries, that Namespace(ns) holds the entries of ns, that split_key/split_key_root/split_key_leaf/join and the clash marks "
            "satisfy their algebra (split/join inverse, root and leaf agree with the full split, mark added once and removed again), that strip_meta "
            "removes exactly the meta keys (idempotent) and that get_sorted_keys is a stable depth-descending permutation. The model is tied to the code "
            "by regenerating dir(Namespace), clash mark and meta_keys into Gen/NsTables, by pinning the normalised statements of every function of "
            "_namespace.py and the classified public surface (Gen/NsSrc, tie_src_* / tie_surface theorems: a new public attribute that is neither modelled "
            "nor on the not-modelled list, or any edited statement, breaks the tie), and by comparing model and real Namespace (state incl. clash marks, "
            "result, membership in the deviating classes) after every step of generated and exhaustively enumerated operation sequences.",
    "level_note": "Trusted: Lean kernel; axioms propext/Quot.sound/Classical.choice only; the extractors; the correspondence harness; the wire encoding of "
                  "scalars (ints >= 1000 stand for True/False/0.0/1.0/'0'/''/2.0). Object identity is left to C08. Keys starting with U+200B and dict-only "
                  "attribute names are outside the model; __repr__ and patch_namespace are not modelled (explicit list in harness/extractors/ns_src.py; "
                  "patch_namespace has an oracle-only check); attribute reads/deletes are modelled for non-clash names only (for a clash name Python finds "
                  "the class attribute).",
}

ORD = ["a", "b", "c"]
CLASH = ["items", "keys", "get", "update", "pop", "clone", "values", "as_dict"]
FINDING_DICT = "C11-through-dict"


class MyDict(dict):
    """a user's dict subclass held as a value: {"D": items} on the wire.  The model has one kind of dict (the driver
    reads "D" as "d", the correspondence compares modulo that); the TYPE is watched by the oracle (canon_obs)"""


# ---------------------------------------------------------------- wire values
def enc(v):
    from jsonargparse import Namespace

    if v is None:
        return None
    if isinstance(v, (bool, float, str)) and (type(v).__name__, repr(v)) in VARIANT_ID:
        return VARIANT_ID[(type(v).__name__, repr(v))]
    if isinstance(v, bool):
        return {"o": repr(v)}
    if isinstance(v, int):
        return v
    if isinstance(v, Namespace):
        return {"n": [[k, enc(x)] for k, x in vars(v).items()]}
    if isinstance(v, dict):
        return {("d" if type(v) is dict else "D"): [[k, enc(x)] for k, x in v.items()]}
    if isinstance(v, list):
        return [enc(x) for x in v]
    if isinstance(v, tuple):
        return {"t": [enc(x) for x in v]}
    return {"o": repr(v)}


# Wire atoms >= 1000: scalars of another type, most of them `==` to a plain int atom (the property says "value for
# value and type for type": an `==` shortcut anywhere in Namespace must not swallow a change of type).
VARIANTS = {1000: False, 1001: True, 1002: 0.0, 1003: 1.0, 1004: "0", 1005: "", 1006: 2.0}
VARIANT_ID = {(type(v).__name__, repr(v)): k for k, v in VARIANTS.items()}


def dec(j):
    from jsonargparse import Namespace

    if isinstance(j, int) and not isinstance(j, bool) and j in VARIANTS:
        return VARIANTS[j]
    if j is None or isinstance(j, int):
        return j
    if isinstance(j, list):
        return [dec(x) for x in j]
    if "t" in j:
        return tuple(dec(x) for x in j["t"])
    if "d" in j:
        return {k: dec(x) for k, x in j["d"]}
    if "D" in j:
        return MyDict((k, dec(x)) for k, x in j["D"])
    if "n" in j:
        ns = Namespace()
        for k, x in j["n"]:
            ns.__dict__[k] = dec(x)
        return ns
    raise ValueError(j)


def err_name(ex):
    for cls, name in ((KeyError, "KeyError"), (AttributeError, "AttributeError"), (TypeError, "TypeError"), (ValueError, "ValueError")):
        if isinstance(ex, cls):
            return name
    return "Other:" + type(ex).__name__


# ---------------------------------------------------------------- real side
def real_step(cur, op):
    """returns (result-json, new cur)"""
    from jsonargparse import Namespace, dict_to_namespace

    o = op["op"]
    k = op.get("k")
    try:
        if o == "new":
            return None, Namespace()
        if o == "set":
            cur[k] = dec(op["v"])
            return None, cur
        if o == "setattr":
            setattr(cur, k, dec(op["v"]))
            return None, cur
        if o == "get":
            return {"v": enc(cur[k])}, cur
        if o == "getdef":
            return {"v": enc(cur.get(k, dec(op["v"])))}, cur
        if o == "del":
            del cur[k]
            return None, cur
        if o == "pop":
            return {"v": enc(cur.pop(k, dec(op["v"])))}, cur
        if o == "contains":
            return (k in cur), cur
        if o == "update":
            cur.update(dec(op["v"]), k, op.get("only_unset", False))
            return None, cur
        if o == "items":
            return [[kk, enc(vv)] for kk, vv in cur.items(op.get("branches", False))], cur
        if o == "keys":
            return list(cur.keys(op.get("branches", False))), cur
        if o == "values":
            return [enc(vv) for vv in cur.values(op.get("branches", False))], cur
        if o == "bool":
            return bool(cur), cur
        if o == "as_flat":
            return [[kk, enc(vv)] for kk, vv in vars(cur.as_flat()).items()], cur
        if o == "sorted_keys":
            return cur.get_sorted_keys(op.get("branches", False)), cur
        if o == "strip_meta":
            from jsonargparse._namespace import strip_meta

            return enc(strip_meta(cur)), cur
        if o == "as_dict":
            return enc(cur.as_dict()), cur
        if o == "clone_eq":
            return (cur.clone() == cur), cur
        if o == "clone_swap":  # continue on the clone; the oracle watches the original
            return None, cur.clone()
        if o == "eq":
            return (cur == dec(op["v"])), cur
        if o == "poke_lists":  # assign inside every namespace held in a list value (reachable only by identity)
            n = 0
            for _, v in list(cur.items()):
                if isinstance(v, list):
                    for x in v:
                        if isinstance(x, Namespace):
                            x["zz_poke"] = 1
                            n += 1
            return n, cur
        if o == "from_dict":
            return None, Namespace(dec(op["v"]))
        if o == "dict_to_namespace":
            return None, dict_to_namespace(dec(op["v"]))
        if o == "init_kwargs":
            return None, Namespace(**dec(op["v"]))
        if o == "from_ns":
            return None, Namespace(dec(op["v"]))
        if o == "init_bad":
            bad = [lambda: Namespace(1), lambda: Namespace({}, {}), lambda: Namespace({}, a=1), lambda: Namespace([("a", 1)])]
            bad[op["n"] % len(bad)]()
            return None, cur
        if o == "namespace_to_dict":
            from jsonargparse import namespace_to_dict

            return enc(namespace_to_dict(cur)), cur
        if o == "value_and_parent":
            v, parent, leaf = cur.get_value_and_parent(k)
            return {"v": enc(v), "p": enc(parent), "l": leaf}, cur
        if o == "getattr":
            return {"v": enc(getattr(cur, k))}, cur
        if o == "hasattr":
            return hasattr(cur, k), cur
        if o == "delattr":
            delattr(cur, k)
            return None, cur
        if o == "eq_other":
            return (cur == [cur.as_dict(), None, 0, "x"][op["n"] % 4]), cur
        if o in KEY_FUNCS:
            from jsonargparse import _namespace as m

            return getattr(m, o)(k), cur
    except Exception as ex:  # noqa: BLE001 - the error class is the observation
        return {"err": err_name(ex)}, cur
    raise MachineryError("unknown op " + o)


KEY_FUNCS = ("split_key", "split_key_root", "split_key_leaf", "is_meta_key", "add_clash_mark", "del_clash_mark")
KEYED_OPS = ("set", "setattr", "get", "getdef", "del", "pop", "contains", "value_and_parent")
MARK = "\u200b"


def real_run(ops):
    from jsonargparse import Namespace

    cur = Namespace()
    out = []
    for op in ops:
        dev = None
        if op["op"] in KEYED_OPS and isinstance(op.get("k"), str):
            segs = ref_segs(op["k"])  # membership in the deviating classes on the state BEFORE the operation
            dev = list(dev_class(cur, segs)) if segs else [False, False, False]
        r, cur = real_step(cur, op)
        rec = {"r": r, "s": enc(cur)}
        if dev is not None:
            rec["dev"] = dev
        out.append(rec)
    return out


# ---------------------------------------------------------------- the exact deviating classes (finding C11-through-dict)
_CLASH = None


def _mk(s):
    """the name `_parse_key` looks up: clash-marked when it is one of dir(Namespace)"""
    global _CLASH
    if _CLASH is None:
        from jsonargparse import Namespace

        _CLASH = set(dir(Namespace))
    return MARK + s if s in _CLASH else s


def walk_class(root, segs):
    """the parent the walk of `_parse_key` lands on — on the reference tree (Node branches, plain names) or on a real
    Namespace (marked names): (landing object or None when the walk fails, a plain dict value was entered)"""
    from jsonargparse import Namespace

    cur, met = root, False
    for s in segs[:-1]:
        if isinstance(cur, Node):
            if s not in cur:
                return None, met
            cur = cur[s]
        elif isinstance(cur, Namespace):
            if _mk(s) not in vars(cur):
                return None, met
            cur = vars(cur)[_mk(s)]
        elif isinstance(cur, dict):
            if _mk(s) not in cur:
                return None, met
            cur = cur[_mk(s)]
        else:
            return None, met
        if isinstance(cur, dict) and not isinstance(cur, Node):
            met = True
        if not isinstance(cur, (Node, Namespace, dict)):
            return None, met
    return cur, met


def dev_class(root, segs):
    """(thruDict, devGet, devPop) of Lemmas/NamespaceThru.lean: the operations that leave the nested-dict reading.
    set: a dict lies on the path and the walk gets through; get/contains/del: ... and ends in a namespace holding the
    leaf; pop: that, or the walk ends in a non-empty dict"""
    from jsonargparse import Namespace

    land, met = walk_class(root, segs)
    thru = met and land is not None
    dget = bool(met and isinstance(land, Namespace) and _mk(segs[-1]) in vars(land))
    dpop = dget or bool(met and isinstance(land, dict) and not isinstance(land, (Node, Namespace)) and len(land) > 0)
    return thru, dget, dpop


# ---------------------------------------------------------------- reference (the property's nested dict)
class Node(dict):
    """branch of the reference tree; plain dict values assigned by the user are leaves"""


def ref_of_value(v):
    from jsonargparse import Namespace

    if isinstance(v, Namespace):
        n = Node()
        for k, x in vars(v).items():
            n[k.lstrip("​")] = ref_of_value(x)
        return n
    return v


def ref_segs(key):
    if not isinstance(key, str) or " " in key:
        return None
    segs = key.split(".")
    if any(s == "" for s in segs):
        return None
    return segs


def ref_through_dict(root, segs):
    """does the parent path of `segs` run into a plain-dict leaf (finding class)?"""
    cur = root
    for s in segs[:-1]:
        if isinstance(cur, Node):
            if s not in cur:
                return False
            cur = cur[s]
        elif isinstance(cur, dict):
            return True
        else:
            return False
    return isinstance(cur, dict) and not isinstance(cur, Node)


def ref_parent(root, segs, create=False):
    cur = root
    for s in segs[:-1]:
        nxt = cur.get(s) if isinstance(cur, Node) else None
        if not isinstance(nxt, Node):
            if not create:
                return None
            nxt = Node()
            cur[s] = nxt
        cur = nxt
    return cur


def ref_set(root, key, val):
    segs = ref_segs(key)
    if segs is None:
        raise KeyError(key)
    ref_parent(root, segs, create=True)[segs[-1]] = val


def ref_get(root, key):
    segs = ref_segs(key)
    if segs is None:
        raise KeyError(key)
    p = ref_parent(root, segs)
    if p is None or segs[-1] not in p:
        raise KeyError(key)
    return p[segs[-1]]


def ref_leaves(node, branches=False, pre=""):
    out = []
    for k, v in node.items():
        if isinstance(v, Node):
            if branches:
                out.append((pre + k, v))
            out.extend(ref_leaves(v, branches, pre + k + "."))
        else:
            out.append((pre + k, v))
    return out


def ref_as_dict(node):
    from jsonargparse import Namespace

    d = {}
    for k, v in node.items():
        if isinstance(v, Node):
            v = ref_as_dict(v)
        elif isinstance(v, dict) and v != {} and all(isinstance(x, Namespace) for x in v.values()):
            v = {kk: x.as_dict() for kk, x in v.items()}
        elif isinstance(v, list) and v != [] and all(isinstance(x, Namespace) for x in v):
            v = [x.as_dict() for x in v]
        d[k] = v
    return d


META = ("__path__", "__orig__", "__default_config__")


def ref_sorted_keys(root, branches):
    """what get_sorted_keys promises: the non-meta leaf keys (+ every proper prefix of one with `branches`)"""
    keys = [k for k, _ in ref_leaves(root) if k.rsplit(".", 1)[-1] not in META]
    want = set(keys)
    if branches:
        for k in keys:
            segs = k.split(".")
            for n in range(1, len(segs)):
                want.add(".".join(segs[:n]))
    return want


def ref_strip(v):
    """the same tree without any meta key, at every depth of namespaces, dicts, lists and tuples"""
    from jsonargparse import Namespace

    if isinstance(v, Node):
        n = Node()
        for k, x in v.items():
            if k not in META:
                n[k] = ref_strip(x)
        return n
    if isinstance(v, Namespace):
        return ref_strip(ref_of_value(v))
    if isinstance(v, dict):
        return type(v)((k, ref_strip(x)) for k, x in v.items() if k not in META)
    if isinstance(v, list):
        return [ref_strip(x) for x in v]
    if type(v) is tuple:
        return tuple(ref_strip(x) for x in v)
    return v


def ref_expand(d):
    n = Node()
    for k, v in d.items():
        if isinstance(v, dict) and all(isinstance(x, str) for x in v):
            v = ref_expand(v)
        elif isinstance(v, list):
            v = [ref_expand(x) if isinstance(x, dict) and all(isinstance(y, str) for y in x) else x for x in v]
            v = [node_to_ns(x) if isinstance(x, Node) else x for x in v]
        if "." in k:
            ref_set(n, k, v)
        else:
            n[k] = v
    return n


def node_to_ns(node):
    from jsonargparse import Namespace

    ns = Namespace()
    for k, v in node.items():
        setattr(ns, k, node_to_ns(v) if isinstance(v, Node) else v)
    return ns


def ref_step(root, op):
    """apply op to the reference; returns (observation, new root, through_dict)"""
    o = op["op"]
    k = op.get("k")
    segs = ref_segs(k) if isinstance(k, str) else None
    thru, dget, dpop = dev_class(root, segs) if segs else (False, False, False)
    through = {"set": thru, "setattr": thru and "." in (k or ""), "get": dget, "getdef": dget, "contains": dget, "del": dget,
               "value_and_parent": dget, "pop": dpop, "update": thru}.get(o, False)
    if o in KEYED_OPS and not isinstance(k, str):
        # a key that is not a string: `get` answers the default, `in` answers False, everything else is a TypeError
        if o == "getdef":
            return ("v", dec(op["v"])), root, False
        if o == "contains":
            return False, root, False
        return "error", root, False
    try:
        if o == "new":
            return None, Node(), False
        if o in ("set", "setattr"):
            v = ref_of_value(dec(op["v"]))
            if o == "setattr" and "." not in k:
                root[k] = v
            else:
                ref_set(root, k, v)
            return None, root, through
        if o == "get":
            return ("v", ref_get(root, k)), root, through
        if o == "getdef":
            try:
                return ("v", ref_get(root, k)), root, through
            except KeyError:
                return ("v", dec(op["v"])), root, through
        if o == "del":
            if segs is None:
                raise KeyError(k)
            p = ref_parent(root, segs)
            if p is None:
                raise KeyError(k)
            del p[segs[-1]]
            return None, root, through
        if o == "pop":
            if segs is None:
                raise KeyError(k)
            p = ref_parent(root, segs)
            if p is None or segs[-1] not in p:
                return ("v", dec(op["v"])), root, through
            return ("v", p.pop(segs[-1])), root, through
        if o == "contains":
            try:
                ref_get(root, k)
                return True, root, through
            except KeyError:
                return False, root, through
        if o == "update":
            from jsonargparse import Namespace

            val = dec(op["v"])
            only = op.get("only_unset", False)
            if not isinstance(val, Namespace):
                if not k:
                    raise KeyError("key required")
                if not only or not _ref_has(root, k):
                    ref_set(root, k, ref_of_value(val))
                return None, root, through
            pre = k + "." if k else ""
            any_through = False
            for kk, vv in ref_leaves(ref_of_value(val)):
                s2 = ref_segs(pre + kk)
                if s2 is None:
                    raise KeyError(pre + kk)
                any_through = any_through or dev_class(root, s2)[0]
                if not only or not _ref_has(root, pre + kk):
                    ref_set(root, pre + kk, vv)
            return None, root, any_through
        if o == "items":
            return ("items", ref_leaves(root, op.get("branches", False))), root, False
        if o == "keys":
            return ("keys", [kk for kk, _ in ref_leaves(root, op.get("branches", False))]), root, False
        if o == "values":
            return ("values", [vv for _, vv in ref_leaves(root, op.get("branches", False))]), root, False
        if o == "bool":
            return (len(root) > 0), root, False
        if o == "as_flat":
            return ("items", ref_leaves(root, False)), root, False
        if o == "sorted_keys":
            return ("sorted_keys", ref_sorted_keys(root, op.get("branches", False))), root, False
        if o == "strip_meta":
            return ("strip", ref_strip(root)), root, False
        if o == "as_dict":
            return ("as_dict", ref_as_dict(root)), root, False
        if o == "clone_eq":
            return True, root, False
        if o == "clone_swap":
            return None, root, False
        if o == "poke_lists":
            n = 0
            for _, v in ref_leaves(root):
                if isinstance(v, list):
                    for x in v:
                        from jsonargparse import Namespace as _NS
                        if isinstance(x, _NS):
                            x["zz_poke"] = 1   # the reference holds its own copies of such namespaces
                            n += 1
            return ("poke", n), root, False
        if o == "eq":
            return (node_to_ns(root) == dec(op["v"])), root, False
        if o == "from_dict":
            n = Node()
            thr = False
            for kk, vv in dec(op["v"]).items():
                s2 = ref_segs(kk)
                if s2 is None:
                    raise KeyError(kk)
                thr = thr or dev_class(n, s2)[0]
                ref_set(n, kk, ref_of_value(vv))
            return None, n, thr
        if o == "init_kwargs":
            n = Node()
            thr = False
            for kk, vv in dec(op["v"]).items():
                if "." in kk:
                    s2 = ref_segs(kk)
                    if s2 is None:
                        raise KeyError(kk)
                    thr = thr or dev_class(n, s2)[0]
                    ref_set(n, kk, ref_of_value(vv))
                else:
                    n[kk] = ref_of_value(vv)
            return None, n, thr
        if o == "from_ns":
            return None, ref_of_value(dec(op["v"])), False
        if o == "init_bad":
            return "error", root, False
        if o == "namespace_to_dict":
            return ("as_dict", ref_as_dict(root)), root, False
        if o == "value_and_parent":
            if segs is None:
                raise KeyError(k)
            p = ref_parent(root, segs)
            if p is None or segs[-1] not in p:
                raise KeyError(k)
            return ("vp", p[segs[-1]], p, segs[-1]), root, through
        if o == "getattr":
            if k not in root:
                raise KeyError(k)
            return ("v", root[k]), root, False
        if o == "hasattr":
            return (k in root or _mk(k) != k), root, False
        if o == "delattr":
            del root[k]
            return None, root, False
        if o == "eq_other":
            return False, root, False
        if o in KEY_FUNCS:
            if o == "split_key":
                return ("exact", k.split(".")), root, False
            if o == "split_key_root":
                return ("exact", k.split(".", 1)), root, False
            if o == "split_key_leaf":
                return ("exact", k.rsplit(".", 1)), root, False
            if o == "is_meta_key":
                return ("exact", k.rsplit(".", 1)[-1] in META), root, False
            if o == "add_clash_mark":
                return ("exact", _mk(k)), root, False
            if k == "":
                return "error", root, False
            return ("exact", k[1:] if k[0] == MARK else k), root, False
        if o == "dict_to_namespace":
            return None, ref_expand(dec(op["v"])), False
    except KeyError:
        return "error", root, through
    raise MachineryError("unknown op " + o)


def _ref_has(root, key):
    try:
        ref_get(root, key)
        return True
    except KeyError:
        return False


def canon_obs(x):
    """canonical comparable form of python values (Namespaces by their unmarked content); mappings keep their ORDER:
    a nested dictionary iterates in insertion order, and so must the namespace"""
    from jsonargparse import Namespace

    if isinstance(x, Node):
        return ("N", tuple((k, canon_obs(v)) for k, v in x.items()))
    if isinstance(x, Namespace):
        return ("N", tuple((k.lstrip("​"), canon_obs(v)) for k, v in vars(x).items()))
    if isinstance(x, dict):
        return ("D" if type(x) is dict else "D:" + type(x).__name__, tuple((k, canon_obs(v)) for k, v in x.items()))
    if isinstance(x, list):
        return ("L", tuple(canon_obs(v) for v in x))
    if isinstance(x, tuple):
        return ("T", tuple(canon_obs(v) for v in x))
    return ("A", repr(x))


def _poke_deep(x):
    """write into every container reachable from x"""
    from jsonargparse import Namespace

    if isinstance(x, Namespace):
        for v in list(vars(x).values()):
            _poke_deep(v)
        x.__dict__["zz_poke"] = 1
    elif isinstance(x, dict):
        for v in list(x.values()):
            _poke_deep(v)
        x["zz_poke"] = 1
    elif isinstance(x, list):
        for v in x:
            _poke_deep(v)
        x.append("zz_poke")


def oracle_run(ops):
    """run ops on the real Namespace and on the reference; return list of deviations
    [(index, through_dict, description)]"""
    from jsonargparse import Namespace

    cur = Namespace()
    root = Node()
    devs = []
    tainted = False  # after a through-dict deviation the two states differ legitimately
    originals = []   # (object that was cloned, its canonical form at clone time)
    for i, op in enumerate(ops):
        if op["op"] == "clone_swap":
            originals.append((cur, json.dumps(enc(cur), sort_keys=True)))
        if op["op"] == "from_ns":
            pass  # Namespace(ns) is a shallow conversion like Namespace(dict): values are shared by design
        if op["op"] in ("from_dict", "dict_to_namespace"):
            # conversion from a dictionary must neither rewrite the caller's dictionary nor alias its containers
            from jsonargparse import Namespace, dict_to_namespace

            src = dec(op["v"])
            snap = json.dumps(enc(src), sort_keys=True)
            try:
                cur2 = Namespace(src) if op["op"] == "from_dict" else dict_to_namespace(src)
                r_real = None
            except Exception as ex:  # noqa: BLE001
                cur2, r_real = cur, {"err": err_name(ex)}
            # Namespace(dict) assigns key by key: a dotted key may legitimately write into a Namespace VALUE of the
            # same dictionary (shallow conversion) or, through a dict value, hit the known through-dict class
            undotted = all("." not in k for k in src) if isinstance(src, dict) else True
            if (op["op"] == "dict_to_namespace" or undotted) and json.dumps(enc(src), sort_keys=True) != snap:
                devs.append((i, False, "%s rewrote the dictionary it was given" % op["op"]))
                return devs
            if op["op"] == "dict_to_namespace" and r_real is None:
                # dict_to_namespace copies the branches: neither the source nor a second conversion may be
                # reachable from the result (Namespace(dict) is a shallow conversion and shares values by design)
                again = dict_to_namespace(src)
                originals.append((again, json.dumps(enc(again), sort_keys=True)))
                originals.append((src, snap))
            cur = cur2
        else:
            r_real, cur = real_step(cur, op)
            if op["op"] == "namespace_to_dict":
                from jsonargparse import namespace_to_dict

                before = json.dumps(enc(cur), sort_keys=True)
                try:
                    _poke_deep(namespace_to_dict(cur))
                except Exception as ex:  # noqa: BLE001 - r_real already holds the error, judged against the reference below
                    if not (isinstance(r_real, dict) and "err" in r_real):
                        devs.append((i, False, "namespace_to_dict raises %s on a second call" % err_name(ex)))
                        return devs
                if json.dumps(enc(cur), sort_keys=True) != before:
                    devs.append((i, False, "a write into the result of namespace_to_dict changed the namespace"))
                    return devs
        for obj, snap in originals:
            if json.dumps(enc(obj), sort_keys=True) != snap:
                devs.append((i, False, "a write to the clone changed the namespace it was cloned from"))
                return devs
        obs, root, through = ref_step(root, op)
        if tainted:
            through = True
        desc = None
        real_err = isinstance(r_real, dict) and "err" in r_real
        if obs == "error":
            if not real_err:
                desc = "reference rejects, Namespace accepts"
        elif real_err:
            desc = "Namespace raises %s, reference does not" % r_real["err"]
        elif isinstance(obs, tuple) and obs[0] == "v":
            if canon_obs(dec(r_real["v"])) != canon_obs(obs[1]):
                desc = "value read differs"
        elif isinstance(obs, tuple) and obs[0] == "items":
            got = [(k, canon_obs(dec(v))) for k, v in r_real]
            want = [(k, canon_obs(v)) for k, v in obs[1]]
            if got != want:
                desc = "items() differ" if sorted(got) != sorted(want) else "items() come in another order than the nested dictionary's"
        elif isinstance(obs, tuple) and obs[0] == "keys":
            if list(r_real) != list(obs[1]):
                desc = "keys() differ" if sorted(r_real) != sorted(obs[1]) else "keys() come in another order than the nested dictionary's"
        elif isinstance(obs, tuple) and obs[0] == "values":
            if [canon_obs(dec(v)) for v in r_real] != [canon_obs(v) for v in obs[1]]:
                desc = "values() differ"
        elif isinstance(obs, tuple) and obs[0] == "sorted_keys":
            depths = [len(k.split(".")) for k in r_real]
            if set(r_real) != obs[1] or len(set(r_real)) != len(r_real):
                desc = "get_sorted_keys() does not return the non-meta keys"
            elif any(a < b for a, b in zip(depths, depths[1:])):
                desc = "get_sorted_keys() is not in order of descending depth"
        elif isinstance(obs, tuple) and obs[0] == "strip":
            if canon_obs(dec(r_real)) != canon_obs(obs[1]):
                desc = "strip_meta() differs"
        elif isinstance(obs, tuple) and obs[0] == "as_dict":
            if canon_obs(dec(r_real)) != canon_obs(obs[1]):
                desc = "as_dict() differs"
        elif isinstance(obs, tuple) and obs[0] == "vp":
            if canon_obs(dec(r_real["v"])) != canon_obs(obs[1]):
                desc = "get_value_and_parent: value differs"
            elif canon_obs(dec(r_real["p"])) != canon_obs(obs[2]):
                desc = "get_value_and_parent: parent differs"
            elif r_real["l"].lstrip(MARK) != obs[3]:
                desc = "get_value_and_parent: leaf key differs"
        elif isinstance(obs, tuple) and obs[0] == "exact":
            if r_real != obs[1] or type(r_real) is not type(obs[1]):
                desc = "%s(%r) differs from the str method it stands for" % (op["op"], op.get("k"))
        elif isinstance(obs, tuple) and obs[0] == "poke":
            if r_real != obs[1]:
                desc = "number of namespaces held in list leaves differs"
        elif isinstance(obs, bool):
            if r_real is not obs:
                desc = "boolean observation differs (%s)" % op["op"]
        # state: leaves held
        if desc is None and canon_obs(cur) != canon_obs(root):
            desc = "leaves held differ after %s" % op["op"]
        if desc is not None:
            devs.append((i, through, desc))
            if through:
                tainted = True
                # resynchronise the reference with the real state so that later, unrelated steps are still judged
                import copy

                root = ref_of_value(copy.deepcopy(cur))  # never share containers with the real namespace
                tainted = False
            else:
                return devs
    return devs


# ---------------------------------------------------------------- generators
def gen_value(rng, depth=0, names=None):
    names = names or (ORD + CLASH)
    r = rng.random()
    if depth >= 2 or r < 0.35:
        if rng.random() < 0.3:
            return rng.choice(sorted(VARIANTS))
        return rng.choice([None, 0, 1, 2, 7, -3])
    if r < 0.5:
        return [(gen_mydict(rng, depth + 1) if rng.random() < 0.15 else gen_value(rng, depth + 1)) for _ in range(rng.randint(0, 2))]
    if r < 0.6:
        return {"t": [gen_value(rng, depth + 1) for _ in range(rng.randint(0, 2))]}
    if rng.random() < 0.15:
        names = list(names) + list(META)
    if r < 0.8:
        ks = rng.sample(names, rng.randint(0, 2))
        items = [[k, gen_value(rng, depth + 1)] for k in ks]
        if rng.random() < 0.15:
            items.append(["zz", gen_mydict(rng, depth + 1)])
        return {"d": items}
    ks = rng.sample(names, rng.randint(0, 2))
    return {"n": [[("​" + k if k in CLASH else k), gen_value(rng, depth + 1)] for k in ks]}


def gen_mydict(rng, depth):
    """a dict-subclass value (clone/strip_meta must keep its content and type).  Held only where no generated key path
    reaches (inside lists, or under the key "zz" of a dict value): as a PARENT on a key path a dict subclass differs from
    a plain dict in del/pop (its instances have a `__dict__`), a facet of the through-dict finding outside the model"""
    ks = rng.sample(ORD + CLASH + list(META), rng.randint(0, 2))
    return {"D": [[k, gen_value(rng, depth + 1)] for k in ks]}


def gen_key(rng, names=None, bad=0.04):
    names = names or (ORD + CLASH)
    if rng.random() < bad:
        return rng.choice(["a b", "a..b", ".a", "a.", ""])
    d = rng.choice([1, 1, 2, 2, 3])
    return ".".join((rng.choice(META) if rng.random() < 0.05 else rng.choice(names)) for _ in range(d))


def gen_dict_value(rng, dotted=True):
    ks = []
    for _ in range(rng.randint(0, 3)):
        ks.append(gen_key(rng, bad=0.03) if dotted and rng.random() < 0.4 else rng.choice(ORD + CLASH))
    seen, items = set(), []
    for k in ks:
        if k not in seen:
            seen.add(k)
            items.append([k, gen_value(rng, 1)])
    return {"d": items}


def plain_dict(rng, depth=0):
    ks = rng.sample(ORD + CLASH, rng.randint(0, 3))
    items = []
    for k in ks:
        r = rng.random()
        if depth < 2 and r < 0.4:
            v = plain_dict(rng, depth + 1)
        elif depth < 2 and r < 0.55:
            v = [plain_dict(rng, depth + 1) if rng.random() < 0.5 else rng.choice([1, None]) for _ in range(rng.randint(0, 2))]
        else:
            v = rng.choice([None, 1, 2, {"t": [1]}])
        items.append([k, v])
    return {"d": items}


def gen_observation(rng):
    o = rng.choice(["keys", "values", "bool", "as_flat", "sorted_keys", "strip_meta"])
    if o in ("keys", "values", "sorted_keys"):
        return {"op": o, "branches": rng.random() < 0.5}
    return {"op": o}


def gen_keystr(rng):
    parts = ["a", "b", "keys", "__path__", "__orig__", ".", ".", "..", " ", MARK, MARK + "keys", "items", "x_y", ""]
    return "".join(rng.choice(parts) for _ in range(rng.randint(0, 5)))


def gen_surface(rng):
    """the rest of the public surface: the other __init__ forms, attribute access, non-string keys, the key helpers"""
    o = rng.choice(["init_kwargs", "from_ns", "init_bad", "namespace_to_dict", "value_and_parent", "getattr", "hasattr",
                    "delattr", "eq_other", "nonstr", "keyfunc", "keyfunc"])
    if o == "init_kwargs":
        ks = []
        for _ in range(rng.randint(0, 3)):
            ks.append(gen_key(rng, bad=0) if rng.random() < 0.4 else rng.choice(ORD + CLASH))
        return {"op": o, "v": {"d": [[k, gen_value(rng, 1)] for k in dict.fromkeys(ks)]}}
    if o == "from_ns":
        return {"op": o, "v": {"n": gen_value_ns(rng)}}
    if o in ("init_bad", "eq_other"):
        return {"op": o, "n": rng.randint(0, 3)}
    if o == "namespace_to_dict":
        return {"op": o}
    if o == "value_and_parent":
        return {"op": o, "k": gen_key(rng)}
    if o in ("getattr", "delattr"):
        return {"op": o, "k": rng.choice(ORD)}   # attribute reads/deletes of clash names are Python's, not Namespace's
    if o == "hasattr":
        return {"op": o, "k": rng.choice(ORD + CLASH)}
    if o == "nonstr":
        return {"op": rng.choice(["get", "getdef", "contains", "set", "del", "pop"]), "k": rng.choice([5, 0, 1.5]), "v": 99}
    return {"op": rng.choice(KEY_FUNCS), "k": gen_keystr(rng)}


def gen_op(rng):
    if rng.random() < 0.08:
        return gen_observation(rng)
    if rng.random() < 0.07:
        return gen_surface(rng)
    r = rng.random()
    if r < 0.30:
        return {"op": "set", "k": gen_key(rng), "v": gen_value(rng)}
    if r < 0.36:
        # attribute assignment of a malformed name ("", "a b") bypasses _parse_key: outside the quantifier (names)
        return {"op": "setattr", "k": gen_key(rng, bad=0), "v": gen_value(rng)}
    if r < 0.44:
        return {"op": "get", "k": gen_key(rng)}
    if r < 0.48:
        return {"op": "getdef", "k": gen_key(rng), "v": 99}
    if r < 0.56:
        return {"op": "del", "k": gen_key(rng)}
    if r < 0.64:
        return {"op": "pop", "k": gen_key(rng), "v": rng.choice([None, 99])}
    if r < 0.70:
        return {"op": "contains", "k": gen_key(rng)}
    if r < 0.80:
        v = gen_value(rng) if rng.random() < 0.3 else {"n": gen_value_ns(rng)}
        k = gen_key(rng) if rng.random() < 0.6 else None
        return {"op": "update", "k": k, "v": v, "only_unset": rng.random() < 0.4}
    if r < 0.85:
        return {"op": "items", "branches": rng.random() < 0.5}
    if r < 0.89:
        return {"op": "as_dict"}
    if r < 0.905:
        return {"op": "clone_eq"}
    if r < 0.92:
        return {"op": "clone_swap"}
    if r < 0.94:
        return {"op": "eq", "v": {"n": gen_value_ns(rng)}}
    if r < 0.97:
        return {"op": "from_dict", "v": gen_dict_value(rng)}
    if r < 0.985:
        return {"op": "dict_to_namespace", "v": plain_dict(rng)}
    return {"op": "poke_lists"}


def gen_value_ns(rng):
    ks = rng.sample(ORD + CLASH, rng.randint(0, 3))
    return [[("​" + k if k in CLASH else k), gen_value(rng, 1)] for k in ks]


def observe_tail():
    return [{"op": "poke_lists"}, {"op": "items", "branches": True}, {"op": "as_dict"}, {"op": "clone_eq"},
            {"op": "keys", "branches": True}, {"op": "values", "branches": False}, {"op": "bool"}, {"op": "as_flat"},
            {"op": "sorted_keys", "branches": True}, {"op": "strip_meta"}]


def exhaustive_sequences(max_len):
    """all sequences up to max_len over a small alphabet of ops (thorough tier)"""
    keys = ["a", "a.b", "a.keys", "keys", "a.b.c"]
    vals = [1, None, {"d": [["b", 2]]}, {"n": [["b", 3]]}]
    alpha = []
    for k in keys:
        for v in vals:
            alpha.append({"op": "set", "k": k, "v": v})
        alpha.append({"op": "del", "k": k})
        alpha.append({"op": "pop", "k": k, "v": None})
    alpha.append({"op": "update", "k": None, "v": {"n": [["a", {"n": [["b", 5]]}]]}, "only_unset": True})
    alpha.append({"op": "update", "k": "a", "v": {"n": [["​keys", 6]]}, "only_unset": False})
    alpha.append({"op": "set", "k": "a.b", "v": 1})
    alpha.append({"op": "update", "k": "a", "v": {"n": [["b", 1001]]}, "only_unset": False})  # True == 1, another type
    return alpha


# ---------------------------------------------------------------- the check
def correspond(ctx: Ctx, seqs, label):
    """real vs model after every step; returns list of disagreeing sequences"""
    lines = []
    for s in seqs:
        lines.append({"op": "new"})
        lines.extend(s)
    if not lines:
        return []
    try:
        model = ctx.driver("NS", lines)
    except MachineryError as ex:
        if ctx.lean_ok:
            raise
        ctx.tie_break("correspondence E1 not runnable (model does not build)", str(ex))
        return []
    bad = []
    pos = 0
    for s in seqs:
        real = real_run([{"op": "new"}] + s)
        mod = model[pos : pos + len(s) + 1]
        pos += len(s) + 1
        ctx.count(len(s))
        for i, (a, b) in enumerate(zip(real, mod)):
            # the model has one kind of dict: a dict subclass ("D") compares as a dict there; its type is the oracle's business
            if json.dumps(a, sort_keys=True).replace('{"D":', '{"d":') != json.dumps(b, sort_keys=True):
                bad.append({"ops": s, "step": i - 1, "real": a, "model": b, "label": label})
                break
    return bad


def shrink(seq, still_bad):
    """greedy delta debugging on the op list"""
    cur = list(seq)
    changed = True
    while changed:
        changed = False
        for i in range(len(cur)):
            cand = cur[:i] + cur[i + 1 :]
            if cand and still_bad(cand):
                cur = cand
                changed = True
                break
    return cur


def judge_oracle(ctx: Ctx, seq, origin):
    """evaluate the property itself on the real code; returns True if a NEW violation was reported"""
    devs = oracle_run(seq)
    new = False
    for i, through, desc in devs:
        if through and ctx.is_open(FINDING_DICT):
            ctx.known(FINDING_DICT, "operation in the exact class thruDict/devGet/devPop (a dict value on the key path AND the walk of _parse_key gets through it) deviates from the nested-dict reference (e.g. %s)" % json.dumps(seq[i], ensure_ascii=True)[:120])
            continue

        def still(c):
            return any(not t for _, t, _ in oracle_run(c)) if not through else any(True for _ in oracle_run(c))

        small = shrink(seq[: i + 1], still)
        ctx.violation("Namespace deviates from the nested-dict reference: %s" % desc, {"kind": "oracle", "origin": origin, "ops": small, "step_desc": desc})
        new = True
    return new


def run(ctx: Ctx):
    repo_python_path()
    ctx.rule = ("operation sequences over {set,setattr,get,getdef,del,pop,contains,update(+only_unset,+key),items,keys,values,bool,as_flat,get_sorted_keys,strip_meta,as_dict,clone,eq,"
                "Namespace(dict),Namespace(ns),Namespace(**kw),bad __init__ forms,dict_to_namespace,namespace_to_dict,get_value_and_parent,getattr/hasattr/delattr,"
                "non-string keys,== other types,split_key/_root/_leaf,is_meta_key,add/del_clash_mark} with dotted keys of depth 1-3 from ordinary and clash names and scalar/list/tuple/dict/namespace "
                "values; every step compared real vs Lean model (state incl. clash marks + result + membership in the deviating classes) and real vs nested-dict "
                "reference (ORDER of items/keys/values/as_dict/state included); a deviation is attributed to the open finding only inside the exact class; "
                "non-trivial = sequence whose final state has >=1 leaf; distinct by canonical JSON of the sequence")
    ctx.assumptions = [
        "string layer of _parse_key (split on '.', space check) is modelled with String.splitOn and tied by correspondence only",
        "caller keys do not start with U+200B; dict-only attribute names (copy, clear, ...) are outside the segment alphabet",
        "object identity (clone independence) is the subject of C08, here only value-level equality",
        "dict-subclass values are generated only where no key path reaches them (as a parent on a key path their instances' __dict__ changes del/pop: facet of C11-through-dict)",
    ]
    ctx.lean_build(extractors=["ns_tables", "ns_src"])

    # --- corpus + known-finding witnesses -------------------------------
    from ..lib import corpus as corpus_mod

    seqs = [c["ops"] for c in corpus_mod.load(ctx.prop)]
    n_corpus = len(seqs)

    # --- generated sequences ---------------------------------------------
    n_random = ctx.budget(1500, 30000) * ctx.search_boost
    for _ in range(n_random):
        n = ctx.rng.choice([1, 2, 3, 4, 5, 6, 8, 12, 20, 40]) if ctx.rng.random() < 0.5 else ctx.rng.randint(1, 8)
        s = [gen_op(ctx.rng) for _ in range(n)]
        seqs.append(s + observe_tail())
    exhaustive_n = 0
    if ctx.thorough:
        alpha = exhaustive_sequences(3)
        for L in (1, 2, 3):
            for combo in itertools.product(alpha, repeat=L):
                seqs.append(list(combo) + observe_tail())
                exhaustive_n += 1
        ctx.extra["exhaustive_short_sequences"] = {"alphabet": len(alpha), "max_len": 3, "count": exhaustive_n}
    else:
        alpha = exhaustive_sequences(2)
        for L in (1, 2):
            for combo in itertools.product(alpha, repeat=L):
                seqs.append(list(combo) + observe_tail())
                exhaustive_n += 1
        ctx.extra["exhaustive_short_sequences"] = {"alphabet": len(alpha), "max_len": 2, "count": exhaustive_n}

    # the key helpers: exhaustively on all strings of length <= 5 over {a, ., U+200B}, plus random longer ones
    n_keyfun = 0
    for L in range(0, 6):
        for chars in itertools.product("a." + MARK, repeat=L):
            seqs.append([{"op": f, "k": "".join(chars)} for f in KEY_FUNCS])
            n_keyfun += 1
    for _ in range(ctx.budget(150, 1500)):
        seqs.append([{"op": ctx.rng.choice(KEY_FUNCS), "k": gen_keystr(ctx.rng)} for _ in range(8)])
    ctx.extra["key_helper_strings_exhaustive"] = {"alphabet": ["a", ".", "U+200B"], "max_len": 5, "count": n_keyfun}

    for s in seqs:
        for op in s:
            ctx.hist("ops", op["op"])
        ctx.hist("length", min(max(len(s) - len(observe_tail()), 0), 40) // 5 * 5)

    # --- correspondence ----------------------------------------------------
    bad = correspond(ctx, seqs, "generated")
    for b in bad[:3]:
        def still(c, b=b):
            return bool(correspond_quiet(ctx, [c]))
        try:
            small = shrink(b["ops"], still)
        except Exception:  # noqa: BLE001
            small = b["ops"]
        ctx.tie_break("correspondence E1 (Namespace model vs jsonargparse._namespace) disagrees", json.dumps({"ops": small, "real": b["real"], "model": b["model"]}, ensure_ascii=True)[:1500])
    # --- oracle on the real implementation ---------------------------------
    for idx, s in enumerate(seqs):
        final = real_run([{"op": "new"}] + s)[-1]["s"]
        if final["n"]:
            ctx.nontrivial(json.dumps(s, sort_keys=True))
        judge_oracle(ctx, s, "corpus" if idx < n_corpus else "generated")
    for s in seqs[n_corpus : n_corpus + 3]:
        ctx.sample(s)

    check_patch_namespace(ctx)

    # --- replay of catalogued findings --------------------------------------
    for f in ctx.open_findings():
        devs = oracle_run(f["witness"]["ops"])
        if devs:
            ctx.known(f["id"], f["description"])
        else:
            ctx.stale_findings.append(f["id"])
    for f in ctx.fixed_findings():
        if oracle_run(f["witness"]["ops"]):
            ctx.violation("fixed finding %s fails again" % f["id"], {"kind": "oracle", "ops": f["witness"]["ops"]})
    ctx.extra["correspondence_disagreements"] = len(bad)
    ctx.extra["sequences"] = len(seqs)


def patch_namespace_ok():
    """`patch_namespace()` swaps argparse.Namespace for the duration of the block and restores it, also on an exception"""
    import argparse

    from jsonargparse._namespace import Namespace, patch_namespace

    orig = argparse.Namespace
    try:
        with patch_namespace():
            inside = argparse.Namespace is Namespace
        after = argparse.Namespace is orig
        try:
            with patch_namespace():
                raise RuntimeError("x")
        except RuntimeError:
            pass
        return inside and after and argparse.Namespace is orig
    finally:
        argparse.Namespace = orig


def check_patch_namespace(ctx):
    ctx.count(1)
    if not patch_namespace_ok():
        ctx.violation("patch_namespace does not swap argparse.Namespace inside the block / restore it afterwards", {"kind": "patch_namespace"})


def correspond_quiet(ctx, seqs):
    n = ctx.evaluations
    r = correspond(ctx, seqs, "shrink")
    ctx.evaluations = n
    return r


def replay(ctx: Ctx, body):
    repo_python_path()
    if body["replay"].get("kind") == "patch_namespace":
        return 0 if patch_namespace_ok() else 1
    ops = body["replay"]["ops"]
    devs = oracle_run(ops)
    print("deviations from the reference:", devs)
    print("real trace:")
    for op, o in zip(ops, real_run(ops)):
        print("  ", json.dumps(op, ensure_ascii=True), "->", json.dumps(o, ensure_ascii=True))
    return 1 if devs else 0

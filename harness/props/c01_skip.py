"""C01, dump(skip_default=True): the Lean model (lean/Jap/Core/SkipDefault.lean) against the live code.

 a. delKV  ==  ArgumentParser._dump_delete_default_entries on the same pair of nested dicts
 b. reparse ==  parser.parse_object(reduced dump) on a real parser built from the schema (groups = dotted argument
    names, leaves = arguments of type int / str / List[int] / Dict[str,int] / Dict[str,Dict[str,int]])
 c. the property on the real parser: parse_string(dump(cfg, skip_default=True)) == cfg; it must hold whenever the
    model's `leafStable` holds (theorem C01_skip_default_roundtrip_partial); failures outside are the open finding
"""
from __future__ import annotations

import copy

from . import c01_doc as D
from . import c01_e2e as E

KEYS = ["a", "b", "c", "lr", "name", "opt", "x1", "k"]
STRS = ["a", "b", "x y", "run", "adam", ""]


def gen_leaf(rng):
    r = rng.random()
    if r < 0.25:
        return "int", rng.randint(-3, 9)
    if r < 0.45:
        return "str", rng.choice(STRS)
    if r < 0.6:
        return "list", [rng.randint(0, 5) for _ in range(rng.randint(0, 3))]
    if r < 0.85:
        return "dict", {k: rng.randint(0, 5) for k in rng.sample(KEYS, rng.randint(0, 3))}
    return "dict2", {k: {k2: rng.randint(0, 5) for k2 in rng.sample(KEYS, rng.randint(0, 2))} for k in rng.sample(KEYS, rng.randint(0, 2))}


def gen_schema(rng, depth=0):
    """(schema, defaults): schema = {'leaf': kind} | {'group': {name: schema}}"""
    names = rng.sample(KEYS, rng.randint(1, 3))
    sch, dflt = {}, {}
    for n in names:
        if depth < 2 and rng.random() < 0.3:
            s, d = gen_schema(rng, depth + 1)
            sch[n], dflt[n] = {"group": s}, d
        else:
            kind, v = gen_leaf(rng)
            sch[n], dflt[n] = {"leaf": kind}, v
    return sch, dflt


def mutate_leaf(rng, kind, v):
    r = rng.random()
    if r < 0.35:
        return copy.deepcopy(v)
    if kind == "int":
        return v + rng.choice([1, -1, 10])
    if kind == "str":
        return rng.choice([s for s in STRS if s != v])
    if kind == "list":
        return v + [rng.randint(0, 5)] if rng.random() < 0.5 else v[:-1]
    out = copy.deepcopy(v)
    for _ in range(rng.randint(1, 2)):
        r = rng.random()
        if out and r < 0.35:
            k = rng.choice(list(out))
            out[k] = (out[k] + 1) if kind == "dict" else mutate_leaf(rng, "dict", out[k])
        elif out and r < 0.5:
            del out[rng.choice(list(out))]
        elif r < 0.8:
            k = rng.choice(KEYS)
            if k not in out:
                out[k] = rng.randint(0, 5) if kind == "dict" else {rng.choice(KEYS): rng.randint(0, 5)}
        else:
            out = {k: (rng.randint(6, 9) if kind == "dict" else {"z": 1}) for k in rng.sample(KEYS, rng.randint(0, 2))}
    return out


def mutate(rng, sch, dflt):
    out = {}
    for n, s in sch.items():
        out[n] = mutate(rng, s["group"], dflt[n]) if "group" in s else mutate_leaf(rng, s["leaf"], dflt[n])
    return out


def sch_json(real, sch):
    return {"group": [[list(D._sc(real, n)), ("leaf" if "leaf" in s else sch_json(real, s["group"]))] for n, s in sch.items()]}


def leaf_type(kind):
    from typing import Dict, List

    return {"int": int, "str": str, "list": List[int], "dict": Dict[str, int], "dict2": Dict[str, Dict[str, int]]}[kind]


def build(sch, dflt):
    from jsonargparse import ArgumentParser

    p = ArgumentParser(exit_on_error=False)

    def add(prefix, s, d):
        for n, x in s.items():
            if "group" in x:
                add(prefix + n + ".", x["group"], d[n])
            else:
                p.add_argument("--" + prefix + n, type=leaf_type(x["leaf"]), default=copy.deepcopy(d[n]))

    add("", sch, dflt)
    return p


def plain(ns):
    from jsonargparse import strip_meta

    return strip_meta(ns).as_dict()


def correspond_skip_default(ctx, m, C, rng, n):
    from jsonargparse import ArgumentError, ArgumentParser

    real = D.Real(m)
    helper = ArgumentParser(exit_on_error=False)
    cases = []
    for _ in range(n):
        sch, dflt = gen_schema(rng)
        cases.append((sch, dflt, mutate(rng, sch, dflt)))
    res = C.driver(ctx, [{"op": "skipdef", "sch": sch_json(real, sch), "cfg": D.to_model(real, cfg), "dflt": D.to_model(real, dflt)}
                         for sch, dflt, cfg in cases])
    bad = []
    stable = unstable = 0
    for (sch, dflt, cfg), r in zip(cases, res or []):
        ctx.count(3)
        if not r["conf"]:
            bad.append({"what": "generated configuration does not conform to its schema in the model", "cfg": repr(cfg)[:200]})
            continue
        # a. the reduction
        red_real = copy.deepcopy(cfg)
        helper._dump_delete_default_entries(red_real, copy.deepcopy(dflt))
        red_model = D.from_model(real, r["reduced"])
        if E.canon(red_real) != E.canon(red_model):
            bad.append({"what": "delKV differs from _dump_delete_default_entries", "cfg": repr(cfg)[:300], "defaults": repr(dflt)[:300],
                        "real": repr(red_real)[:300], "model": repr(red_model)[:300]})
            continue
        # b. the re-parse of the reduced dump
        p = build(sch, dflt)
        dumped = {} if r["dumped"] is None else D.from_model(real, r["dumped"])
        try:
            back = plain(p.parse_object(copy.deepcopy(dumped)))
        except ArgumentError as ex:
            bad.append({"what": "the reduced dump is rejected by the real parser: %s" % str(ex)[:100], "dumped": repr(dumped)[:300]})
            continue
        rep_model = D.from_model(real, r["reparsed"])
        if E.canon(back) != E.canon(rep_model):
            bad.append({"what": "reparse differs from parse_object of the reduced dump", "dumped": repr(dumped)[:300], "defaults": repr(dflt)[:300],
                        "real": repr(back)[:300], "model": repr(rep_model)[:300]})
            continue
        # c. the property on the real parser
        cfg_ns = p.parse_object(copy.deepcopy(cfg))
        text = p.dump(cfg_ns, skip_default=True, skip_none=False)
        again = plain(p.parse_string(text))
        holds = E.canon(again) == E.canon(plain(cfg_ns))
        ctx.hist("skip_default_model", "leafStable" if r["stable"] else "dict leaf shares an entry with its default")
        if r["stable"]:
            stable += 1
            ctx.nontrivial("sd:" + repr(cfg) + repr(dflt))
            if not holds:
                ctx.violation("dump(skip_default=True) of %r (defaults %r) re-parses to %r although no dict leaf shares an entry with its default" % (cfg, dflt, again),
                              {"kind": "skipdef", "schema": sch, "defaults": dflt, "cfg": cfg})
            if E.canon(rep_model) != E.canon(cfg):
                bad.append({"what": "model: reparse (dumpedNode cfg dflt) differs from cfg under leafStable (contradicts C01_skip_default_roundtrip_partial)", "cfg": repr(cfg)[:300]})
        else:
            unstable += 1
            if not holds:
                if ctx.is_open("C01-skip-default-dict-leaf"):
                    ctx.known("C01-skip-default-dict-leaf", C.FINDING_TEXT["C01-skip-default-dict-leaf"])
                else:
                    ctx.violation("dump(skip_default=True) of %r (defaults %r) re-parses to %r" % (cfg, dflt, again),
                                  {"kind": "skipdef", "schema": sch, "defaults": dflt, "cfg": cfg})
    ctx.extra["skip_default_correspondence"] = {"cases": len(cases), "leafStable": stable, "excluded_class": unstable}
    return bad


def replay_skipdef(r):
    p = build(r["schema"], r["defaults"])
    cfg_ns = p.parse_object(copy.deepcopy(r["cfg"]))
    text = p.dump(cfg_ns, skip_default=True, skip_none=False)
    again = plain(p.parse_string(text))
    ok = E.canon(again) == E.canon(plain(cfg_ns))
    print("cfg %r, defaults %r: dump %r re-parses to %r" % (r["cfg"], r["defaults"], text, again))
    return 0 if ok else 1

"""C07 — equivalent ways of declaring a nested group behave identically.

One field list (names, types from {int,str,bool,float,Optional[int],List[int]}, defaults) is turned into
four REAL parsers: (1) individual dotted arguments `--g.a`, (2) a dataclass-typed argument `--g`,
(3) `add_class_arguments(Class, 'g')`, (4) an inner parser attached with `ActionParser` under `--g`.
The same input mix (dotted argv keys, `+` appends, whole-group JSON, `--cfg`, config strings, environment
variables, objects; valid and invalid) is fed to all four.

Pipeline: (1) build Props/C07 (the four declaration constructors of lean/Jap/Core/Validate.lean yield the
same action table, hence the same parse result on inputs that do not use the whole-group option);
(2) correspondence: the action table of each real parser (dests, option strings, required set, defaults,
whole-group option) vs the model's `decl`, and the result of each real parse vs the model's `parse7`;
(3) oracle on the real code: as_dict() of the result or ArgumentError, and the dump text, must agree across
the four styles, except in the open finding class (dotted style x whole-group assignment).
"""
from __future__ import annotations

import atexit
import copy
import hashlib
import importlib
import json
import os
import shutil
import sys
import tempfile

from ..lib.common import Ctx, MachineryError, repo_python_path
from . import c06 as base

MANIFEST = {
    "engine": "Validate",
    "technique": "Lean 4 proof that the four declaration constructors (mirroring add_argument dispatch, _add_signature_parameter, "
                 "_create_group_if_requested, set_defaults, ActionParser._move_parser_actions) produce the same action table, for flat and for "
                 "recursive field lists with declared group defaults + parse fold over tables + regenerated set_defaults loop table "
                 "+ differential correspondence of tables and results on four real parsers per field list "
                 "+ option-lookup model (routeOpt) with the regenerated statements of parse_argv_item; inputs incl. abbreviated and unknown member options",
    "text": "Theorems in lean/Jap/Props/C07.lean prove, for all keys, defaults mappings and RECURSIVE field lists (a field may be a sub-group, any "
            "depth), without side conditions: (C07_same_table) the dotted, dataclass, class-arguments and inner-parser constructors produce the same "
            "dests, option strings, required set and DEFAULTS - the declared group default where one was given (outermost wins), else the class "
            "default - and the three non-dotted ones the same whole-group option at every level; (C07_set_defaults_all_entries) set_defaults "
            "performs every leaf assignment of the defaults mapping whatever its position relative to sub-group entries, tied to the source by "
            "the regenerated AST facts of its _ActionConfigLoad branch (C07_set_defaults_continue); (C07_styles_nondotted) the same parse result "
            "(values or error, dump order) for the three non-dotted styles on every input sequence; (C07_styles_partial) for all four styles on "
            "inputs that do not assign a group as a whole, given that no group key of the outcome holds a string; the witnesses that the dotted "
            "style lacks the group options (open finding, DESIGN section 7 row 9). The flat-list theorems (*_flat) additionally cover the "
            "signature rules for Optional / underscore parameters. The model is tied to the code by comparing, per generated field list (flat and "
            "recursive with declared defaults), the four real parsers' action tables with the model's and every real parse result with the model's. "
            "(C07_moved_required, C07_inner_required_source) the inner-parser style carries over the inner parser's required SET with the prefix, tied to "
            "the regenerated AST facts of ActionParser._move_parser_actions; field lists with a class-typed member (required through "
            "add_subclass_arguments: no flagged action) are compared on the real code only (tables incl. required sets, then inputs). "
            "(C07_same_table_X, C07_style_pairs_differ_X, C07_styles_nondotted_X, C07_styles_partial_X; Core/StylesX.lean) the wider member grammar - leaves, dataclass in "
            "dataclass at any depth, Optional[Dataclass] (Node.optGroup), List[Dataclass] and class-typed members: the four declarations produce the same actions, and differ "
            "exactly in the whole-group options (dotted), the `.help` options of class-typed members (inner) and null-lenient required members (dotted/inner via "
            "add_subclass_arguments) - the three open findings as exact decidable classes; "
            "(C07_route_same_with_loaders, C07_argv_item_source) where a command-line item that is not an exact option string goes - a typed parent action, the "
            "unique option it abbreviates, ambiguous, unknown - does not depend on the loader options `--g` the three non-dotted styles add; tied to the "
            "regenerated statements of ActionTypeHint.parse_argv_item (a parent action is used only under `if typehint:`). The generators spell member options "
            "also as abbreviations and give unknown member names a mapping value; the harness expands unique abbreviations before handing items to the model.",
    "level_note": "Trusted: Lean kernel; axioms propext/Quot.sound/Classical.choice only; the harness; the YAML loader as an oracle (every text that "
                  "occurs is loaded by jsonargparse's own load_value and handed to the model). In recursive lists every leaf has a class default and "
                  "keys of a defaults mapping name fields of the group. Types outside the six-type grammar, positionals, help/usage text and "
                  "instantiate_classes are outside the model. Class-typed members are outside the Lean tables (oracle on the real code only; "
                  "the moved required set is tied by the extractor fact). argparse's prefix matching itself is trusted (transcribed as `routeOpt` / "
                  "`expand_abbrev`). Open finding C07-inner-class-help-option: the inner-parser style lacks the `--key.member.help` option of class-typed members.",
}

STYLES = ["dotted", "dataclass", "class", "inner"]
F_WHOLE = "C07-dotted-whole-group"
F_INNERHELP = "C07-inner-class-help-option"
F_SUBGROUPNULL = "C07-subclass-group-null"
KEY_POOL = ["grp", "opts", "net"]
NAME_POOL = ["alpha", "beta", "gamma", "delta", "eps", "lam"]
TYPES = ["int", "str", "bool", "float", "optInt", "listInt", "optListInt", "optDictStrInt", "optTupleIntStr", "optLitAB"]
OPTIONAL = {"optInt", "optListInt", "optDictStrInt", "optTupleIntStr", "optLitAB"}      # Optional[...] of anything
PLUS = {"listInt", "optListInt"}
NEWDEF = {"optListInt": [None, [1, 2], []], "optDictStrInt": [None, {"k": 1}, {}], "optTupleIntStr": [None, [1, "a"]], "optLitAB": [None, "a", "b"]}
GOOD_RAW = {"optListInt": ["[1,2]", "[]", "null"], "optDictStrInt": ['{"k": 1}', "{}", "null"], "optTupleIntStr": ['[1, "a"]', "null"], "optLitAB": ["a", "b", "null"]}
GOOD_NATIVE = {"optListInt": [[1, 2], [], None], "optDictStrInt": [{"k": 1, "m": 2}, {}, None], "optTupleIntStr": [[1, "a"], None], "optLitAB": ["a", "b", None]}

RAW = {
    "int": ["1", "-3", "0", "12", "5.0", "1e3", "abc", "true", "null", "[1]", "007", "0x1F"],
    "str": ["hello", "1", "null", "true", "a b", "[1,2]", "x:y", "1.5"],
    "bool": ["true", "false", "True", "yes", "no", "1", "0", "null", "abc"],
    "float": ["1.5", "2", "-0.25", "1e3", "abc", "true", ".5", "null"],
    "optInt": ["null", "4", "abc", "1.5", "-7", "None"],
    "listInt": ["[1,2]", "[]", "3", "[1,\"a\"]", "abc", "null", "[1.5]", "[[1]]", "[true]", "[4]"],
    "optListInt": ["[1,2]", "[]", "null", "3", "abc", "[1.5]", "[4]"],
    "optDictStrInt": ['{"k": 1}', "{}", "null", '{"k": "x"}', "3", "abc"],
    "optTupleIntStr": ['[1, "a"]', "null", "[1]", "[1, 2]", "abc", '["a", 1]'],
    "optLitAB": ["a", "b", "null", "c", "1"],
}
RAW_APPEND = ["3", "[4,5]", "abc", "[\"x\"]", "null", "[]", "1.5"]
NATIVE = {
    "int": [1, -3, 0, "2", 1.5, True, None, "abc", [1]],
    "str": ["hello", "1", 5, None, True, "a b"],
    "bool": [True, False, "true", 1, None, "abc"],
    "float": [1.5, 2, -0.25, "2.5", True, None, "abc"],
    "optInt": [None, 4, "null", "5", 1.5, "abc"],
    "listInt": [[1, 2], [], 3, [1, "a"], None, "abc", [1.5], "[7]"],
    "optListInt": [[1, 2], [], None, 3, [1, "a"], "abc"],
    "optDictStrInt": [{"k": 1}, {}, None, {"k": "x"}, 3, [1]],
    "optTupleIntStr": [[1, "a"], None, [1], [1, 2], "abc"],
    "optLitAB": ["a", "b", None, "c", 1],
}


# ---------------------------------------------------------------- field lists and the four real parsers
def gen_fields(rng):
    names = rng.sample(NAME_POOL, rng.randint(1, 4))
    out = []
    for n in names:
        ty = rng.choice(TYPES)
        f = {"name": n, "ty": ty}
        # an Optional[...] field WITHOUT default: the signature styles derive `default=None, not required` from the annotation
        if rng.random() < (0.5 if ty in OPTIONAL else 0.6):
            f["def"] = copy.deepcopy(rng.choice(NEWDEF[ty])) if ty in NEWDEF else {
                "int": rng.choice([0, 3, -2]), "str": rng.choice(["s0", "w"]), "bool": rng.choice([False, True]),
                "float": rng.choice([1.5, -0.25]), "optInt": rng.choice([None, 4]), "listInt": rng.choice([[], [1, 2]]),
            }[ty]
        out.append(f)
    out.sort(key=lambda f: 1 if "def" in f else 0)       # parameters without default first
    return out


def as_nodes(fields):
    """the field list in the node format of c06 (for class generation)"""
    out = []
    for f in fields:
        n = {"k": "leaf", "ty": f["ty"], "req": "def" not in f}
        if "def" in f:
            n["def"] = f["def"]
        out.append([f["name"], n])
    return out


def plain_kwargs(n):
    """how one states the field on a plain argument: an Optional[...] field without default is `default=None` (not required)"""
    if not n["req"]:
        d = copy.deepcopy(n["def"])
        return {"default": tuple(d) if n["ty"] == "optTupleIntStr" and isinstance(d, list) else d}
    return {"default": None} if n["ty"] in OPTIONAL else {"required": True}


def build_four(key, fields):
    from jsonargparse import ActionConfigFile, ActionParser, ArgumentParser

    if any(f["ty"] == "cls" for f in fields):
        return build_four_cls(key, fields)
    nodes = as_nodes(fields)
    spec = [["dc", {"k": "group", "style": "dataclass", "whole": True, "fields": nodes, "cls": "DC1"}],
            ["pg", {"k": "group", "style": "class", "whole": True, "fields": nodes, "cls": "PG1"}]]
    mod, src = base.write_module(spec)
    parsers = {}
    for st in STYLES:
        p = ArgumentParser(exit_on_error=False, env_prefix="APP", default_env=False)
        p.add_argument("--cfg", action=ActionConfigFile)
        if st == "dotted":
            for name, n in nodes:
                kw = plain_kwargs(n)
                p.add_argument("--%s.%s" % (key, name), type=base.py_type(n, mod), **kw)
        elif st == "dataclass":
            p.add_argument("--" + key, type=mod.DC1)
        elif st == "class":
            p.add_class_arguments(mod.PG1, key)
        else:
            inner = ArgumentParser(exit_on_error=False)
            for name, n in nodes:
                kw = plain_kwargs(n)
                inner.add_argument("--" + name, type=base.py_type(n, mod), **kw)
            p.add_argument("--" + key, action=ActionParser(parser=inner))
        parsers[st] = p
    return parsers, src


def real_table(parser, key):
    from jsonargparse._actions import _ActionConfigLoad, filter_default_actions

    entries, whole = [], None
    for a in filter_default_actions(parser._actions):
        if a.dest in ("cfg", "help"):
            continue
        if isinstance(a, _ActionConfigLoad):
            whole = a.dest if a.option_strings == ["--" + a.dest] else "?" + repr(a.option_strings)
            continue
        entries.append({"dest": a.dest, "opts": sorted(o[2:] if o.startswith("--") else "?" + o for o in a.option_strings), "def": base.canon(a.default)})
    return {"entries": entries, "required": sorted(parser.required_args), "whole": whole}


def model_table(t):
    return {"entries": [{"dest": e["dest"], "opts": sorted(e["opts"]), "def": unwire(e["def"])} for e in t["entries"]],
            "required": sorted(t["required"]), "whole": t["whole"]}


def unwire(v):
    """driver value -> canonical python value (floats stay {"f": repr})"""
    if isinstance(v, dict):
        if "d" in v:
            return {k: unwire(x) for k, x in v["d"]}
        return v
    if isinstance(v, list):
        return [unwire(x) for x in v]
    return v


# ---------------------------------------------------------------- inputs
_FILES = []


def value_files():
    """existing readable files whose NAMES are used as plain string values: a member value that happens to name a file must be treated the same
    in the four styles (a signature-derived member must not get path loading that a plain argument does not have).  Deterministic location, created
    by run() and replay() themselves."""
    if not _FILES:
        import tempfile

        d = os.path.join(tempfile.gettempdir(), "c07_value_files")
        os.makedirs(d, exist_ok=True)
        for name, text in (("nums.txt", "4\n5\n"), ("one.txt", "7\n"), ("words.txt", "alpha\nbeta\n"), ("list.json", "[1, 2]\n")):
            path = os.path.join(d, name)
            if not os.path.exists(path) or open(path).read() != text:
                with open(path, "w") as f:
                    f.write(text)
            _FILES.append(path)
    return _FILES


def gen_input(rng, key, fields, modname=None):
    """one input mix: {"mode": argv|string|object|env, "argv": [...], "env": {...}, "tree": {...}}"""
    mode = rng.choice(["argv", "argv", "argv", "string", "object", "env", "argvcfg"])
    inp = {"mode": mode, "argv": [], "env": {}, "tree": None}
    valid_bias = rng.random() < 0.6

    def raw_for(f, append=False):
        if f["ty"] == "cls":
            pl = cls_pools(f, modname)
            return rng.choice(pl["good_raw"] if valid_bias or rng.random() < 0.4 else pl["bad_raw"])
        if f["ty"] in ("listInt", "optListInt", "str", "int", "optInt") and rng.random() < (0.1 if f["ty"] in PLUS else 0.04):
            return rng.choice(value_files())        # a plain string that names an existing file
        pool = RAW_APPEND if append else RAW[f["ty"]]
        if append and f["ty"] == "optListInt":
            pool = [x for x in RAW_APPEND if x != "null"]      # (`+=null` on Optional[List] lets the None member of the Union take over: not modelled)
        if valid_bias:
            good = dict({"int": ["1", "-3", "12"], "str": ["hello", "a b", "1"], "bool": ["true", "false"], "float": ["1.5", "2", "1e3"],
                         "optInt": ["null", "4"], "listInt": ["[1,2]", "[]", "[4]"]}, **GOOD_RAW)[f["ty"]]
            pool = ["3", "[4,5]", "[]"] if append else good
        return rng.choice(pool)

    def native_for(f):
        if f["ty"] == "cls":
            pl = cls_pools(f, modname)
            return copy.deepcopy(rng.choice(pl["good_native"] if valid_bias or rng.random() < 0.4 else pl["bad_native"]))
        if f["ty"] in ("listInt", "optListInt", "str") and rng.random() < (0.08 if f["ty"] in PLUS else 0.03):
            return rng.choice(value_files())
        pool = NATIVE[f["ty"]]
        if valid_bias:
            pool = dict({"int": [1, -3, "2"], "str": ["hello", "1"], "bool": [True, False], "float": [1.5, 2], "optInt": [None, 4], "listInt": [[1, 2], []]}, **GOOD_NATIVE)[f["ty"]]
        return copy.deepcopy(rng.choice(pool))

    def gen_tree():
        r = rng.random()
        if r < 0.08:
            return {key: rng.choice([3, None, "text", [1], True])}
        g = {}
        for f in fields:
            if ("def" not in f and valid_bias and f["ty"] not in OPTIONAL) or rng.random() < 0.6:
                g[f["name"]] = native_for(f)
        if rng.random() < (0.05 if valid_bias else 0.25):
            g["zz9"] = rng.choice([1, {}, {"q": 1}])
        if rng.random() < 0.12:
            g[rng.choice(fields)["name"]] = None
        t = {key: g}
        if rng.random() < (0.03 if valid_bias else 0.15):
            t["yy8"] = rng.choice([1, {}, "x"])
        return t

    def gen_argv():
        args = []
        for f in fields:
            if ("def" not in f and valid_bias and f["ty"] not in OPTIONAL) or rng.random() < 0.55:
                args.append("--%s.%s=%s" % (key, f["name"], raw_for(f)))
            if f["ty"] in PLUS and rng.random() < 0.5:
                for _ in range(rng.randint(1, 2)):
                    args.append("--%s.%s+=%s" % (key, f["name"], raw_for(f, True)))
        if rng.random() < 0.25:
            g = {}
            for f in fields:
                if rng.random() < 0.6:
                    g[f["name"]] = native_for(f)
            args.insert(rng.randint(0, len(args)), "--%s=%s" % (key, json.dumps(g) if rng.random() < 0.9 else rng.choice(["3", "abc", "null"])))
        if not valid_bias and rng.random() < 0.3:
            args.append("--%s.zz9=1" % key)
        # `null` for a member, whatever its type and default: which members take None is part of the declaration (a signature-derived member must
        # not become Optional because of its default value)
        if rng.random() < 0.2:
            args.insert(rng.randint(0, len(args)), "--%s.%s=null" % (key, rng.choice(fields)["name"]))
        # member options that are NOT spelled exactly: an abbreviation of a member option (argparse resolves a unique prefix; a list member has
        # `--g.m` and `--g.m+`, so its abbreviation is ambiguous) and an unknown member name whose value is a mapping of members.  The option
        # lookup must not depend on whether the group key has a loader option (`--g`) of its own.
        if args and rng.random() < 0.3:
            i = rng.randrange(len(args))
            name, _, val = args[i].partition("=")
            member = name[len(key) + 3:]
            if name.startswith("--%s." % key) and not name.endswith("+") and len(member) > 1:
                args[i] = "--%s.%s=%s" % (key, member[:rng.randint(1, len(member) - 1)], val)
        if rng.random() < (0.08 if valid_bias else 0.3):
            g = {}
            for f in fields:
                if rng.random() < 0.6:
                    g[f["name"]] = native_for(f)
            unknown = rng.choice(["zz9", "z", rng.choice(fields)["name"] + "x"])
            args.insert(rng.randint(0, len(args)), "--%s.%s=%s" % (key, unknown, json.dumps(g)))
        rng.shuffle(args) if rng.random() < 0.3 else None
        return args

    def gen_env():
        env = {}
        for f in fields:
            if rng.random() < 0.4:
                env["APP_%s__%s" % (key.upper(), f["name"].upper())] = raw_for(f)
        if rng.random() < 0.25:
            g = {}
            for f in fields:
                if rng.random() < 0.6:
                    g[f["name"]] = native_for(f)
            env["APP_%s" % key.upper()] = json.dumps(g) if rng.random() < 0.9 else rng.choice(["3", "abc"])
        return env

    if mode in ("argv", "argvcfg"):
        inp["argv"] = gen_argv()
        if rng.random() < 0.35:
            inp["env"] = gen_env()
        if mode == "argvcfg":
            inp["tree"] = gen_tree()
            inp["cfgpos"] = rng.randint(0, len(inp["argv"]))
    elif mode in ("string", "object"):
        inp["tree"] = gen_tree()
        if rng.random() < 0.3:
            inp["env"] = gen_env()
    else:
        inp["env"] = gen_env()
    return inp


class patched_environ:
    def __init__(self, env):
        self.env = env

    def __enter__(self):
        self.saved = dict(os.environ)
        for k in list(os.environ):
            if k.startswith("APP_"):
                del os.environ[k]
        os.environ.update(self.env)

    def __exit__(self, *a):
        os.environ.clear()
        os.environ.update(self.saved)


def run_input(parser, inp):
    """('ok', snapshot, dump text) | ('err', msg) | ('exc', type, msg)"""
    mode = inp["mode"]
    use_env = bool(inp["env"])

    def call():
        if mode in ("argv", "argvcfg"):
            argv = list(inp["argv"])
            if mode == "argvcfg":
                argv.insert(inp["cfgpos"], "--cfg=" + json.dumps(inp["tree"]))
            return parser.parse_args(argv, env=use_env)
        if mode == "string":
            return parser.parse_string(json.dumps(inp["tree"]), env=use_env)
        if mode == "object":
            return parser.parse_object(copy.deepcopy(inp["tree"]), env=use_env)
        return parser.parse_env(dict(inp["env"]))

    def fn():
        if mode == "env":
            return call()
        with patched_environ(inp["env"]):
            return call()

    holder = {}

    def fn2():
        r = fn()
        holder["ns"] = r
        return r

    res = base.run_real(fn2)
    if res[0] == "ok":
        snap = res[1]
        snap.pop("cfg", None)
        ns = holder["ns"]
        try:
            ns2 = ns.clone()
            ns2.pop("cfg", None)
            text = parser.dump(ns2)
        except Exception as ex:  # noqa: BLE001
            text = "<dump raised %s: %s>" % (type(ex).__name__, str(ex)[:200])
        return ("ok", snap, text)
    return res


def uses_whole(inp, key):
    """does the input assign the group as a whole through the `--key` option / its environment variable,
    or give a string for the group key in a configuration?"""
    if any(a.split("=")[0] == "--" + key for a in inp["argv"]):
        return True
    if "APP_" + key.upper() in inp["env"]:
        return True
    t = inp.get("tree")
    return isinstance(t, dict) and key in t and not isinstance(t.get(key), dict)


# ---------------------------------------------------------------- model side
def load_oracle(texts):
    """jsonargparse's own loader on every text that occurs (yaml mode)"""
    from jsonargparse._common import parser_context
    from jsonargparse._loaders_dumpers import get_loader_exceptions, load_value

    out = []
    with parser_context(load_value_mode="yaml"):
        for t in sorted(set(texts)):
            try:
                v = load_value(t, simple_types=True)
            except get_loader_exceptions():
                continue
            except Exception:  # noqa: BLE001
                continue
            try:
                out.append([t, base.wire_val(v)])
            except MachineryError:
                continue          # dates etc.: outside the value grammar, the text stays a string
    return out


def strings_of(v, acc):
    if isinstance(v, str):
        acc.append(v)
    elif isinstance(v, dict):
        for x in v.values():
            strings_of(x, acc)
    elif isinstance(v, list):
        for x in v:
            strings_of(x, acc)


def expand_abbrev(k, opts):
    """argparse's option lookup (trusted): an exact option string, else the option a UNIQUE prefix stands for; anything else stays as written
    (unknown or ambiguous: an error in the code, an unknown option for the model)"""
    if k in opts:
        return k
    m = [o for o in opts if o.startswith(k)]
    return m[0] if len(m) == 1 else k


def model_items(inp, key, fields, loads):
    """the sources in the order the parse methods apply them: environment (group variable, then the arguments in
    declaration order), then the main source"""
    ld = dict((t, v) for t, v in loads)
    items = []
    texts = []
    wenv = inp["env"].get("APP_" + key.upper())
    if wenv is not None:
        items.append({"t": "wholeEnv", "v": ld.get(wenv, wenv)})
    for f in fields:
        var = "APP_%s__%s" % (key.upper(), f["name"].upper())
        if var in inp["env"]:
            items.append({"t": "opt", "k": "%s.%s" % (key, f["name"]), "v": inp["env"][var]})
    main = []
    opts = []
    for f in fields:
        opts.append("%s.%s" % (key, f["name"]))
        if f["ty"] in PLUS:
            opts.append("%s.%s+" % (key, f["name"]))
    for a in inp["argv"]:
        k, _, v = a[2:].partition("=")
        if k == key:
            main.append({"t": "wholeOpt", "v": ld.get(v, v)})
        else:
            main.append({"t": "opt", "k": expand_abbrev(k, opts) if k.startswith(key + ".") else k, "v": v})
    if inp["mode"] == "argvcfg":
        main.insert(inp["cfgpos"], {"t": "tree", "v": base.wire_val(inp["tree"])})
    elif inp["mode"] in ("string", "object"):
        main.append({"t": "tree", "v": base.wire_val(inp["tree"])})
    return items + main


def input_texts(inp):
    """every text the parsers may hand to the loader: option / variable values, strings inside configurations,
    and the strings inside what those texts load to (a string inside whole-group JSON)"""
    import yaml

    acc = []
    for a in inp["argv"]:
        acc.append(a.partition("=")[2])
    acc.extend(inp["env"].values())
    strings_of(inp.get("tree"), acc)
    for t in list(acc):
        try:
            strings_of(yaml.safe_load(t), acc)
        except Exception:  # noqa: BLE001
            pass
    return acc


# ---------------------------------------------------------------- the check
def judge(ctx, key, fields, inp, results, stats, origin, ext=None):
    """property oracle: the four styles agree (values / reject, dump text)"""
    uw = uses_whole(inp, key) if ext is None else ext_uses_whole(inp, ext)
    ref_style = "dataclass"
    ref = results[ref_style]
    replay = {"kind": "styles", "key": key, "fields": fields, "input": inp} if ext is None else {"kind": "ext", "ext": ext, "input": inp}
    for st in STYLES:
        r = results[st]
        if r[0] == "exc":
            ctx.violation("style %s: %s raised instead of ArgumentError: %s" % (st, r[1], r[2][:200]), replay)
            stats["violations"] += 1
            return
    for st in STYLES:
        if st == ref_style:
            continue
        r = results[st]
        same = (r[0] == ref[0]) and (r[0] != "ok" or (r[1] == ref[1] and r[2] == ref[2]))
        if same:
            continue
        if st == "dotted" and uw and ctx.is_open(F_WHOLE):
            ctx.known(F_WHOLE, "the dotted style has no option / environment variable for the group key: whole-group JSON is rejected (argv) or ignored (env), "
                               "a string for the group key in a config is accepted")
            stats["known"] += 1
            continue
        if st in ("dotted", "inner") and ext is None and ctx.is_open(F_SUBGROUPNULL) and nulls_subclass_group_member(inp, key, fields):
            ctx.known(F_SUBGROUPNULL, "a required class-typed member declared with add_subclass_arguments(required=True) (dotted / inner-parser styles) accepts `--key.member=null` "
                                      "on the command line or through the member's environment variable (the requirement is checked at the end only); the signature styles reject the null at once")
            stats["known"] += 1
            continue
        if st == "inner" and ext is None and ctx.is_open(F_INNERHELP) and abbreviates_class_member(inp, key, fields):
            ctx.known(F_INNERHELP, "the inner-parser style has no `--key.member.help` option for a class-typed member: an abbreviation `--key.m` of `--key.member` is "
                                   "ambiguous in the other three styles and accepted in the inner-parser style")
            stats["known"] += 1
            continue
        what = "styles %s and %s disagree on the same input: %s vs %s" % (ref_style, st, summary(ref), summary(r))
        ctx.violation(what, replay)
        stats["violations"] += 1
        return


def nulls_subclass_group_member(inp, key, fields):
    """the command line gives `null` to a REQUIRED class-typed member that the dotted / inner styles declare with add_subclass_arguments, and a later item
    gives the member a value again (so that the end-of-parse requirement is met)"""
    req = [f["name"] for f in fields if f.get("ty") == "cls" and f["node"].get("via") == "subclass_group" and f["node"]["req"]]
    members = ["--%s.%s" % (key, n) for n in req]
    if any(a.partition("=")[0] in members and a.partition("=")[2] == "null" for a in inp["argv"]):
        return True
    # the same null through the member's environment variable (read before the command line, which then re-assigns the member)
    env_names = {("%s__%s" % (key, n)).upper() for n in req}
    return any(v == "null" and any(k.upper().endswith(e) for e in env_names) for k, v in (inp.get("env") or {}).items())


def abbreviates_class_member(inp, key, fields):
    """an option of the command line is a proper prefix of the option of a class-typed member (or its `.help` option is asked for)"""
    members = ["%s.%s" % (key, f["name"]) for f in fields if f.get("ty") == "cls"]
    for a in inp["argv"]:
        k = a[2:].partition("=")[0]
        if any((m.startswith(k) and m != k and k.startswith(key + ".")) or k == m + ".help" for m in members):
            return True
    return False


def summary(r):
    if r[0] == "ok":
        return "ok %s dump=%r" % (json.dumps(r[1], sort_keys=True)[:200], r[2][:120])
    return "%s %s" % (r[0], str(r[1])[:160])


def compare_model(st, mres, r):
    if mres.get("r") == "ok":
        want = unwire(mres["cfg"])
        if r[0] != "ok":
            return "model accepts %s, code: %s" % (json.dumps(want)[:200], summary(r))
        if json.dumps(want) != json.dumps(r[1]):
            return "values differ: model %s, code %s" % (json.dumps(want)[:300], json.dumps(r[1])[:300])
        # the dump lists the same keys in the same order with the same values
        import yaml
        try:
            d = yaml.safe_load(r[2])
        except Exception:  # noqa: BLE001
            return "dump text does not load: %r" % r[2][:200]
        if json.dumps(base.canon(d)) != json.dumps(strip_none(want)):
            return "dump differs from the model's configuration: %r vs %s" % (r[2][:200], json.dumps(want)[:200])
        return None
    if mres.get("r") == "err":
        if r[0] == "ok":
            return "model rejects (%s %s), code accepts %s" % (mres.get("kind"), mres.get("rel", mres.get("arg")), json.dumps(r[1])[:200])
        return None
    return "driver answer %r" % (mres,)


def strip_none(v):
    """dump(skip_none=True) drops null entries of namespaces"""
    if isinstance(v, dict) and "f" not in v:
        return {k: strip_none(x) for k, x in v.items() if x is not None}
    return v


def prepare_group(key, fields, inputs):
    """the four real parsers and the driver lines of one field list"""
    try:
        parsers, src = build_four(key, fields)
    except Exception as ex:  # noqa: BLE001
        raise MachineryError("the four parsers could not be built for %r: %r" % (fields, ex))
    wf = [{"name": f["name"], "ty": f["ty"], **({"def": base.wire_val(f["def"])} if "def" in f else {})} for f in fields]
    lines = [{"op": "decl", "style": st, "key": key, "fields": wf} for st in STYLES]
    for inp in inputs:
        loads = load_oracle(input_texts(inp))
        items = model_items(inp, key, fields, loads)
        for st in STYLES:
            lines.append({"op": "parse7", "style": st, "key": key, "fields": wf, "load": loads, "items": items})
    return parsers, lines


def run_groups(ctx, groups, stats, origin):
    """`groups`: [(key, fields, inputs)]; one driver run for all of them"""
    prepared = [prepare_group(k, f, i) for k, f, i in groups]
    lines = [l for _, ls in prepared for l in ls]
    try:
        out_all = ctx.driver("Validate", lines) if lines else []
    except MachineryError as ex:
        if ctx.lean_ok:
            raise
        ctx.tie_break("correspondence Validate (C07) not runnable (model does not build)", str(ex)[:500])
        out_all = None
    pos = 0
    for (key, fields, inputs), (parsers, ls) in zip(groups, prepared):
        out = out_all[pos:pos + len(ls)] if out_all is not None else None
        pos += len(ls)
        run_group(ctx, key, fields, inputs, parsers, out, stats, origin)


def run_group(ctx, key, fields, inputs, parsers, out, stats, origin):
    # --- tables
    for i, st in enumerate(STYLES):
        ctx.count()
        rt = real_table(parsers[st], key)
        if out is not None:
            mt = model_table(out[i])
            if json.dumps(rt, sort_keys=True) != json.dumps(mt, sort_keys=True):
                ctx.tie_break("action table of the real %s-style parser differs from the model's decl" % st,
                              json.dumps({"real": rt, "model": mt, "fields": fields}, default=repr)[:1800])
                stats["disagree"] += 1
    # the property on tables, on the real code: same dests / option strings / defaults / required set
    tabs = {st: real_table(parsers[st], key) for st in STYLES}
    for st in STYLES[1:]:
        a, b = dict(tabs["dotted"], whole=None), dict(tabs[st], whole=None)
        if json.dumps(a, sort_keys=True) != json.dumps(b, sort_keys=True):
            ctx.violation("the %s style declares a different action table than the dotted style (dests / option strings / defaults / required)" % st,
                          {"kind": "table", "key": key, "fields": fields, "dotted": tabs["dotted"], st: tabs[st]})
            stats["violations"] += 1
    # --- inputs
    pos = len(STYLES)
    for inp in inputs:
        results = {}
        for st in STYLES:
            results[st] = run_input(parsers[st], inp)
            ctx.count()
        ctx.hist("mode", inp["mode"])
        ctx.hist("verdict", "/".join(results[st][0] for st in STYLES))
        if results["dataclass"][0] == "ok" and results["dataclass"][1].get(key) not in (None, {}):
            ctx.nontrivial(json.dumps([key, fields, inp], sort_keys=True, default=repr))
        judge(ctx, key, fields, inp, results, stats, origin)
        if out is not None:
            for st in STYLES:
                d = compare_model(st, out[pos], results[st])
                pos += 1
                if st == "dotted" and any(a.split("=")[0] == "--" + key for a in inp["argv"]):
                    d = None      # argparse abbreviation matching decides (`--g` is a prefix of `--g.a`): outside the model
                if d is not None and d.startswith("dump differs") and uses_whole(inp, key):
                    d = None      # a non-mapping group value: which styles print `g: null` is part of the open finding
                if d is not None:
                    stats["disagree"] += 1
                    ctx.tie_break("correspondence Validate (parse7 vs the real %s-style parser) disagrees: %s" % (st, d[:160]),
                                  json.dumps({"d": d, "style": st, "input": inp, "key": key, "fields": fields}, default=repr)[:1900])
                    if os.environ.get("C07_DEBUG"):
                        with open(os.environ["C07_DEBUG"], "a") as f:
                            f.write(json.dumps({"d": d, "style": st, "input": inp, "key": key, "fields": fields, "model": out[pos - 1],
                                                "real": list(results[st])}, default=repr) + "\n")


# ---------------------------------------------------------------- field lists with a CLASS-TYPED member
# A member whose type is a class (an abstract base with 1-2 subclasses), required (no default) or Optional[...] = None.  In the dotted and the
# inner-parser style such a member is declared either with add_argument(type=Base, required=True) (the action is flagged `_required`) or with
# add_subclass_arguments(Base, key, required=...) ("via": "subclass_group": the key is written into parser.required_args by
# _create_group_if_requested and NO action is flagged) - the inner parser's `required_args` and the flags of its actions then differ, and
# ActionParser._move_parser_actions must carry over the SET (C07_moved_required, tie C07_inner_required_source).  The Lean tables have no
# class type: these lists run on the real code only (tables of the four parsers incl. required sets, then the oracle on inputs that give,
# omit and null the member).  The module name is a function of the source text, so replays and corpus inputs can name the classes.
def gen_cls_fields(rng, counter=[0]):
    leaves = [f for f in gen_fields(rng) if f["ty"] in ("int", "str", "bool", "float", "optInt", "listInt")][:rng.randint(0, 2)]
    used = {f["name"] for f in leaves}
    out = list(leaves)
    for name in rng.sample([n for n in NAME_POOL + ["cal", "opt"] if n not in used], rng.randint(1, 2)):
        counter[0] += 1
        b = "Base%d" % counter[0]
        classes = []
        for i in range(rng.randint(1, 2)):
            ps = []
            for pn in rng.sample(["p", "q", "r"], rng.randint(0, 2)):
                ty = rng.choice(["int", "str"])
                n = {"k": "leaf", "ty": ty, "req": rng.random() < 0.25}
                if not n["req"]:
                    n["def"] = {"int": 2, "str": "s0"}[ty]
                ps.append([pn, n])
            ps.sort(key=lambda kv: 0 if kv[1]["req"] else 1)
            classes.append(["Sub%d%s" % (counter[0], "ab"[i]), ps])
        node = {"k": "class", "req": rng.random() < 0.7, "base": b, "classes": classes, "concrete": False}
        if rng.random() < 0.7:
            node["via"] = "subclass_group"
        f = {"name": name, "ty": "cls", "node": node}
        if not node["req"]:
            f["def"] = None
        out.append(f)
    out.sort(key=lambda f: 1 if "def" in f else 0)
    return out


def cls_nodes(fields):
    out = []
    for f in fields:
        if f["ty"] == "cls":
            out.append([f["name"], f["node"]])
        else:
            out.extend(as_nodes([f]))
    return out


def cls_source(fields):
    nodes = cls_nodes(fields)
    out = []
    for _, n in nodes:
        if n["k"] == "class":
            base.emit_node(n, out)          # the base and its subclasses: once
    lines = ["@dataclass", "class DC1:"]
    for name, n in nodes:
        lines.append("    %s: %s%s" % (name, base.ty_expr(n), base.default_code(n, True)))
    out.append("\n".join(lines))
    out.append(base.plain_class("PG1", None, nodes))
    return "import abc\nfrom dataclasses import dataclass, field\nfrom typing import Dict, List, Literal, Optional, Tuple\n\n\n" + "\n\n\n".join(out) + "\n"


def cls_modname(fields):
    return "c07m_" + hashlib.sha1(cls_source(fields).encode()).hexdigest()[:12]


def cls_module(fields):
    src = cls_source(fields)
    modname = cls_modname(fields)
    if modname not in sys.modules:
        with open(os.path.join(base.gen_dir(), modname + ".py"), "w") as f:
            f.write(src)
        importlib.invalidate_caches()
    return importlib.import_module(modname), src


def cls_pools(f, modname):
    node = f["node"]
    good_n, bad_n = [], [3, "nomod.Nothing", True, {"init_args": {"p": 1}}]
    for cname, ps in node["classes"]:
        path = "%s.%s" % (modname, cname)
        ia = {pn: ({"int": 5, "str": "w"}[n["ty"]]) for pn, n in ps}
        req = {pn: v for pn, v in ia.items() if dict(ps)[pn]["req"]}
        if not req:
            good_n += [path, {"class_path": path}]
        else:
            bad_n += [path, {"class_path": path}]              # a required parameter of the class is missing
        good_n += [{"class_path": path, "init_args": ia}, {"class_path": path, "init_args": req}]
        bad_n += [{"class_path": path, "init_args": dict(ia, zz9=1)}]
    if not node["req"]:
        good_n.append(None)
    else:
        bad_n.append(None)
    as_raw = lambda v: v if isinstance(v, str) else json.dumps(v)
    return {"good_native": good_n, "bad_native": bad_n, "good_raw": [as_raw(v) for v in good_n], "bad_raw": [as_raw(v) for v in bad_n]}


def build_four_cls(key, fields):
    from jsonargparse import ActionConfigFile, ActionParser, ArgumentParser

    nodes = cls_nodes(fields)
    mod, src = cls_module(fields)

    def plain(parser, prefix):
        for name, n in nodes:
            if n["k"] == "class" and n.get("via") == "subclass_group":
                parser.add_subclass_arguments(getattr(mod, n["base"]), prefix + name, required=bool(n["req"]))
            elif n["k"] == "class":
                kw = {"required": True} if n["req"] else {"default": None}
                parser.add_argument("--" + prefix + name, type=base.py_type(n, mod), **kw)
            else:
                parser.add_argument("--" + prefix + name, type=base.py_type(n, mod), **plain_kwargs(n))

    parsers = {}
    for st in STYLES:
        p = ArgumentParser(exit_on_error=False, env_prefix="APP", default_env=False)
        p.add_argument("--cfg", action=ActionConfigFile)
        if st == "dotted":
            plain(p, key + ".")
        elif st == "dataclass":
            p.add_argument("--" + key, type=mod.DC1)
        elif st == "class":
            p.add_class_arguments(mod.PG1, key)
        else:
            inner = ArgumentParser(exit_on_error=False)
            plain(inner, "")
            p.add_argument("--" + key, action=ActionParser(parser=inner))
        parsers[st] = p
    return parsers, src


def cls_inputs(rng, key, fields, n):
    """generated inputs plus, for every class-typed member, the inputs that omit it, null it and give only the other members"""
    modname = cls_modname(fields)
    inputs = [{"mode": "argv", "argv": [], "env": {}, "tree": None}, {"mode": "object", "argv": [], "env": {}, "tree": {}}]
    others = {}
    for f in fields:
        if f["ty"] != "cls":
            others[f["name"]] = {"int": 1, "str": "hello", "bool": True, "float": 1.5, "optInt": 4, "listInt": [1, 2]}[f["ty"]]
    for f in fields:
        if f["ty"] != "cls":
            continue
        good = cls_pools(f, modname)["good_native"]
        rest = dict(others)
        for g in fields:
            if g["ty"] == "cls" and g is not f:
                rest[g["name"]] = copy.deepcopy(cls_pools(g, modname)["good_native"][-1] if g["node"]["req"] else cls_pools(g, modname)["good_native"][0])
        inputs.append({"mode": "object", "argv": [], "env": {}, "tree": {key: dict(rest)}})                       # the member omitted
        inputs.append({"mode": "string", "argv": [], "env": {}, "tree": {key: dict(rest, **{f["name"]: None})}})   # the member null
        inputs.append({"mode": "argv", "argv": ["--%s.%s=%s" % (key, k, v if isinstance(v, str) else json.dumps(v)) for k, v in rest.items()],
                       "env": {}, "tree": None})
        inputs.append({"mode": "object", "argv": [], "env": {}, "tree": {key: dict(rest, **{f["name"]: copy.deepcopy(good[0])})}})   # all given
    inputs.extend(gen_input(rng, key, fields, modname) for _ in range(n))
    return inputs


def run_cls_groups(ctx, groups, stats, origin):
    for key, fields, inputs in groups:
        try:
            parsers, _ = build_four_cls(key, fields)
        except Exception as ex:  # noqa: BLE001
            raise MachineryError("the four parsers could not be built for %r: %r" % (fields, ex))
        ctx.hist("class_member", "/".join(sorted(("required" if f["node"]["req"] else "optional") + ("-subclass_group" if f["node"].get("via") else "-argument")
                                               for f in fields if f["ty"] == "cls")))
        run_group(ctx, key, fields, inputs, parsers, None, stats, origin)


# ---------------------------------------------------------------- recursive field lists with declared group defaults
# A field may itself be a group (nested dataclass / nested class arguments / nested inner parser / dotted `g.n.x` arguments), to depth 3.
# Defaults are DECLARED for groups: at the root through `default=` (a default instance for the dataclass-typed argument, a default dict
# for add_class_arguments), and for a sub-group through the default instance of the dataclass-typed parameter ("own"); the dotted and
# inner-parser styles state the resulting default on each argument.  Model: lean/Jap/Core/Styles.lean (declR, parseR).
#   node = {"name", "ty", "cls": class default, "ownv"?: value given by the enclosing sub-group's default instance, "rootv"?: value given by
#           the root default}  |  {"name", "sub": [node, ...]}
EXT_DEFAULTS = {
    "int": [0, 3, -2, 7], "str": ["s0", "w", "k"], "bool": [False, True], "float": [1.5, -0.25, 2.5],
    "optInt": [None, 4, 9], "listInt": [[], [1, 2], [3]],
    "optListInt": [None, [1, 2], []], "optLitAB": [None, "a", "b"],
}
EXT_TYPES = ["int", "str", "bool", "float", "optInt", "listInt", "optListInt", "optLitAB"]
TYEXPR = {"int": "int", "str": "str", "bool": "bool", "float": "float", "optInt": "Optional[int]", "listInt": "List[int]",
          "optListInt": "Optional[List[int]]", "optLitAB": "Optional[Literal['a', 'b']]"}


def gen_ext(rng):
    key = rng.choice(KEY_POOL)
    pool = list(NAME_POOL) + ["xx", "yy", "zed", "kk"]

    def leaf(name, in_sub):
        ty = rng.choice(EXT_TYPES)
        c = rng.choice(EXT_DEFAULTS[ty])
        n = {"name": name, "ty": ty, "cls": c}
        others = [x for x in EXT_DEFAULTS[ty] if x != c]
        if in_sub and rng.random() < 0.4:
            n["ownv"] = rng.choice(others)
        if rng.random() < 0.55:
            n["rootv"] = rng.choice([x for x in EXT_DEFAULTS[ty] if x != n.get("ownv", c)] or others)
        return n

    def fields(depth, in_sub):
        names = rng.sample(pool, rng.randint(2, 4))
        out = [leaf(n, in_sub) for n in names]
        if depth < 3 and (depth == 1 or rng.random() < 0.4):
            subname = rng.choice([x for x in pool if x not in names])
            pos = rng.randint(0, len(out) - 1)                      # at least one field follows the sub-group
            out.insert(pos, {"name": subname, "sub": fields(depth + 1, True)})
            after = [x for x in out[pos + 1:] if "sub" not in x]
            if depth == 1 and not any("rootv" in x for x in after):  # a root default declared AFTER the sub-group, differing from the class default
                x = after[0]
                x["rootv"] = [v for v in EXT_DEFAULTS[x["ty"]] if v != x["cls"]][0]
        return out

    return {"key": key, "fields": fields(1, False)}


def ext_effective(n):
    return n["rootv"] if "rootv" in n else n["ownv"] if "ownv" in n else n["cls"]


def ext_leaves(nodes, prefix=""):
    for n in nodes:
        if "sub" in n:
            yield from ext_leaves(n["sub"], prefix + n["name"] + ".")
        else:
            yield prefix + n["name"], n


def ext_module(ext):
    """dataclasses DCk (for the dataclass style and every nested group) and a plain class PG (class-arguments style)"""
    lines = ["from dataclasses import dataclass, field", "from typing import List, Literal, Optional", "", ""]
    counter = [0]

    def own_kwargs(nodes, with_root):
        """the constructor arguments of the default instance of a sub-group: its own values (and, for the root default, the root values on top)"""
        parts = []
        for n in nodes:
            if "sub" in n:
                inner = own_kwargs(n["sub"], with_root)
                if inner or with_root and any("rootv" in l for _, l in ext_leaves(n["sub"])):
                    parts.append("%s=%s(%s)" % (n["name"], n["clsname"], inner))
            else:
                if with_root and "rootv" in n:
                    parts.append("%s=%r" % (n["name"], n["rootv"]))
                elif "ownv" in n:
                    parts.append("%s=%r" % (n["name"], n["ownv"]))
        return ", ".join(parts)

    def emit_named(nodes):
        for n in nodes:
            if "sub" in n:
                emit_named(n["sub"])
                n["clsname"] = emit_flat(n["sub"])

    def emit_flat(nodes):
        counter[0] += 1
        name = "DC%d" % counter[0]
        body = ["@dataclass", "class %s:" % name]
        for n in nodes:
            if "sub" in n:
                body.append("    %s: %s = field(default_factory=lambda: %s(%s))" % (n["name"], n["clsname"], n["clsname"], own_kwargs(n["sub"], False)))
            elif isinstance(n["cls"], list):
                body.append("    %s: %s = field(default_factory=lambda: %r)" % (n["name"], TYEXPR[n["ty"]], n["cls"]))
            else:
                body.append("    %s: %s = %r" % (n["name"], TYEXPR[n["ty"]], n["cls"]))
        lines.extend(body + ["", ""])
        return name

    emit_named(ext["fields"])
    root = emit_flat(ext["fields"])
    params = []
    for n in ext["fields"]:
        if "sub" in n:
            params.append("%s: %s = %s(%s)" % (n["name"], n["clsname"], n["clsname"], own_kwargs(n["sub"], False)))
        else:
            params.append("%s: %s = %r" % (n["name"], TYEXPR[n["ty"]], n["cls"]))
    lines.extend(["class PG:", "    def __init__(self, %s):" % ", ".join(params), "        pass", ""])
    root_inst = "%s(%s)" % (root, own_kwargs(ext["fields"], True))
    lines.extend(["ROOT_DEFAULT = %s" % root_inst, "ROOT_CLASS = %s" % root, ""])
    base._COUNTER[0] += 1
    modname = "c07x_%d_%d" % (os.getpid(), base._COUNTER[0])
    src = "\n".join(lines)
    with open(os.path.join(base.gen_dir(), modname + ".py"), "w") as f:
        f.write(src)
    importlib.invalidate_caches()
    return importlib.import_module(modname), src


def ext_root_dict(nodes):
    d = {}
    for n in nodes:
        if "sub" in n:
            sd = ext_root_dict(n["sub"])
            if sd:
                d[n["name"]] = sd
        elif "rootv" in n:
            d[n["name"]] = copy.deepcopy(n["rootv"])
    return d


def build_four_ext(ext):
    from typing import List, Literal, Optional

    from jsonargparse import ActionConfigFile, ActionParser, ArgumentParser

    key = ext["key"]
    mod, src = ext_module(ext)
    pyty = {"int": int, "str": str, "bool": bool, "float": float, "optInt": Optional[int], "listInt": List[int],
            "optListInt": Optional[List[int]], "optLitAB": Optional[Literal["a", "b"]]}
    has_root = bool(ext_root_dict(ext["fields"]))
    parsers = {}
    for st in STYLES:
        p = ArgumentParser(exit_on_error=False, env_prefix="APP", default_env=False)
        p.add_argument("--cfg", action=ActionConfigFile)
        if st == "dotted":
            for path, n in ext_leaves(ext["fields"]):
                p.add_argument("--%s.%s" % (key, path), type=pyty[n["ty"]], default=copy.deepcopy(ext_effective(n)))
        elif st == "dataclass":
            if has_root:
                p.add_argument("--" + key, type=mod.ROOT_CLASS, default=copy.deepcopy(mod.ROOT_DEFAULT))
            else:
                p.add_argument("--" + key, type=mod.ROOT_CLASS)
        elif st == "class":
            if has_root:
                p.add_class_arguments(mod.PG, key, default=ext_root_dict(ext["fields"]))
            else:
                p.add_class_arguments(mod.PG, key)
        else:
            def inner_of(nodes):
                ip = ArgumentParser(exit_on_error=False)
                for n in nodes:
                    if "sub" in n:
                        ip.add_argument("--" + n["name"], action=ActionParser(parser=inner_of(n["sub"])))
                    else:
                        ip.add_argument("--" + n["name"], type=pyty[n["ty"]], default=copy.deepcopy(ext_effective(n)))
                return ip
            p.add_argument("--" + key, action=ActionParser(parser=inner_of(ext["fields"])))
        parsers[st] = p
    return parsers, src


def nest_set(d, dotted, v):
    parts = dotted.split(".")
    for s in parts[:-1]:
        d = d.setdefault(s, {})
    d[parts[-1]] = v


def gen_ext_input(rng, ext):
    key = ext["key"]
    flat = [{"name": path, "ty": n["ty"]} for path, n in ext_leaves(ext["fields"])]
    groups = sorted({".".join(f["name"].split(".")[:i]) for f in flat for i in range(1, len(f["name"].split(".")))})
    mode = rng.choice(["argv", "argv", "argv", "string", "object", "env"])
    inp = {"mode": mode, "argv": [], "env": {}, "tree": None}
    good = dict({"int": ["1", "-3", "12"], "str": ["hello", "a b"], "bool": ["true", "false"], "float": ["1.5", "2"], "optInt": ["null", "4"], "listInt": ["[1,2]", "[]", "[4]"]}, **GOOD_RAW)
    native = dict({"int": [1, -3], "str": ["hello", "w"], "bool": [True, False], "float": [1.5, 2], "optInt": [None, 4], "listInt": [[1, 2], []]}, **GOOD_NATIVE)
    bad = rng.random() < 0.25

    def some_group_json(prefix):
        g = {}
        for f in flat:
            if f["name"].startswith(prefix) and rng.random() < 0.5:
                nest_set(g, f["name"][len(prefix):], copy.deepcopy(rng.choice(NATIVE[f["ty"]] if bad else native[f["ty"]])))
        return g

    if mode == "argv":
        for f in flat:
            if rng.random() < 0.4:
                v = rng.choice(RAW[f["ty"]] if bad else good[f["ty"]])
                if f["ty"] in PLUS and rng.random() < 0.1:
                    v = rng.choice(value_files())
                inp["argv"].append("--%s.%s=%s" % (key, f["name"], v))
            if f["ty"] in PLUS and rng.random() < 0.5:
                inp["argv"].append("--%s.%s+=%s" % (key, f["name"], rng.choice(["3", "[4,5]"])))
        if rng.random() < 0.3:
            if groups and rng.random() < 0.5:
                gname = rng.choice(groups)
                inp["argv"].insert(rng.randint(0, len(inp["argv"])), "--%s.%s=%s" % (key, gname, json.dumps(some_group_json(gname + "."))))
            else:
                inp["argv"].insert(rng.randint(0, len(inp["argv"])), "--%s=%s" % (key, json.dumps(some_group_json(""))))
        if bad and rng.random() < 0.4:
            inp["argv"].append("--%s.%szz9=1" % (key, (rng.choice(groups) + ".") if groups and rng.random() < 0.6 else ""))
        # options not spelled exactly (see gen_input): an abbreviation of a leaf option - only where the options it is a prefix of are the same
        # with and without the loader options of the groups (the dotted style has none: open finding C07-dotted-whole-group) - and an unknown
        # name below the root / a sub-group whose value is a mapping
        leaf_opts, group_opts = ext_option_sets(ext)
        if inp["argv"] and rng.random() < 0.3:
            i = rng.randrange(len(inp["argv"]))
            name, _, val = inp["argv"][i].partition("=")
            k = name[2:]
            if k in leaf_opts and not k.endswith("+"):
                stem, _, last = k.rpartition(".")
                if len(last) > 1:
                    ab = stem + "." + last[:rng.randint(1, len(last) - 1)]
                    if [o for o in leaf_opts if o.startswith(ab)] == [o for o in leaf_opts + group_opts if o.startswith(ab)]:
                        inp["argv"][i] = "--%s=%s" % (ab, val)
        if rng.random() < (0.3 if bad else 0.08):
            gname = (rng.choice(groups) + ".") if groups and rng.random() < 0.6 else ""
            inp["argv"].insert(rng.randint(0, len(inp["argv"])), "--%s.%s%s=%s" % (key, gname, rng.choice(["zz9", "z"]), json.dumps(some_group_json(gname))))
        if rng.random() < 0.25:
            for f in flat:
                if rng.random() < 0.3:
                    inp["env"]["APP_%s__%s" % (key.upper(), f["name"].upper().replace(".", "__"))] = rng.choice(good[f["ty"]])
    elif mode in ("string", "object"):
        g = some_group_json("")
        if bad and rng.random() < 0.4:
            nest_set(g, ((rng.choice(groups) + ".") if groups and rng.random() < 0.6 else "") + "zz9", rng.choice([1, {}, {"q": 1}]))
        if bad and groups and rng.random() < 0.2:
            nest_set(g, rng.choice(groups), rng.choice([3, None, [1]]))
        inp["tree"] = {key: g}
    else:
        for f in flat:
            if rng.random() < 0.4:
                inp["env"]["APP_%s__%s" % (key.upper(), f["name"].upper().replace(".", "__"))] = rng.choice(RAW[f["ty"]] if bad else good[f["ty"]])
    return inp


def ext_option_sets(ext):
    """(option keys of the leaves incl. the `+` forms, option keys of the group loaders)"""
    key = ext["key"]
    leaves, groups = [], {key}
    for path, n in ext_leaves(ext["fields"]):
        leaves.append(key + "." + path)
        if n["ty"] in PLUS:
            leaves.append(key + "." + path + "+")
        parts = path.split(".")
        for i in range(1, len(parts)):
            groups.add(key + "." + ".".join(parts[:i]))
    return leaves, sorted(groups)


def ext_uses_whole(inp, ext):
    """the input assigns a group (the root group or a sub-group) as a whole: its option, or a non-mapping value in a configuration"""
    key = ext["key"]
    groups = {key} | {key + "." + ".".join(path.split(".")[:i]) for path, _ in ext_leaves(ext["fields"]) for i in range(1, len(path.split(".")))}
    if any(a[2:].split("=")[0] in groups for a in inp["argv"]):
        return True

    def walk(v, path):
        if path in groups and not isinstance(v, dict):
            return True
        return isinstance(v, dict) and any(walk(x, (path + "." if path else "") + k) for k, x in v.items())
    return walk(inp.get("tree") or {}, "")


def wire_fieldsR(nodes):
    out = []
    for n in nodes:
        if "sub" in n:
            own = [[l["name"], {"v": base.wire_val(l["ownv"])}] for l in n["sub"] if "sub" not in l and "ownv" in l]
            out.append({"name": n["name"], "declared": own, "sub": wire_fieldsR(n["sub"])})
        else:
            out.append({"name": n["name"], "ty": n["ty"], "def": base.wire_val(n["cls"])})
    return out


def wire_dmap(d):
    return [[k, {"m": wire_dmap(v)} if isinstance(v, dict) else {"v": base.wire_val(v)}] for k, v in d.items()]


def model_items_ext(inp, ext, loads):
    key = ext["key"]
    ld = dict((t, v) for t, v in loads)
    leaves = dict((key + "." + path, n) for path, n in ext_leaves(ext["fields"]))
    items = []
    for dest in leaves:                                   # environment: the arguments in declaration order
        var = "APP_" + dest.upper().replace(".", "__")
        if var in inp["env"]:
            items.append({"t": "opt", "p": dest.split("."), "plus": False, "v": inp["env"][var]})
    main = []
    leaf_opts, group_opts = ext_option_sets(ext)
    for a in inp["argv"]:
        k, _, v = a[2:].partition("=")
        if k not in group_opts:
            k = expand_abbrev(k, leaf_opts)
        plus = k.endswith("+")
        k = k[:-1] if plus else k
        if k in leaves or plus:
            main.append({"t": "opt", "p": k.split("."), "plus": plus, "v": v})
        elif any(d.startswith(k + ".") for d in leaves):
            main.append({"t": "wholeOpt", "p": k.split("."), "v": ld.get(v, v)})
        else:
            main.append({"t": "opt", "p": k.split("."), "plus": False, "v": v})
    if inp["mode"] in ("string", "object"):
        main.append({"t": "tree", "v": base.wire_val(inp["tree"])})
    return items + main


def real_table_ext(parser):
    from jsonargparse._actions import _ActionConfigLoad, filter_default_actions

    entries, wholes = [], []
    for a in filter_default_actions(parser._actions):
        if a.dest in ("cfg", "help"):
            continue
        if isinstance(a, _ActionConfigLoad):
            wholes.append(a.dest if a.option_strings == ["--" + a.dest] else "?" + repr(a.option_strings))
            continue
        entries.append({"dest": a.dest, "opts": sorted(o[2:] if o.startswith("--") else "?" + o for o in a.option_strings), "def": base.canon(a.default)})
    return {"entries": entries, "required": sorted(parser.required_args), "wholes": sorted(wholes)}


def prepare_ext(ext, inputs):
    try:
        parsers, src = build_four_ext(ext)
    except Exception as ex:  # noqa: BLE001
        raise MachineryError("the four parsers of a recursive field list could not be built for %r: %r" % (ext, ex))
    wf, wd = wire_fieldsR(ext["fields"]), wire_dmap(ext_root_dict(ext["fields"]))
    lines = [{"op": "declR", "style": st, "key": ext["key"], "D": wd, "fields": wf} for st in STYLES]
    for inp in inputs:
        loads = load_oracle(input_texts(inp))
        items = model_items_ext(inp, ext, loads)
        for st in STYLES:
            lines.append({"op": "parseR", "style": st, "key": ext["key"], "D": wd, "fields": wf, "load": loads, "items": items})
    return parsers, lines


def run_exts(ctx, exts, stats, origin):
    """`exts`: [(ext, inputs)]; one driver run for all"""
    prepared = [prepare_ext(e, i) for e, i in exts]
    lines = [l for _, ls in prepared for l in ls]
    try:
        out_all = ctx.driver("Validate", lines) if lines else []
    except MachineryError as ex:
        if ctx.lean_ok:
            raise
        ctx.tie_break("correspondence Validate (C07, recursive field lists) not runnable (model does not build)", str(ex)[:500])
        out_all = None
    pos = 0
    for (ext, inputs), (parsers, ls) in zip(exts, prepared):
        out = out_all[pos:pos + len(ls)] if out_all is not None else None
        pos += len(ls)
        run_ext(ctx, ext, inputs, parsers, out, stats, origin)


def run_ext(ctx, ext, inputs, parsers, out, stats, origin):
    key = ext["key"]
    tabs = {st: real_table_ext(parsers[st]) for st in STYLES}
    ctx.count(4)
    # --- correspondence: the model's declR vs the real action table, per style
    if out is not None:
        for i, st in enumerate(STYLES):
            m = out[i]
            mt = {"entries": [{"dest": e["dest"], "opts": sorted(e["opts"]), "def": unwire(e["def"])} for e in m.get("entries", [])],
                  "required": sorted(m.get("required", [])), "wholes": sorted(m.get("wholes", []))}
            if json.dumps(mt, sort_keys=True) != json.dumps(tabs[st], sort_keys=True):
                stats["disagree"] += 1
                ctx.tie_break("action table of the real %s-style parser differs from the model's declR (recursive fields, declared defaults)" % st,
                              json.dumps({"real": tabs[st], "model": mt, "ext": ext}, default=repr)[:1900])
    # --- oracle on the tables: same dests / option strings / defaults / required in the four styles, same group options in the three
    for st in STYLES[1:]:
        a, b = dict(tabs["dotted"], wholes=None), dict(tabs[st], wholes=None)
        if json.dumps(a, sort_keys=True) != json.dumps(b, sort_keys=True):
            diff = [(x, y) for x, y in zip(a["entries"], b["entries"]) if x != y][:3]
            ctx.violation("the %s style declares different defaults / options than the dotted style for a group with nested sub-groups and declared "
                          "group defaults: %s" % (st, json.dumps(diff, default=repr)[:300]),
                          {"kind": "ext", "ext": ext, "input": {"mode": "argv", "argv": [], "env": {}, "tree": None}})
            stats["violations"] += 1
        if st != "dataclass" and tabs[st]["wholes"] != tabs["dataclass"]["wholes"]:
            ctx.violation("the %s style has other whole-group options than the dataclass style: %s vs %s" % (st, tabs[st]["wholes"], tabs["dataclass"]["wholes"]),
                          {"kind": "ext", "ext": ext, "input": {"mode": "argv", "argv": [], "env": {}, "tree": None}})
            stats["violations"] += 1
    fields = [{"name": path, "ty": n["ty"], "def": ext_effective(n)} for path, n in ext_leaves(ext["fields"])]
    pos = len(STYLES)
    for inp in inputs:
        results = {st: run_input(parsers[st], inp) for st in STYLES}
        ctx.count(4)
        ctx.hist("mode", "rec-" + inp["mode"])
        ctx.hist("verdict", "/".join(results[st][0] for st in STYLES))
        if results["dataclass"][0] == "ok":
            ctx.nontrivial(json.dumps(["rec", ext, inp], sort_keys=True, default=repr))
        judge(ctx, key, fields, inp, results, stats, origin, ext=ext)
        if out is not None:
            for st in STYLES:
                d = compare_model(st, out[pos], results[st])
                pos += 1
                if st == "dotted" and ext_uses_whole(inp, ext):
                    d = None      # abbreviation matching / the open finding class decide for the dotted style
                if d is not None and d.startswith("dump differs") and ext_uses_whole(inp, ext):
                    d = None
                if d is not None:
                    stats["disagree"] += 1
                    ctx.tie_break("correspondence Validate (parseR vs the real %s-style parser, recursive fields) disagrees: %s" % (st, d[:160]),
                                  json.dumps({"d": d, "style": st, "input": inp, "ext": ext}, default=repr)[:1900])
                    if os.environ.get("C07_DEBUG"):
                        with open(os.environ["C07_DEBUG"], "a") as f:
                            f.write(json.dumps({"d": d, "style": st, "input": inp, "ext": ext, "model": out[pos - 1], "real": list(results[st])}, default=repr) + "\n")


def run(ctx: Ctx):
    repo_python_path()
    value_files()
    ctx.rule = ("(a) flat field lists of 1-4 fields over {int,str,bool,float,Optional[int],List[int]} with/without defaults, declared in the four styles as real "
                "parsers; per field list a mix of inputs over {argv dotted options, `+` appends, whole-group JSON option, --cfg JSON at a random position, "
                "config string, object, environment variables incl. the whole-group variable}, valid and invalid (wrong types, unknown keys, missing "
                "required, non-mapping group); compared: as_dict()/ArgumentError and dump text across the four styles and with the model; "
                "(b) recursive field lists (sub-groups to depth 3, never the last field) with group defaults declared at the root (default instance / default "
                "dict) and through the default instances of dataclass-typed parameters, inputs incl. sub-group options and nested trees; both through "
                "the model (tables and results) and the oracle; (c) field lists with 1-2 class-typed members (abstract base, 1-2 subclasses; required or Optional; declared in the "
                "dotted / inner styles with add_subclass_arguments(required=...) or add_argument(type=Base)) on the real code: tables of the four parsers, inputs giving / "
                "omitting / nulling the member; non-trivial = an input accepted with a non-empty group; distinct by canonical JSON of (key, fields, input)")
    ctx.assumptions = [
        "recursive field lists: every leaf has a class default (a default instance needs one); declared defaults are given for the root group and "
        "through the default instances of dataclass-typed parameters; a root default instance is built with the sub-groups' own values merged in",
        "the YAML loader is an oracle: every text occurring in an input is loaded by jsonargparse's load_value and handed to the model",
        "field names do not start with '_'; an Optional[...] field without default is stated as default=None on the plain arguments of the dotted / inner styles",
        "the order of parameters is the same in the four declarations (parameters without default first)",
    ]
    ctx.lean_build(extractors=["set_defaults_loop", "signature_optional", "move_parser_required", "argv_item_route"])
    stats = {"violations": 0, "known": 0, "disagree": 0}
    from ..lib import corpus as corpus_mod

    corpus_all = corpus_mod.load(ctx.prop)
    corp = [(c["key"], c["fields"], c["inputs"]) for c in corpus_all if "fields" in c]
    if corp:
        run_groups(ctx, corp, stats, "corpus")
    # field lists with a class-typed member (real code only)
    corp_cls = [(c["key"], c["clsfields"], c["inputs"]) for c in corpus_all if "clsfields" in c]
    if corp_cls:
        run_cls_groups(ctx, corp_cls, stats, "corpus")
    cls_groups = []
    for gi in range(ctx.budget(12, 150)):
        key = ctx.rng.choice(KEY_POOL)
        fields = gen_cls_fields(ctx.rng)
        cls_groups.append((key, fields, cls_inputs(ctx.rng, key, fields, ctx.budget(6, 16))))
        if gi == 0:
            ctx.sample({"class_member": {"key": key, "fields": fields}})
    run_cls_groups(ctx, cls_groups, stats, "generated")
    ctx.extra["class_member_field_lists"] = len(corp_cls) + len(cls_groups)
    n_ext = 0
    corp_ext = [(c["ext"], c["inputs"]) for c in corpus_all if "ext" in c]
    if corp_ext:
        run_exts(ctx, corp_ext, stats, "corpus")
        n_ext += len(corp_ext)
    t_ext = ctx.elapsed()
    n_gen = ctx.budget(40, 500)
    for g0 in range(0, n_gen, 20):
        exts = []
        for _ in range(min(20, n_gen - g0)):
            ext = gen_ext(ctx.rng)
            exts.append((ext, [{"mode": "argv", "argv": [], "env": {}, "tree": None}] + [gen_ext_input(ctx.rng, ext) for _ in range(ctx.budget(8, 16))]))
        if g0 == 0:
            ctx.sample({"recursive": exts[0][0]})
        run_exts(ctx, exts, stats, "generated")
        n_ext += len(exts)
        if ctx.elapsed() - t_ext > ctx.budget(25, 300):
            break
    ctx.extra["recursive_field_lists"] = n_ext
    n_groups = ctx.budget(80, 1200) * (2 if ctx.search_boost > 1 else 1)
    n_inputs = ctx.budget(25, 40)
    chunk = ctx.budget(20, 50)
    done = 0
    for g0 in range(0, n_groups, chunk):
        groups = []
        for gi in range(g0, min(g0 + chunk, n_groups)):
            key = ctx.rng.choice(KEY_POOL)
            fields = gen_fields(ctx.rng)
            inputs = [gen_input(ctx.rng, key, fields) for _ in range(n_inputs)]
            groups.append((key, fields, inputs))
            if gi < 3:
                ctx.sample({"key": key, "fields": fields, "input": inputs[0]})
        run_groups(ctx, groups, stats, "generated")
        done += len(groups)
        if ctx.elapsed() > ctx.budget(70, 700) and done < n_groups:
            ctx.extra["stopped_early_after_groups"] = done
            break
    # --- replay of catalogued findings
    for f in ctx.open_findings():
        w = f["witness"]
        parsers, _ = build_four_cls(w["key"], w["clsfields"]) if "clsfields" in w else build_four(w["key"], w["fields"])
        res = {st: run_input(parsers[st], w["input"]) for st in STYLES}
        ctx.count(4)
        ref = res["dataclass"]
        if any(res[st][0] != ref[0] or (ref[0] == "ok" and res[st][1:] != ref[1:]) for st in STYLES):
            ctx.known(f["id"], f["description"])
        else:
            ctx.stale_findings.append(f["id"])
    ctx.extra["field_lists"] = done
    ctx.extra["correspondence_disagreements"] = stats["disagree"]
    ctx.extra["inputs_in_known_class"] = stats["known"]


def replay(ctx: Ctx, body):
    repo_python_path()
    value_files()
    r = body["replay"]
    if r.get("kind") == "table":
        parsers, src = build_four(r["key"], r["fields"])
        tabs = {st: real_table(parsers[st], r["key"]) for st in STYLES}
        bad = 0
        for st in STYLES:
            print(st, json.dumps(tabs[st], default=repr))
            if json.dumps(dict(tabs[st], whole=None), sort_keys=True) != json.dumps(dict(tabs["dotted"], whole=None), sort_keys=True):
                bad = 1
        return bad
    if r.get("kind") == "ext":
        parsers, src = build_four_ext(r["ext"])
        print("generated module:\n" + src)
        print("leaves (path, effective default, class default):", json.dumps([[pth, ext_effective(n), n["cls"]] for pth, n in ext_leaves(r["ext"]["fields"])]))
        print("input:", json.dumps(r["input"]))
        res = {st: run_input(parsers[st], r["input"]) for st in STYLES}
        for st in STYLES:
            print("%-10s %s" % (st, summary(res[st])))
        ref = res["dataclass"]
        differ = [st for st in STYLES if res[st][0] != ref[0] or (ref[0] == "ok" and res[st][1:] != ref[1:])]
        if differ == ["dotted"] and ext_uses_whole(r["input"], r["ext"]) and ctx.is_open(F_WHOLE):
            print("the only difference falls into the open known finding class", F_WHOLE, "(not a new violation)")
            return 0
        return 1 if differ or any(res[st][0] == "exc" for st in STYLES) else 0
    if r.get("kind") != "styles":
        print("nothing to replay (broken tie without a failing input):", json.dumps(r, default=repr)[:1500])
        return 1
    parsers, src = build_four(r["key"], r["fields"])
    print("generated module:\n" + src)
    print("input:", json.dumps(r["input"]))
    res = {st: run_input(parsers[st], r["input"]) for st in STYLES}
    for st in STYLES:
        print("%-10s %s" % (st, summary(res[st])))
    ref = res["dataclass"]
    differ = [st for st in STYLES if res[st][0] != ref[0] or (ref[0] == "ok" and res[st][1:] != ref[1:])]
    if any(res[st][0] == "exc" for st in STYLES):
        return 1
    if differ == ["dotted"] and uses_whole(r["input"], r["key"]) and ctx.is_open(F_WHOLE):
        print("the only difference falls into the open known finding class", F_WHOLE, "(not a new violation)")
        return 0
    return 1 if differ else 0

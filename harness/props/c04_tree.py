"""C04, second part — subcommand levels and the `default_env` switch: HISTORIES ON ONE PARSER TREE.

A tree spec builds a real tree of ArgumentParsers (root -> 1-2 subcommands -> ... up to three levels below the root, built
in level order as the library demands).  A history is a list of steps on that one tree: assignments to the public
`default_env` property of some parser of the tree (under a value of JSONARGPARSE_DEFAULT_ENV) and parses
(`root.parse_args` along a path of subcommands with options at every level, `root.parse_object` with nested sections).
Every parse is judged by an independent reference fold over the sources of every level (source defaults, environment
variables, command line items left to right, a `--cfg` of the root at its position, sections for inner levels included),
and compared with the Lean model (`parseTree` of Core/SourcesSub.lean: the model's own setter decides which parser reads
the environment).
"""
from __future__ import annotations

import copy
import json
import os

from ..lib.common import MachineryError

SUB_NAMES = [["s1", "x1"], ["s2", "t2"], ["s3", "u3"]]
DESTS = ["n", "m", "k", "l", "d", "g.l", "g.o", "h.s"]
OS_VALUES = [None, None, None, "true", "false", "TRUE", "yes", ""]
FINDING_SECTION_APPEND = "C04-subsection-append"
FINDING_DCF_SECTION = "C04-subdcf-section-over-env"


def B():
    from . import c04

    return c04


# ---------------------------------------------------------------- spec
def gen_node(rng, depth, max_depth, with_cfg=False):
    b = B()
    n = rng.randint(1, 3)
    args = []
    for d in rng.sample(DESTS, n):
        t = rng.choice(b.TYPES)
        if d.endswith("l"):
            t = "list" if rng.random() < 0.8 else t
        if d == "d":
            t = "dict" if rng.random() < 0.8 else t
        a = {"dest": d, "type": t}
        if rng.random() < 0.85:
            a["default"] = b.gen_value(rng, t)
        args.append(a)
    if with_cfg:
        args.insert(rng.randint(0, len(args)), {"dest": "cfg", "type": "config"})
    node = {"args": args, "ctor_env": rng.random() < 0.5, "subs": []}
    if depth < max_depth:
        names = SUB_NAMES[depth]
        for name in (names if rng.random() < 0.6 else names[:1]):
            node["subs"].append([name, gen_node(rng, depth + 1, max_depth if rng.random() < 0.9 else depth + 1)])
    return node


def gen_tree_spec(rng, idx=0):
    b = B()
    combo = b.ENV_COMBOS[idx % len(b.ENV_COMBOS)]
    return {
        "env_prefix": rng.choice(["APP", "APP", "my-app", None]),
        "default_env": combo[0] if rng.random() < 0.5 else False,
        "os_default_env": combo[1] if rng.random() < 0.3 else None,
        "root": gen_node(rng, 0, rng.choice([1, 2, 2, 3, 3]), with_cfg=rng.random() < 0.7),
    }


def node_at(spec, path):
    node = spec["root"]
    for name in path:
        node = dict(node["subs"])[name]
    return node


def all_paths(node, pre=()):
    out = [pre]
    for name, child in node["subs"]:
        out += all_paths(child, pre + (name,))
    return out


def leaf_paths(node, pre=()):
    if not node["subs"]:
        return [pre]
    out = []
    for name, child in node["subs"]:
        out += leaf_paths(child, pre + (name,))
    return out


def arg_at(spec, full):
    """(argument, path depth) of a dotted FULL key such as s1.s2.g.l, following subcommand names first"""
    node, segs, d = spec["root"], full.split("."), 0
    while True:
        rest = ".".join(segs[d:])
        for a in node["args"]:
            if a["dest"] == rest:
                return a, d
        subs = dict(node["subs"])
        if d < len(segs) and segs[d] in subs:
            node = subs[segs[d]]
            d += 1
        else:
            return None, d


def env_name(spec, full):
    """documented rule: PREFIX_LEV__OPT upper-cased, subcommand names are levels"""
    pre = spec.get("env_prefix")
    return ((pre.replace("-", "_") + "_" if pre is not None else "") + full).replace(".", "__").upper()


def eff(os_value, value):
    v = (os_value or "").lower()
    return v == "true" if v in ("true", "false") else value


# ---------------------------------------------------------------- histories
def gen_items(rng, node, n):
    b = B()
    real_args = [a for a in node["args"] if a["type"] != "config"]
    items = []
    for _ in range(n):
        a = rng.choice(real_args)
        r = rng.random()
        form = rng.choice(["eq", "sp"])
        if a["type"] in b.APPENDABLE and r < 0.6:
            v = b.gen_value(rng, "list", small=True) if rng.random() < 0.4 else rng.randint(0, 30)
            items.append({"t": "append", "k": a["dest"], "v": v, "form": form})
        elif a["type"] == "dict" and r < 0.6:
            items.append({"t": "item", "k": a["dest"], "i": rng.choice(b.ITEM_NAMES), "v": rng.randint(0, 30), "form": form})
        else:
            items.append({"t": "set", "k": a["dest"], "v": b.gen_value(rng, a["type"]), "form": form})
    return items


def gen_sections(rng, spec, path, allow_append):
    """a config mapping of the root with sections for the levels of the chosen path (plain keys; `key+` when allowed)"""
    b = B()
    tree, has_inner, has_append = {}, False, False
    for d in range(len(path) + 1):
        node = node_at(spec, path[:d])
        cur = tree
        for name in path[:d]:
            cur = cur.setdefault(name, {})
        for a in node["args"]:
            if a["type"] == "config" or rng.random() < (0.5 if d == 0 else 0.65):
                continue
            v = b.gen_value(rng, a["type"])
            key = a["dest"]
            if a["type"] in b.APPENDABLE and allow_append and rng.random() < 0.4:
                key, v = key + "+", (v or [rng.randint(0, 30)])
                has_append = has_append or d > 0
            b.put(cur, key, v, "nested")
            has_inner = has_inner or d > 0
    return tree, has_inner, has_append


def gen_parse(rng, spec):
    b = B()
    path = list(rng.choice(leaf_paths(spec["root"])))
    case = {"path": path, "argv": [], "env_vars": {}, "method": "args" if rng.random() < 0.85 else "object"}
    if rng.random() < 0.1:
        case["defaults"] = False
    if rng.random() < 0.25:
        case["env_arg"] = rng.random() < 0.6
    for d in range(len(path) + 1):
        node = node_at(spec, path[:d])
        pre = ".".join(path[:d]) + "." if d else ""
        for a in node["args"]:
            if a["type"] != "config" and rng.random() < 0.55:
                case["env_vars"][pre + a["dest"]] = "" if a["type"] == "str" and rng.random() < 0.15 else b.gen_value(rng, a["type"])
        case["argv"].append(gen_items(rng, node, rng.choice([0, 0, 1, 1, 2, 3])) if case["method"] == "args" else [])
    # decoys: variables of parsers that are not on the chosen path must play no role
    for p in all_paths(spec["root"]):
        if list(p) != path[:len(p)]:
            for a in node_at(spec, p)["args"]:
                if rng.random() < 0.5:
                    case["env_vars"][".".join(p) + "." + a["dest"]] = b.gen_value(rng, a["type"])
    has_cfg = any(a["type"] == "config" for a in spec["root"]["args"])
    if case["method"] == "args" and has_cfg and rng.random() < 0.3:
        tree, inner, app = gen_sections(rng, spec, path, allow_append=rng.random() < 0.3)
        if tree:
            case["argv"][0].insert(rng.randint(0, len(case["argv"][0])), {"t": "cfg", "k": "cfg", "tree": tree, "via": rng.choice(["string", "file"]), "form": "eq"})
            case["sections"] = inner
    # the variable that NAMES the subcommand (PREFIX_SUBCOMMAND, PREFIX_S1__SUBCOMMAND): an assignment to the subcommand key in the
    # environment layer; a name on the command line comes later and wins
    if case["method"] == "args" and path and rng.random() < 0.3:
        mode = rng.choice(["same", "other", "instead"])
        case["env_sub"] = {}
        if mode == "instead":  # the last levels are chosen by the environment alone
            depth = rng.randint(0, len(path) - 1)
            case["argv_depth"] = depth
            case["env_arg"] = True
            for d in range(depth, len(path)):
                case["env_sub"][".".join(path[:d])] = path[d]
                case["argv"][d + 1] = []
        for d in range(len(path)):
            pre = ".".join(path[:d])
            if pre in case["env_sub"] or rng.random() < 0.4:
                continue
            names = [n for n, _ in node_at(spec, path[:d])["subs"]]
            others = [n for n in names if n != path[d]]
            case["env_sub"][pre] = rng.choice(others) if mode == "other" and others else path[d]
    if case["method"] == "object":
        tree, _, _ = gen_sections(rng, spec, path, allow_append=False)
        cur = tree
        for name in path:  # the subcommand is named explicitly at every level
            cur["subcommand"] = name
            cur = cur.setdefault(name, {})
        case["tree"] = tree
    return case


def gen_history(rng, spec):
    """setter calls (mostly on the root, after the tree is built) interleaved with parses on the same objects"""
    paths = all_paths(spec["root"])
    hist = []
    for _ in range(rng.choice([2, 3, 3, 4, 5])):
        r = rng.random()
        if r < 0.45:
            p = [] if rng.random() < 0.7 else list(rng.choice(paths))
            hist.append({"op": "set", "path": p, "os": rng.choice(OS_VALUES), "value": rng.random() < 0.65})
        hist.append({"op": "parse", "case": gen_parse(rng, spec)})
    return hist


# ---------------------------------------------------------------- the real tree
class _OsVar:
    def __init__(self, name, value):
        self.name, self.value = name, value

    def __enter__(self):
        self.saved = os.environ.get(self.name)
        if self.value is None:
            os.environ.pop(self.name, None)
        else:
            os.environ[self.name] = self.value

    def __exit__(self, *exc):
        if self.saved is None:
            os.environ.pop(self.name, None)
        else:
            os.environ[self.name] = self.saved


def _add_args(parser, node):
    from jsonargparse import ActionConfigFile

    b = B()
    for a in node["args"]:
        if a["type"] == "config":
            parser.add_argument("--" + a["dest"], action=ActionConfigFile)
        elif "default" in a:
            parser.add_argument("--" + a["dest"], type=b.py_type(a["type"]), default=copy.deepcopy(a["default"]))
        else:
            parser.add_argument("--" + a["dest"], type=b.py_type(a["type"]))


def _dcf(node, path, root_dir):
    """default_config_files of a parser of the tree: node["dcf"] is the content of its one default config file"""
    if root_dir is None or node.get("dcf") is None:
        return []
    d = os.path.join(root_dir, "dcf_tree")
    os.makedirs(d, exist_ok=True)
    f = os.path.join(d, "_".join(("root",) + tuple(path)) + ".json")
    with open(f, "w") as fh:
        fh.write(json.dumps(node["dcf"]))
    return [f]


def build_tree(spec, root_dir=None):
    """{path tuple: parser}; sub-parsers are added in level order"""
    from jsonargparse import ArgumentParser

    with _OsVar("JSONARGPARSE_DEFAULT_ENV", spec.get("os_default_env")):
        root = ArgumentParser(prog="app", exit_on_error=False, default_env=spec["default_env"], default_config_files=_dcf(spec["root"], (), root_dir),
                              env_prefix=spec["env_prefix"] if spec.get("env_prefix") is not None else False)
        _add_args(root, spec["root"])
        parsers = {(): root}
        queue = [((), root, spec["root"])]
        while queue:
            path, parser, node = queue.pop(0)
            if not node["subs"]:
                continue
            sc = parser.add_subcommands()
            for name, child in node["subs"]:
                cp = ArgumentParser(exit_on_error=False, default_env=bool(child.get("ctor_env")),
                                    default_config_files=_dcf(child, path + (name,), root_dir))
                _add_args(cp, child)
                sc.add_subcommand(name, cp)
                parsers[path + (name,)] = cp
                queue.append((path + (name,), cp, child))
    return parsers


def _render_items(spec, path_d, items, root_dir, tmpn):
    b = B()
    node = node_at(spec, path_d)
    out = []
    for it in items:
        if it["t"] == "cfg":
            if it["via"] == "file":
                tmpn[0] += 1
                val = os.path.join(root_dir, "cfg", "t%d.json" % tmpn[0])
                with open(val, "w") as f:
                    f.write(json.dumps(it["tree"]))
            else:
                val = json.dumps(it["tree"])
            opt = "--" + it["k"]
        else:
            typ = next((a["type"] for a in node["args"] if a["dest"] == it["k"]), "int")
            if it["t"] == "set":
                opt, val = "--" + it["k"], b.render(it["v"], typ)
            elif it["t"] == "append":
                opt, val = "--" + it["k"] + "+", json.dumps(it["v"])
            else:
                opt, val = "--" + it["k"] + "." + it["i"], json.dumps(it["v"])
        if it.get("form") == "sp" and not val.startswith("-"):
            out += [opt, val]
        else:
            out.append(opt + "=" + val)
    return out


def flat_result(ns):
    b = B()
    out = {}
    for k, v in ns.items():
        if k.startswith("__") or ".__" in k:
            continue
        if k == "cfg" and isinstance(v, list):
            out[k] = [None for _ in v]
        else:
            out[k] = b.canon_value(v)
    return out


def run_parse(parsers, spec, case, root_dir):
    from jsonargparse import ArgumentError

    b = B()
    env = {}
    for full, v in case.get("env_vars", {}).items():
        a, _ = arg_at(spec, full)
        env[env_name(spec, full)] = b.render(v, a["type"])
    for pre, name in case.get("env_sub", {}).items():
        env[env_name(spec, (pre + "." if pre else "") + "subcommand")] = name
    tmpn = [0]
    argv = []
    for d, items in enumerate(case["argv"][: case.get("argv_depth", len(case["path"])) + 1]):
        if d:
            argv.append(case["path"][d - 1])
        argv += _render_items(spec, case["path"][:d], items, root_dir, tmpn)
    kw = {}
    if not case.get("defaults", True):
        kw["defaults"] = False
    if case.get("env_arg") is not None:
        kw["env"] = case["env_arg"]
    saved = {k: os.environ.get(k) for k in env}
    root = parsers[()]
    try:
        os.environ.update(env)
        try:
            if case["method"] == "args":
                ns = root.parse_args(argv, **kw)
            else:
                ns = root.parse_object(copy.deepcopy(case["tree"]), **kw)
            return "ok", flat_result(ns)
        except ArgumentError as ex:
            return "error", str(ex).split("\n")[0][:200]
        except (SystemExit, TypeError, KeyError, ValueError, AttributeError, IndexError) as ex:
            return "error", "%s: %s" % (type(ex).__name__, str(ex)[:200])
    finally:
        for k, v in saved.items():
            if v is None:
                os.environ.pop(k, None)
            else:
                os.environ[k] = v
        for name in os.listdir(os.path.join(root_dir, "cfg")):
            os.unlink(os.path.join(root_dir, "cfg", name))


def run_history(spec, hist, root_dir):
    """[(step index, real result, real flags along the path)] for the parse steps, on ONE freshly built tree"""
    parsers = build_tree(spec, root_dir)
    out = []
    for i, st in enumerate(hist):
        if st["op"] == "set":
            with _OsVar("JSONARGPARSE_DEFAULT_ENV", st.get("os")):
                parsers[tuple(st["path"])].default_env = st["value"]
        else:
            case = st["case"]
            flags = [bool(parsers[tuple(case["path"][:d])].default_env) for d in range(len(case["path"]) + 1)]
            out.append((i, run_parse(parsers, spec, case, root_dir), flags))
    return out


# ---------------------------------------------------------------- the oracle (independent of the model)
def expected_flags(spec, hist, upto):
    """what the documentation promises for the switch: assigning `default_env` on a parser applies to that parser and
    everything below it; JSONARGPARSE_DEFAULT_ENV = true/false takes precedence; a tree starts with the root's setting"""
    paths = all_paths(spec["root"])
    start = eff(spec.get("os_default_env"), spec["default_env"])
    flags = {p: start for p in paths}
    for st in hist[:upto]:
        if st["op"] == "set":
            v = eff(st.get("os"), st["value"])
            for p in paths:
                if list(p[:len(st["path"])]) == list(st["path"]):
                    flags[p] = v
    return flags


def flatten_sections(spec, tree, pre=""):
    """assignments of a root config: plain keys, then `key+` keys; a dict below a key that is no argument is a section"""
    sets, apps = [], []
    for k, v in tree.items():
        full = pre + k
        if full.endswith("+") and arg_at(spec, full[:-1])[0] is not None:
            apps.append(("append", full[:-1], v))
        elif arg_at(spec, full)[0] is not None or not isinstance(v, dict):
            sets.append(("set", full, v))
        else:
            s2, a2 = flatten_sections(spec, v, full + ".")
            sets += s2
            apps += a2
    return (sets, apps) if pre else sets + apps


def flatten_case(spec, case, env_on):
    path = case["path"]
    out = []
    for d in range(len(path) + 1):
        node = node_at(spec, path[:d])
        pre = ".".join(path[:d]) + "." if d else ""
        if case.get("defaults", True):
            for a in node["args"]:
                out.append(("set", pre + a["dest"], a.get("default")))
        if node["subs"]:
            out.append(("set", pre + "subcommand", path[d]))
    for d in range(len(path) + 1):  # default config files: after the source defaults of every level, before the environment
        node = node_at(spec, path[:d])
        pre = ".".join(path[:d]) + "." if d else ""
        if case.get("defaults", True) and node.get("dcf") is not None:
            out += [(op, pre + k, v) for op, k, v in _rel_sections(spec, path[:d], node["dcf"])]
    for d in range(len(path) + 1):
        node = node_at(spec, path[:d])
        pre = ".".join(path[:d]) + "." if d else ""
        if env_on:
            for a in node["args"]:
                if a["type"] != "config" and pre + a["dest"] in case.get("env_vars", {}):
                    out.append(("set", pre + a["dest"], case["env_vars"][pre + a["dest"]]))
    if case["method"] == "args":
        for d, items in enumerate(case["argv"]):
            pre = ".".join(path[:d]) + "." if d else ""
            for it in items:
                if it["t"] == "cfg":
                    out += flatten_sections(spec, it["tree"])
                    out.append(("note", "cfg", None))
                elif it["t"] == "item":
                    out.append(("item", pre + it["k"], (it["i"], it["v"])))
                else:
                    out.append((it["t"], pre + it["k"], it["v"]))
    else:
        out += flatten_sections(spec, case["tree"])
    return out


def _rel_sections(spec, path_d, tree):
    """assignments of a config of the parser at path_d, keys relative to that parser"""
    pre = ".".join(path_d) + "." if path_d else ""
    wrapped = tree
    for name in reversed(path_d):
        wrapped = {name: wrapped}
    return [(op, k[len(pre):], v) for op, k, v in flatten_sections(spec, wrapped)]


def dcf_section_env_keys(spec, case, env_on):
    """signature of the open finding: keys of an inner level that a default config file of an OUTER parser of the path sets in a
    section and that also have an environment variable which is read"""
    out = set()
    if not env_on or not case.get("defaults", True):
        return out
    path = case["path"]
    for d in range(len(path) + 1):
        node = node_at(spec, path[:d])
        pre = ".".join(path[:d]) + "." if d else ""
        if node.get("dcf") is not None:
            for op, k, v in _rel_sections(spec, path[:d], node["dcf"]):
                if arg_at(spec, pre + k)[1] > d and pre + k in case.get("env_vars", {}):
                    out.add(pre + k)
    return out


def section_append_keys(spec, case):
    """signature of the open finding: the keys of inner levels that receive a `key+` entry from a config given to the ROOT"""
    out = set()
    for items in case["argv"][:1]:
        for it in items:
            if it["t"] == "cfg":
                out |= {k for op, k, _ in flatten_sections(spec, it["tree"]) if op == "append" and arg_at(spec, k)[1] > 0}
    return out


def oracle(spec, hist, i, real, real_flags):
    """None | (known finding id or False, description); parses in a state where the documentation does not say which parser
    reads the environment (flags differ along the path after a setter call on an inner parser, no `env=`) are not judged"""
    b = B()
    case = hist[i]["case"]
    flags = expected_flags(spec, hist, i)
    along = [flags[tuple(case["path"][:d])] for d in range(len(case["path"]) + 1)]
    if case.get("env_arg") is not None:
        env_on = case["env_arg"]
    elif len(set(along)) == 1:
        env_on = along[0]
    else:
        return None
    status, got = real
    want = {k: b.enc(v) for k, v in b.ref_fold(flatten_case(spec, case, env_on)).items()}
    if status == "ok" and got == want:
        return None
    targets = section_append_keys(spec, case)
    if targets and status == "ok" and all(got.get(k) == want.get(k) for k in set(got) | set(want) if k not in targets):
        # behaviour of the open finding: the root's apply_appends reads the previous value from the ROOT's namespace
        return FINDING_SECTION_APPEND, "key+ for a subcommand's key inside a config of the root does not append to the list built so far for that key"
    dkeys = dcf_section_env_keys(spec, case, env_on)
    if dkeys and status == "ok" and all(got.get(k) == want.get(k) for k in set(got) | set(want) if k not in dkeys):
        return FINDING_DCF_SECTION, "a section of an outer parser's default config file beats the inner parser's environment variable"
    if status != "ok":
        return False, "parse of well-formed sources failed: %s" % (got,)
    bad = sorted(k for k in set(got) | set(want) if got.get(k) != want.get(k))
    return False, "history step %d (default_env along the path: %s, env=%s): keys %s: got %s, reference fold gives %s" % (
        i, along, case.get("env_arg"), bad, [got.get(k) for k in bad], [want.get(k) for k in bad])


# ---------------------------------------------------------------- the model
def in_model(case):
    """the Lean model covers `parse_args` along a path (sections for inner levels in a root config included) and `parse_object` on the tree"""
    return True


def spec_in_model(spec):
    """default config files of parsers with subcommands are outside the model (C17's subject)"""
    return all(node_at(spec, p).get("dcf") is None for p in all_paths(spec["root"]))


def model_line(spec, hist, i):
    b = B()
    case = hist[i]["case"]

    def margs(node):
        return [{"dest": a["dest"].split("."), "kind": "config" if a["type"] == "config" else b.KIND[a["type"]], "default": b.enc(a.get("default"))}
                for a in node["args"]]

    def shape(node):
        return {"flag": bool(node.get("ctor_env")), "subs": [[n, shape(c)] for n, c in node["subs"]]}

    def items(lst):
        out = []
        for it in lst:
            k = it["k"].split(".")
            if it["t"] == "cfg":
                out.append({"t": "cfg", "k": k, "tree": b.enc(it["tree"])})
            elif it["t"] == "item":
                out.append({"t": "item", "k": k, "i": it["i"], "v": b.enc(it["v"])})
            else:
                out.append({"t": it["t"], "k": k, "v": b.enc(it["v"])})
        return out

    path = case["path"]
    adepth = case.get("argv_depth", len(path))

    def names_next(d):  # the subcommand variable of the parser at depth d names the next level of the path
        return d < len(path) and case.get("env_sub", {}).get(".".join(path[:d])) == path[d]

    return {
        "method": "tree", "env_sub": names_next(0),
        "parser": {"args": margs(spec["root"]), "env_prefix": spec.get("env_prefix"), "default_env": spec["default_env"],
                   "os_default_env": spec.get("os_default_env")},
        "shape": shape(spec["root"]),
        "setters": [[st["path"], st.get("os"), st["value"]] for st in hist[:i] if st["op"] == "set"],
        "path": path,
        "levels": [{"name": path[d - 1], "parser": {"args": margs(node_at(spec, path[:d])), "default_env": False}, "argv": items(case["argv"][d]),
                    "on_argv": d <= adepth, "env_sub": names_next(d)}
                   for d in range(1, len(path) + 1)],
        "argv": items(case["argv"][0]),
        "env": [[env_name(spec, full), b.enc(v)] for full, v in case.get("env_vars", {}).items()],
        "call": {"defaults": case.get("defaults", True), "env_arg": case.get("env_arg"), "environ": None},
        "tmethod": case["method"], **({"tree": b.enc(case["tree"])} if case["method"] == "object" else {}),
    }


def compare_model(case, real, real_flags, mod):
    b = B()
    if "levels" not in mod:
        return "driver: %s" % json.dumps(mod)[:300]
    if mod.get("interleave"):
        return None  # outside the model's assumption (a config with `k+` for an own key and for a section key at once)
    if mod["flags"] != real_flags:
        return "default_env along the path %s: real %s, model setter %s" % (case["path"], real_flags, mod["flags"])
    status, got = real
    if status != "ok":
        return None if not mod["ok"] else "real parse fails (%s), model accepts" % (got,)
    if not mod["ok"]:
        return "real parse succeeds, model rejects"
    want = {}
    for d, lvl in enumerate(mod["levels"]):
        pre = ".".join(case["path"][:d]) + "." if d else ""
        for k, v in b.flat_wire(lvl).items():
            want[pre + k] = v
    got = {k: v for k, v in got.items() if k.split(".")[-1] != "subcommand"}
    if got == want:
        return None
    bad = sorted(k for k in set(got) | set(want) if got.get(k) != want.get(k))
    return "keys %s: real %s, model %s" % (bad, [got.get(k) for k in bad], [want.get(k) for k in bad])


# ---------------------------------------------------------------- shrinking of a history
def shrink_history(spec, hist, still_bad):
    cur = copy.deepcopy(hist)
    changed = True
    while changed:
        changed = False
        cands = []
        for i in range(len(cur)):
            cands.append(cur[:i] + cur[i + 1:])
        for i, st in enumerate(cur):
            if st["op"] != "parse":
                continue
            c = st["case"]
            for full in list(c.get("env_vars", {})):
                h = copy.deepcopy(cur)
                del h[i]["case"]["env_vars"][full]
                cands.append(h)
            for d, items in enumerate(c["argv"]):
                for j in range(len(items)):
                    h = copy.deepcopy(cur)
                    del h[i]["case"]["argv"][d][j]
                    if not any(it["t"] == "cfg" for it in h[i]["case"]["argv"][0]):
                        h[i]["case"].pop("sections", None)
                    cands.append(h)
            for field in ("env_arg", "defaults"):
                if field in c:
                    h = copy.deepcopy(cur)
                    del h[i]["case"][field]
                    cands.append(h)
        for h in cands:
            if not any(st["op"] == "parse" for st in h):
                continue
            try:
                if still_bad(h):
                    cur = h
                    changed = True
                    break
            except Exception:  # noqa: BLE001 - a candidate that cannot be run is not a smaller failing history
                continue
    return cur


def first_bad(ctx, spec, hist, root_dir):
    """(step, (known, desc)) of the first parse of the history that deviates from the fold and is not an open finding, else None"""
    for i, real, flags in run_history(spec, hist, root_dir):
        res = oracle(spec, hist, i, real, flags)
        if res is not None and not (res[0] and ctx.is_open(res[0])):
            return i, res
    return None

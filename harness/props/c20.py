"""C20 — Restricted and registered scalar types validate exactly, serialise losslessly.

Pipeline
 1. regenerate Gen/Registered from jsonargparse/typing.py and build Props/C20 (theorems for unbounded inputs:
    C20_num_iff/idem, C20_range_rt, C20_td_rt, C20_secret, C20_decimal_rt + `*_tie` obligations on the
    regenerated operator table, predefined types, registered handler names and regex literals).
 2. correspondence real code vs Lean model (Drv/Typing): restricted numbers over all small restriction sets x a
    fixed candidate pool, creation-time reference test, `int()`/`float()` conversions, restricted strings
    (predefined + custom patterns), range / timedelta serialiser and deserialiser on generated and mutated texts.
 3. oracle on the REAL code, independent of the model: acceptance predicate of restricted numbers/strings
    (directly and through a parser, argv and config), round trip of every built-in registered type through a real
    parser (dump -> parse back from a config string, a config file and argv), SecretStr never in a dump or repr.
 4. replay of the open findings.
"""
from __future__ import annotations

import itertools
import json
import math
import os
import re
import shutil
import tempfile

from ..lib.common import Ctx, MachineryError, repo_python_path
from . import c20_reg

MANIFEST = {
    "engine": "E8-Typing",
    "technique": "Lean 4 proofs over an executable model of typing.py (restricted numbers/strings, the type registry with sorted-restriction keys, register_type / "
                 "get_registered_type / RegisteredType.deserializer, the registered-type branch of adapt_typehints for any handler, range/timedelta/base64/UUID/complex/"
                 "SecretStr/Decimal codecs, YAML text safety) + regenerated operator/handler/regex tables and normalised source statements (17 `C20_src_*_tie`) "
                 "+ differential correspondence (values, texts, creation/registration histories) + independent oracles through real parsers "
                 "(acceptance predicate, round trips incl. values generated from look-alike texts, immunity to later edits of the caller's restriction list)",
    "text": "Theorems in lean/Jap/Props/C20.lean prove for all inputs: a restricted number type accepts v iff v denotes a number of the base type "
            "and the and/or-joined comparisons hold, returns that number, and casting again is the identity (C20_num_iff, C20_num_idem, "
            "C20_num_int_exact; never OverflowError: C20_num_no_overflow; empty restriction lists, NonNegativeInt/PositiveInt/unit intervals, nan/inf/zero/subnormal tables); the outcome does not depend on the "
            "order of the restrictions and every class handed out by the registry validates exactly the restrictions stated in that call, the same name and key give the "
            "same class, another name is refused, existing classes are never changed by later creations or by edits of the caller's list (C20_num_perm, C20_key_sound, "
            "C20_create_sound/_same_class/_other_name/_frame/_ignores_later_mutation); restricted strings accept exactly the matched texts (C20_str_iff); "
            "register_type semantics (lookup, conflict, no-op, override) and, for ANY serializer/deserializer pair with deser . ser = id, parse(dump(v)) = v through the "
            "registered-type branch (C20_registered_rt, instantiated for range, timedelta, bytes, UUID); the range, timedelta, base64, UUID and complex codecs round-trip "
            "for every value; serialised texts are read back as strings or quoted (C20_text_safe, C20_text_plain_*; any text with `/`, `@` or another character no resolver mentions is a plain string: C20_text_plain_other_char); SecretStr serialisation is constant (C20_secret); "
            "Decimal round-trips under an exact serializer, and through today's `float` serializer ONLY dyadic rationals with denominator dividing 2^1074 survive: every "
            "decimal whose reduced denominator has a factor 5 is changed (C20_decimal_float_survivors_dyadic, C20_decimal_float_lossy_class; open finding). "
            "The model is tied to /repo by Gen/Registered (operators, predefined types, handler names, regex literals), Gen/TypingSrc (every statement of the "
            "transcribed functions) and by correspondence on exhaustive small restriction sets, generated texts and call histories.",
    "level_note": "Trusted: Lean kernel; axioms propext/Quot.sound/Classical.choice; the extractors; the correspondence harness. float(int)/float(str) "
                  "are modelled as correct rounding (roundDouble) and int(str)/float(str)/strip/\\d on ASCII, all tied by correspondence only. "
                  "timedelta(**floats) is modelled on exact rationals (agrees with CPython for <= 6 fraction digits and fields < 2^53). "
                  "complex parts are repr tokens under float(repr(x)) == x; pathlib constructors are outside the model (oracle round trips only). Sign of zero not represented. "
                  "In the registry model classes are values (a private copy of the restriction list, as the pinned comprehension builds); object identity of the caller's list "
                  "is exercised by the aliasing oracle on the real code. The channel between dump and parse is a hypothesis of C20_registered_rt (discharged by C01/C20_text_safe).",
}

FINDING_DECIMAL = "C20-decimal-via-float"
FINDING_STR_FLAGS = c20_reg.FINDING_STR_FLAGS

SYMS = [">", ">=", "<", "<=", "==", "!="]
# the comparisons, written out independently of `operator` / `_operators1`
OPS = {
    ">": lambda a, b: a > b,
    ">=": lambda a, b: a >= b,
    "<": lambda a, b: a < b,
    "<=": lambda a, b: a <= b,
    "==": lambda a, b: a == b,
    "!=": lambda a, b: a != b,
}
PREDEFINED_NUM = {
    "PositiveInt": ("int", "and", [(">", 0)]),
    "NonNegativeInt": ("int", "and", [(">=", 0)]),
    "PositiveFloat": ("float", "and", [(">", 0)]),
    "NonNegativeFloat": ("float", "and", [(">=", 0)]),
    "ClosedUnitInterval": ("float", "and", [(">=", 0), ("<=", 1)]),
    "OpenUnitInterval": ("float", "and", [(">", 0), ("<", 1)]),
}
# what the predefined names mean, stated independently
PREDEFINED_MEANING = {
    "PositiveInt": lambda x: x > 0,
    "NonNegativeInt": lambda x: x >= 0,
    "PositiveFloat": lambda x: x > 0,
    "NonNegativeFloat": lambda x: x >= 0,
    "ClosedUnitInterval": lambda x: 0 <= x <= 1,
    "OpenUnitInterval": lambda x: 0 < x < 1,
}
PREDEFINED_STR = {"NotEmptyStr": r"^.*[^ ].*$", "Email": r"^[^@ ]+@[^@ ]+\.[^@ ]+$"}
CUSTOM_REGEX = [r"^[a-z]+$", r"\d{2,3}x?", r"(ab|cd)*e", r"^[A-Z][a-z_0-9]*$", r"^-?\d+(\.\d+)?$", r"^\s*\w+\s*$", r"a.c", r"^(|x|xy)$", r"[^\n]+\n?$"]
# patterns handed over as compiled `re.Pattern` objects (documented `regex: Union[str, Pattern]`): (text, flag names).
# The registry key of a string type is the pattern text alone, so every entry has its own text.
COMPILED_REGEX = [
    (r"^[0-9A-F]{2}-[0-9A-F]{2}$", []),
    (r"^0x[0-9a-f]+$", ["IGNORECASE"]),
    (r"^[^a-c]+$", ["IGNORECASE"]),
    (r"^ v \d+ \. \d+ $  # version", ["VERBOSE"]),
    (r"^a.b$", ["DOTALL"]),
    (r"^a$", ["MULTILINE"]),
    (r"a\n^b$", ["MULTILINE"]),
    (r"^\w+\s\d+$", ["ASCII"]),
    (r"^ [a-c]+ . x $", ["IGNORECASE", "VERBOSE", "DOTALL"]),
    (r"^q.$", ["DOTALL", "MULTILINE"]),
]


# ---------------------------------------------------------------- value encodings
def jv_enc(v):
    """self-contained JSON form of a candidate value (corpus / replay files)"""
    if v is None:
        return {"none": True}
    if isinstance(v, bool):
        return {"bool": v}
    if isinstance(v, int):
        return {"int": str(v)}
    if isinstance(v, float):
        return {"float": v.hex() if math.isfinite(v) else repr(v)}
    if isinstance(v, str):
        return {"str": v}
    if isinstance(v, (bytes, bytearray)):
        return {"bytes": bytes(v).hex()}
    if isinstance(v, list):
        return {"list": [jv_enc(x) for x in v]}
    if isinstance(v, tuple):
        return {"tuple": [jv_enc(x) for x in v]}
    if isinstance(v, dict):
        return {"dict": [[k, jv_enc(x)] for k, x in v.items()]}
    raise MachineryError("cannot encode %r" % (v,))


def jv_dec(j):
    if "none" in j:
        return None
    if "bool" in j:
        return j["bool"]
    if "int" in j:
        return int(j["int"])
    if "float" in j:
        s = j["float"]
        return float.fromhex(s) if "x" in s else float(s)
    if "str" in j:
        return j["str"]
    if "bytes" in j:
        return bytes.fromhex(j["bytes"])
    if "list" in j:
        return [jv_dec(x) for x in j["list"]]
    if "tuple" in j:
        return tuple(jv_dec(x) for x in j["tuple"])
    if "dict" in j:
        return {k: jv_dec(x) for k, x in j["dict"]}
    raise MachineryError("cannot decode %r" % (j,))


def wire_num(x):
    """exact wire form of an int / float for the driver"""
    if isinstance(x, bool):
        raise MachineryError("bool is not a number here")
    if isinstance(x, int):
        return int(x)
    if math.isnan(x):
        return {"f": "nan"}
    if math.isinf(x):
        return {"f": "inf" if x > 0 else "-inf"}
    n, d = float(x).as_integer_ratio()
    return {"q": [n, d]}


def wire_val(v, text_ok=True):
    if isinstance(v, bool):
        return {"b": v}
    if isinstance(v, (int, float)):
        return wire_num(v)
    if isinstance(v, str):
        return {"s": v}
    if isinstance(v, (bytes, bytearray)) and text_ok:
        return {"s": bytes(v).decode("ascii")}  # int()/float() read ASCII bytes like the same text
    return None


def in_model(v, text_ok=True):
    """is the candidate inside the modelled input space (ASCII texts, no surrogates)"""
    if isinstance(v, str):
        return v.isascii() and len(v) < 2000
    if isinstance(v, (bytes, bytearray)):
        return text_ok and all(b < 128 for b in v)
    return True


def err_name(ex):
    for cls, name in ((OverflowError, "OverflowError"), (TypeError, "TypeError"), (ValueError, "ValueError")):
        if isinstance(ex, cls):
            return name
    return "Other:" + type(ex).__name__


def canon(j):
    return json.dumps(j, sort_keys=True)


# ---------------------------------------------------------------- restricted numbers: real side
def base_of(name):
    return int if name == "int" else float


def ref_tag(r):
    if isinstance(r, float) and not math.isfinite(r):
        return repr(r)
    from fractions import Fraction

    f = Fraction(r)
    return "%d_%d" % (f.numerator, f.denominator)


def get_num_type(spec):
    """the real type for (base, join, [(sym, ref)]): the registry is keyed by the *sorted* restrictions, and a second
    registration of an equal key under another name is an error, so the name is derived from the key"""
    from jsonargparse import typing as m

    base, join, rs = spec
    bt = base_of(base)
    key = (tuple(sorted(rs)), bt, join)
    if key in m.registered_types:
        name = m.registered_types[key].__name__
    else:
        import hashlib

        tag = "|".join("%s%s" % (s, ref_tag(r)) for s, r in sorted(rs, key=lambda p: (p[0], ref_tag(p[1]))))
        name = "C20N_" + hashlib.sha256(("%s|%s|%s" % (base, join, tag)).encode()).hexdigest()[:12]
    return m.restricted_number_type(name, bt, list(rs), join)


def real_num(T, v):
    """observation of T(v) in the driver's result form, plus the raw result"""
    try:
        r = T(v)
    except Exception as ex:  # noqa: BLE001 - the class is the observation
        return {"err": err_name(ex)}, None
    if isinstance(r, int):
        return {"ok": wire_num(int(r)), "t": "int"}, r
    if isinstance(r, float):
        return {"ok": wire_num(float(r)), "t": "float"}, r
    return {"err": "Other:result-" + type(r).__name__}, r


# ---------------------------------------------------------------- restricted numbers: the property, stated independently
def oracle_num(base, join, rs, v, meaning=None):
    """None = must be rejected, else the base-type value that must be returned.
    Candidate space: bool / int / float / str / bytes / None / list / tuple / dict."""
    bt = base_of(base)
    if isinstance(v, bool) or not isinstance(v, (int, float, str, bytes, bytearray)):
        return None
    try:
        x = bt(v)
    except (ValueError, TypeError, OverflowError):
        return None
    if bt is int and isinstance(v, float) and x != v:
        return None
    if meaning is not None:
        return x if meaning(x) else None
    holds = [OPS[s](x, ref) for s, ref in rs]
    if not (all(holds) if join == "and" else any(holds)):
        return None
    return x


def judge_num(ctx, spec, T, v, res, raw, origin, meaning=None):
    """compare the real outcome with the independent predicate; returns a description or None"""
    base, join, rs = spec
    want = oracle_num(base, join, rs, v, meaning)
    bt = base_of(base)
    if want is None:
        if "ok" in res:
            return "accepted a value that does not convert to %s or violates the comparisons" % base
        return None
    if "err" in res:
        return "rejected (%s) a value that converts to %s and satisfies the comparisons" % (res["err"], base)
    if type(raw) is not T or not isinstance(raw, bt):
        return "accepted value has type %s" % type(raw).__name__
    if repr(bt(raw)) != repr(want) and not (want == 0 and bt(raw) == 0):
        return "accepted value %r differs from the input as %s (%r)" % (bt(raw), base, want)
    # casting again changes nothing
    try:
        again = T(raw)
        again2 = T(bt(raw))
    except Exception as ex:  # noqa: BLE001
        return "casting the accepted value again raises %s" % type(ex).__name__
    for a in (again, again2):
        if type(a) is not T or (repr(bt(a)) != repr(bt(raw))):
            return "casting the accepted value again changes it (%r -> %r)" % (bt(raw), bt(a))
    return None


def num_replay(spec, v, how="direct"):
    base, join, rs = spec
    return {"kind": "num", "how": how, "base": base, "join": join, "rs": [[s, jv_enc(r)] for s, r in rs], "value": jv_enc(v)}


def spec_of_replay(b):
    return (b["base"], b["join"], [(s, jv_dec(r)) for s, r in b["rs"]])


# ---------------------------------------------------------------- candidate pool
def candidate_pool(refs):
    vals = []
    for r in refs:
        if isinstance(r, float) and not math.isfinite(r):
            continue
        fl = math.floor(r)
        vals += [fl - 1, fl, fl + 1]
        fr = float(r)
        vals += [fr, fr - 0.5, fr + 0.5, math.nextafter(fr, math.inf), math.nextafter(fr, -math.inf), float(fl + 1)]
        vals += [str(r), repr(fr), " %s " % fl, "+%s" % (fl + 1) if fl + 1 >= 0 else str(fl + 1)]
    vals += [True, False, 0.0, -0.0, 5e-324, 1e-320, 1e308, 1.7976931348623157e308, float("nan"), float("inf"), float("-inf"),
             10 ** 30, -(10 ** 30), 2 ** 53 + 1, -(2 ** 53) - 1, 2 ** 1024, 2 ** 1024 - 2 ** 970, 2 ** 1024 - 2 ** 970 - 1, 10 ** 400,
             3, 7.0, 2.5, -2.5, 1e20, 1e23]
    vals += ["1", " 2 ", "+3", "-0", "1_0", "1__0", "_1", "1_", "1.0", "1.", ".5", "1e0", "1E2", "1e-1", "0x1", "", " ", "abc",
             "nan", "-inf", "Infinity", "+INF", "-NaN", "1e400", "-1e-400", "1 0", "1\n", "\t1", "\x1c1", "1\x1f", "0.1", "1e23",
             "9007199254740993", "1_0.5_0", "1e1_0", "--1", "+-1", "1+1", "1j", "1/2", "0b1", "00", "007", "1,0", "- 1", "1e", "1e+",
             ".", "e5", ".e5", "1._5", "1_.5", "infinit", "in f", "2.5", "-2.5", "1e-400", "179769313486231580793728971405303415079934132710037826936173778980444968292764750946649017977587207096330286416692887910946555547851940402630657488671505820681908902000708383676273854845817711531764475730270069855571366959622842914819860834936475292719074168444365510704342711559699508093042880177904174497792",
             "١٢", " 1", "1 "]
    vals += [b"1", b" 2", b"1.5", b"x", bytearray(b"3")]
    vals += [None, [], [1], (1,), {}, {"a": 1}]
    out, seen = [], set()
    for v in vals:
        k = (type(v).__name__, repr(v))
        if k not in seen:
            seen.add(k)
            out.append(v)
    return out


def restriction_sets(refs, max_len):
    atoms = [(s, r) for s in SYMS for r in refs]
    for n in range(1, max_len + 1):
        for combo in itertools.combinations_with_replacement(range(len(atoms)), n):
            yield [atoms[i] for i in combo]


# ---------------------------------------------------------------- restricted strings
def flag_value(names):
    v = 0
    for n in names or []:
        v |= int(getattr(re, n))
    return v


def compiled_of(pattern, flags):
    """the ORIGINAL pattern object: the oracle's reference (`flags` = list of `re` flag names, None = plain str)"""
    return re.compile(pattern, flag_value(flags))


def get_str_type(pattern, flags=None):
    """`flags is None`: the pattern is given to restricted_string_type as a str, else as a compiled re.Pattern"""
    from jsonargparse import typing as m

    if flags is None:
        for name, pat in PREDEFINED_STR.items():
            if pat == pattern:
                return getattr(m, name)
    key = ("matching " + pattern, str)
    if key in m.registered_types:
        return m.registered_types[key]
    import hashlib

    name = "C20S_" + hashlib.sha256(pattern.encode()).hexdigest()[:12]
    return m.restricted_string_type(name, pattern if flags is None else compiled_of(pattern, flags))


def real_str(T, v):
    try:
        r = T(v)
    except Exception as ex:  # noqa: BLE001
        return {"err": err_name(ex)}, None
    if isinstance(r, str):
        return {"ok": str(r)}, r
    return {"err": "Other:result-" + type(r).__name__}, r


def judge_str(pattern, T, v, res, raw, flags=None):
    want = isinstance(v, str) and compiled_of(pattern, flags).match(v) is not None
    if not want:
        return "accepted a value the pattern does not match" if "ok" in res else None
    if "err" in res:
        return "rejected (%s) a text the pattern matches" % res["err"]
    if type(raw) is not T or str(raw) != v:
        return "accepted value differs from the input"
    try:
        again = T(raw)
    except Exception as ex:  # noqa: BLE001
        return "casting the accepted value again raises %s" % type(ex).__name__
    if type(again) is not T or str(again) != v:
        return "casting the accepted value again changes it"
    return None


def str_via_parser(p, T, orig, v, how):
    """verdict of a real parser for the text v against `orig.match` (the pattern object the type was built from)"""
    want = orig.match(v) is not None
    try:
        cfg = p.parse_args(["--x=" + v]) if how == "argv" else p.parse_string(json.dumps({"x": v}))
        got, ok = cfg.x, True
    except BaseException as ex:  # noqa: BLE001
        got, ok = type(ex).__name__, False
    if ok and not want:
        return "parser accepts a text the pattern does not match"
    if want and not ok:
        return "parser rejects (%s) a text the pattern matches" % got
    if ok:
        if type(got) is not T or str(got) != v:
            return "parser returns %r for %r" % (got, v)
        try:
            back = p.parse_string(p.dump(cfg)).x
        except BaseException as ex:  # noqa: BLE001
            return "dump/parse of the accepted text raises %s" % type(ex).__name__
        if type(back) is not T or str(back) != v:
            return "dump/parse of the accepted text returns %r" % (back,)
    return None


STR_CANDIDATES = ["", " ", "  ", "a", " a ", "\n", "a\n", "a\nb", "\na", "a\n\n", "x y", "a@b.c", "a@b.c\n", "a@b", "@b.c", "a@.c", "a b@c.d", "a@b@c.d",
                  "a@b.c d", "a@b..c", "é@ü.ö", "abc", "Abc", "A", "A_b9", "aB", "12", "123x", "1234", "12x", "x12", "e", "abe", "abcde", "abab", "cdabe",
                  "-1", "-1.5", "1.", "1.5.2", " w ", "w w", "\tw\n", "a.c", "abc", "a\nc", "xy", "x", "xyz", "xy\n", "\x1cw", "tab\there",
                  "0x1f", "0X1F", "0x1F", "0xg", "AB-CD", "ab-cd", "ABC", "xyz", "xBz", "v1.2", " v 1 . 2 ", "v12.345", "a-b", "a\n\nb", "a\nb\n", "b",
                  "ab 12", "ab\x1c12", "ab\t12", "é 1", "a ١", "a\u00a01", "AbC\nX", "abc-x", " a - x ", "q\n", "q\nz", "qz", "q",
                  None, 5, 1.5, True, b"a@b.c", ["a"], {}]


def parser_text_ok(v):
    """texts that reach a str-based type unchanged from argv / a JSON config (null-like and container-like texts are re-read by the parser)"""
    return isinstance(v, str) and v != "" and v.strip().lower() not in ("null", "~") and v.strip()[:1] not in ("[", "{")


# ---------------------------------------------------------------- codecs: real side
def handler(tp):
    from jsonargparse import typing as m

    h = m.get_registered_type(tp)
    if h is None:
        raise MachineryError("%r is not registered" % (tp,))
    return h


def real_range_ser(r):
    try:
        return {"s": handler(range).serializer(range(*r))}
    except Exception as ex:  # noqa: BLE001
        return {"err": err_name(ex)}


def real_range_deser(s):
    try:
        r = handler(range).deserializer(s)
    except Exception as ex:  # noqa: BLE001
        return {"err": err_name(ex)}
    if type(r) is not range:
        return {"err": "Other:result-" + type(r).__name__}
    return {"ok": [r.start, r.stop, r.step]}


def real_td_str(t):
    from datetime import timedelta

    try:
        return {"s": handler(timedelta).serializer(timedelta(days=t[0], seconds=t[1], microseconds=t[2]))}
    except Exception as ex:  # noqa: BLE001
        return {"err": err_name(ex)}


def real_td_deser(s):
    from datetime import timedelta

    try:
        r = handler(timedelta).deserializer(s)
    except Exception as ex:  # noqa: BLE001
        return {"err": err_name(ex)}
    if type(r) is not timedelta:
        return {"err": "Other:result-" + type(r).__name__}
    return {"ok": [r.days, r.seconds, r.microseconds]}


def real_b64_enc(b):
    try:
        return {"s": handler(bytes).serializer(bytes(b))}
    except Exception as ex:  # noqa: BLE001
        return {"err": err_name(ex)}


def real_b64_dec(s, tp=bytes):
    try:
        r = handler(tp).deserializer(s)
    except Exception as ex:  # noqa: BLE001
        return {"err": err_name(ex)}
    if type(r) is not tp:
        return {"err": "Other:result-" + type(r).__name__}
    return {"ok": list(r)}


def real_uuid_str(n):
    import uuid

    try:
        return {"s": handler(uuid.UUID).serializer(uuid.UUID(int=n))}
    except Exception as ex:  # noqa: BLE001
        return {"err": err_name(ex)}


def real_uuid_deser(s):
    import uuid

    try:
        r = handler(uuid.UUID).deserializer(s)
    except Exception as ex:  # noqa: BLE001
        return {"err": err_name(ex)}
    if type(r) is not uuid.UUID:
        return {"err": "Other:result-" + type(r).__name__}
    return {"ok": r.int}


def complex_part(x):
    """sign + the token `repr` writes for the magnitude (a trailing `.0` dropped, as str(complex) does)"""
    neg = math.copysign(1.0, x) < 0 and not math.isnan(x)
    a = abs(x)
    if math.isnan(a):
        return {"neg": False, "t": "nan"}
    if math.isinf(a):
        return {"neg": neg, "t": "inf"}
    r = repr(a)
    if r.endswith(".0"):
        r = r[:-2]
    mm = re.fullmatch(r"(\d+)(?:\.(\d+))?(?:e([-+])(\d+))?", r)
    if mm is None:
        raise MachineryError("unexpected float repr %r" % r)
    return {"neg": neg, "t": "dec", "ip": mm.group(1), "fp": mm.group(2) or "", "ex": None if mm.group(3) is None else [mm.group(3) == "-", mm.group(4)]}


def real_complex_str(z):
    try:
        return {"s": handler(complex).serializer(z)}
    except Exception as ex:  # noqa: BLE001
        return {"err": err_name(ex)}


def real_complex_parse(s):
    try:
        z = handler(complex).deserializer(s)
    except Exception as ex:  # noqa: BLE001
        return {"err": err_name(ex)}
    if type(z) is not complex:
        return {"err": "Other:result-" + type(z).__name__}
    return {"ok": [repr(z.real), repr(z.imag)]}


COMPLEX_ALPHA = list("0123456789.eE+-jJ() infa") + ["inf", "nan", "e+", "j)", "("]
COMPLEX_TEXTS = ["", "j", "+j", "-j", "1+j", "1-j", "1", "1.", ".5", ".", "1e5", "1e", "1e+", "1E-3j", "(1+2j)", "( 1+2j )", "(1+2j", "1+2j)", "1 + 2j", "1+ 2j", "1+2 j",
                 "1+2j ", " 1+2j", "(1+2j) ", "((1+2j))", "()", "(j)", "inf", "infj", "infinity", "infinityj", "-Infinity+NaNj", "nan+nanj", "+nan", "infi", "infinit", "1+2",
                 "1+2i", "1j+2", "1j2", "++1", "+-1", "1++2j", "1+-2j", "1e5e5", "0x10", "1.5.5", "1..5", "e5", "J", "1J", "(1J)", "\t(1+2j)\n", "(\t1+2j\n)", "1+2jj", "1+2j(",
                 "(1+2j))", "1.e5j", ".e5", "-.5-.5j", "- 1", "1+", "1-", "+", "-", "(", ")", "(1)", "(1j)", "1e400", "1e400j", "(-0+0j)", "-0j", "(nan-infj)"]


B64_ALPHA = list("ABab01+/=- \n_.") + ["==", "="]
B64_TEXTS = ["", "=", "==", "A", "AA", "AAA", "AAAA", "A=", "AA=", "AA==", "AAA=", "AA=A", "AA=A=", "A===", "AA===", "=AAA", "A=AAA", "AA=AA", "AAA=A", "AAAA=",
             "AAAAA", "AAAAAA==", "AAAAAA=", "AA\n==", "AA = =", "AA==AAAA", "AAA=AAAA", "A A A A", "AA.=.=", "1234", "true", "null", "+123", "1e10", "0x1F", "aGk=", "-_-_"]
UUID_ALPHA = list("0123456789abcdefABCDEFx-_{} urn:uuid+g") + ["urn:", "uuid:", "{", "}", "0x", "-", "_"]
UUID_TEXTS = ["{12345678-1234-5678-1234-567812345678}", "urn:uuid:12345678-1234-5678-1234-567812345678", "12345678123456781234567812345678",
              "0x345678123456781234567812345678", "+2345678123456781234567812345678", "-0000000000000000000000000000000", "-0000000000000000000000000000001",
              "1_345678123456781234567812345678", " 2345678123456781234567812345678", "12345678-1234-5678-1234-56781234567", "",
              "uuuuid:rn:12345678123456781234567812345678", "0X_45678123456781234567812345678", "0x__5678123456781234567812345678",
              "{{{12345678123456781234567812345678}", "}12345678123456781234567812345678{", "1234567812345678123456781234567\n",
              "\t234567812345678123456781234567\n", "0x0x5678123456781234567812345678", "__345678123456781234567812345678", "1234567812345678123456781234567_",
              "+_345678123456781234567812345678", "0b345678123456781234567812345678", "ururn:n:12345678123456781234567812345678", "1234567e-1234-5678-1234-567812345678",
              "0e123456-1234-5678-1234-567812345678", "FFFFFFFF-FFFF-FFFF-FFFF-FFFFFFFFFFFF", "ffffffff-ffff-ffff-ffff-fffffffffffg"]


def yaml_tag_of(v):
    """the tag the YAML loader gave a plain scalar, by the type of the loaded value"""
    if v is None:
        return "null"
    for t, n in ((bool, "bool"), (int, "int"), (float, "float"), (str, "str")):
        if isinstance(v, t):
            return n
    return "other"


# ---------------------------------------------------------------- codecs: generators
def gen_int(rng):
    r = rng.random()
    if r < 0.35:
        return rng.randint(-3, 3)
    if r < 0.7:
        return rng.randint(-1000, 1000)
    if r < 0.9:
        return rng.randint(-(10 ** 12), 10 ** 12)
    return rng.choice([-1, 1]) * rng.randint(10 ** 18, 10 ** 40)


def gen_range(rng):
    a, b = gen_int(rng), gen_int(rng)
    c = gen_int(rng)
    r = rng.random()
    if r < 0.3:
        a, c = 0, 1
    elif r < 0.5:
        c = 1
    elif r < 0.65:
        c = -1
    if c == 0:
        c = rng.choice([-2, 2])
    return [a, b, c]


RANGE_FIXED = [[0, 0, 1], [0, 5, 1], [2, 5, 1], [5, 0, -1], [0, 0, -3], [0, -5, 1], [1, 1, 1], [0, 10 ** 30, 1], [-(10 ** 20), 10 ** 20, 10 ** 5],
               [0, 5, 2], [3, 3, 1], [0, 1, -1], [-1, -1, -1], [0, 1, 2], [1, 0, 1], [0, -1, -1], [7, -7, -7]]


def mutate_text(rng, s, alphabet):
    if not s or rng.random() < 0.15:
        return s + rng.choice(alphabet)
    k = rng.random()
    i = rng.randrange(len(s))
    if k < 0.3:
        return s[:i] + s[i + 1:]
    if k < 0.6:
        return s[:i] + rng.choice(alphabet) + s[i:]
    if k < 0.85:
        return s[:i] + rng.choice(alphabet) + s[i + 1:]
    j = rng.randrange(len(s))
    i, j = min(i, j), max(i, j)
    return s[:i] + s[j:]


RANGE_ALPHA = list("0123456789") + list("-, ()\n\trange+._") + ["range(", ")", ", ", " ", "-", "0", "1.0", "e", "R"]
TD_ALPHA = list("0123456789") + list(":., -+dayszh\n") + [" day, ", " days, ", "day", ":", ".", "0:00:00", "-", " ", "s", "00", ".5", "D"]
RANGE_TEXTS = ["range(5)", " range(5) ", "range( 5 , 6 )", "range(5\n)", "range(5,6,)", "range(5,,6)", "range()", "range(", "range)", "Range(5)", "range(5.0)",
               "range(+5)", "range(--5)", "range(-5,-6,-7)", "range(1,2,0)", "range(1,2,3,4)", "range(5))", "range((5)", "xrange(5)", "range(5)x",
               "range(5)\n", "\trange(5)", "range(1 2)", "range(1,2\n)", "range(1\n,2)", "range(0x5)", "range(1_0)", "range(-0)", "range(007)", "range(- 5)",
               "", " ", "5", "range", "range(5, 6)", "range(5,6)", "\x1crange(5)\x1f", "range(5)\x0b", "range( )", "range(,)", "range(-)"]
TD_TEXTS = ["0:00:00", "1 day, 0:00:00", "-1 day, 23:59:59.999999", "2 days, 1:01:01", "0:00:00.000001", "1 days, 0:00:00", "2 day, 0:00:00", "1 dayss, 0:00:00",
            "1 day,0:00:00", "1 day,  0:00:00", "1 day 0:00:00", "1:2:3", "1:2:3xyz", "01:02:03", "100:99:99.5", "1:2", "1:2:", ":2:3", "1::3", "1:2:3.", "1:2:3.4.5",
            "1:2:3+4", "1:2:3.5+", "1:2:.5", "--1 day, 0:00:00", "1-2 days, 0:00:00", "- day, 0:00:00", "-0 days, 0:00:00", "+1 day, 0:00:00", " 1:2:3", "1:2:3 ",
            "1:2:3 day", "day 1:2:3", "1 Day, 0:00:00", "1 day, 0:00:00 days", "999999999 days, 23:59:59.999999", "1000000000 days, 0:00:00", "-999999999 days, 0:00:00",
            "-1000000000 days, 0:00:00", "999999999 days, 24:00:00", "-1000000000 days, 24:00:00", "0:00:00.5", "0:00:00.50", "0:00:00.000010", "0:0:0", "0:60:60",
            "", "abc", "1", "1 day", "1 day, ", "1 week, 0:00:00", "1:2:3e5", "1:2:3.000000", "12345678 days, 12345:678:9.25", "1 day, 1 day, 0:00:00", "0:00:0.1.",
            "5 daysssss, 1:00:00", "1:2:3\n", "1\n:2:3", "1:2:3..", "1:2:3.+", "00000000001:0000000002:00000003.0004"]
TD_FIXED = [[0, 0, 0], [-1, 0, 0], [0, 0, 1], [-1, 86399, 999999], [1, 0, 0], [2, 3, 4], [-999999999, 0, 0], [999999999, 86399, 999999], [0, 3600, 0], [1, 3600, 0],
            [0, 59, 500000], [0, 60, 0], [0, 86399, 0], [-2, 1, 1], [0, 0, 999999], [0, 0, 10], [0, 0, 100000], [1, 1, 1], [-1, 1, 0], [100, 0, 0], [0, 36000, 0]]


def gen_td(rng):
    r = rng.random()
    d = 0 if r < 0.3 else rng.choice([1, -1, 2, -2]) if r < 0.5 else rng.randint(-400, 400) if r < 0.8 else rng.randint(-999999999, 999999999)
    r = rng.random()
    s = 0 if r < 0.2 else rng.choice([1, 59, 60, 61, 3599, 3600, 3601, 86399, 43200]) if r < 0.45 else rng.randint(0, 86399)
    r = rng.random()
    u = 0 if r < 0.4 else rng.choice([1, 10, 100, 1000, 10000, 100000, 500000, 999999, 999990]) if r < 0.65 else rng.randint(0, 999999)
    return [d, s, u]


def gen_td_text(rng):
    """free-form texts of the deserialiser's language (not only `str` output): <= 6 fraction digits, fields < 2^53"""
    def digits(lo, hi, maxv):
        n = rng.randint(lo, hi)
        return "".join(rng.choice("0123456789") for _ in range(n)) if rng.random() < 0.3 else str(rng.randint(0, maxv)).zfill(rng.choice([0, 1, 2, 3]))

    s = ""
    if rng.random() < 0.5:
        d = rng.choice(["-", "", "", "--", "+"]) + digits(1, 4, 5000) if rng.random() < 0.9 else str(rng.choice([999999999, -999999999, 10 ** 9, -(10 ** 9)]))
        s += d + rng.choice([" day, ", " days, ", " days, ", " dayss, ", " day ", " days,", ", "])
    s += digits(1, 3, 200) + ":" + digits(1, 3, 200) + ":" + digits(1, 3, 200)
    r = rng.random()
    if r < 0.5:
        s += "." + "".join(rng.choice("0123456789") for _ in range(rng.randint(0, 6)))
    elif r < 0.6:
        s += rng.choice(["+", "..", ".1.", " x", "e3", ":5", ".5+"])
    return s


# ---------------------------------------------------------------- registered types through a real parser
def make_parser(tp):
    from jsonargparse import ArgumentParser

    p = ArgumentParser(exit_on_error=False)
    p.add_argument("--cfg", action="config")
    p.add_argument("--x", type=tp)
    return p


def roundtrip_failures(p, value, tmpdir, channels=("string", "file", "argv")):
    """value -> dump (yaml and json) -> parse back per channel; returns [(format, channel, description)]"""
    import yaml
    from jsonargparse import Namespace

    out = []
    for fmt in ("yaml", "json"):
        try:
            text = p.dump(Namespace(x=value), format=fmt)
        except Exception as ex:  # noqa: BLE001
            out.append((fmt, "dump", "dump raises %s: %s" % (type(ex).__name__, str(ex)[:120])))
            continue
        ser = (yaml.safe_load(text) if fmt == "yaml" else json.loads(text)).get("x")
        for ch in channels:
            try:
                if ch == "string":
                    back = p.parse_string(text)
                elif ch == "file":
                    path = os.path.join(tmpdir, "cfg." + fmt)
                    with open(path, "w") as f:
                        f.write(text)
                    back = p.parse_args(["--cfg", path])
                else:
                    arg = ser if isinstance(ser, str) else json.dumps(ser)
                    back = p.parse_args(["--x=" + arg])
            except BaseException as ex:  # noqa: BLE001 - SystemExit included
                out.append((fmt, ch, "parse raises %s: %s" % (type(ex).__name__, str(ex)[:160].replace("\n", " "))))
                continue
            got = back.x
            if type(got) is not type(value):
                out.append((fmt, ch, "returns type %s for %s" % (type(got).__name__, type(value).__name__)))
            elif not got == value:
                out.append((fmt, ch, "returns %r for %r" % (got, value)))
    return out


def decimal_survives_float(d, channel):
    """does the value survive the registered `float` serializer on this channel (signature of the open finding)"""
    from decimal import Decimal

    try:
        f = float(d)
    except (OverflowError, ValueError):
        return False
    back = Decimal(f) if channel in ("string", "file") else Decimal(repr(f)) if math.isfinite(f) else Decimal(f)
    return back == d


REG_KINDS = ["timedelta", "range", "bytes", "bytearray", "UUID", "complex", "Path", "PosixPath", "Decimal"]


def reg_type(kind):
    import datetime
    import decimal
    import pathlib
    import uuid

    return {"timedelta": datetime.timedelta, "range": range, "bytes": bytes, "bytearray": bytearray, "UUID": uuid.UUID, "complex": complex,
            "Path": pathlib.Path, "PosixPath": pathlib.PosixPath, "Decimal": decimal.Decimal}[kind]


def reg_enc(kind, v):
    if kind == "timedelta":
        return [v.days, v.seconds, v.microseconds]
    if kind == "range":
        return [str(v.start), str(v.stop), str(v.step)]
    if kind in ("bytes", "bytearray"):
        return bytes(v).hex()
    if kind == "UUID":
        return str(v.int)
    if kind == "complex":
        return [v.real.hex(), v.imag.hex()]
    return str(v)


def reg_dec(kind, j):
    import datetime
    import decimal
    import pathlib
    import uuid

    if kind == "timedelta":
        return datetime.timedelta(days=j[0], seconds=j[1], microseconds=j[2])
    if kind == "range":
        return range(int(j[0]), int(j[1]), int(j[2]))
    if kind == "bytes":
        return bytes.fromhex(j)
    if kind == "bytearray":
        return bytearray(bytes.fromhex(j))
    if kind == "UUID":
        return uuid.UUID(int=int(j))
    if kind == "complex":
        return complex(float.fromhex(j[0]), float.fromhex(j[1]))
    if kind == "Path":
        return pathlib.Path(j)
    if kind == "PosixPath":
        return pathlib.PosixPath(j)
    if kind == "Decimal":
        return decimal.Decimal(j)
    raise MachineryError(kind)


PATH_TEXTS = ["a/b", "1e3", ".", "/", "a b", "~/x", "null", "true", "123", "0x10", "1:2", "- a", "#x", "a: b", "{x}", "[1]", "1.5", "1_0", "yes", "-x",
              "a\nb", "é", "'q'", '"q"', "1e+3", ".inf", "2001-01-01", "0o7", "~", "=", "<<", "!!x", "&a", "*a", "a #b", "%x", "@x", "`x", "1e-3", ".5", "5.",
              "+1", "0b1", "1:30", "off", "No", "NULL", "Null", ".nan", "1,000", "a,b", " lead", "trail ", "a\tb", "?x", "|", ">", "- ", "--x", "x=y", "range(3)"]


def reg_values(kind, rng, n):
    import datetime
    import decimal
    import pathlib
    import uuid

    if kind == "timedelta":
        vals = [datetime.timedelta(days=t[0], seconds=t[1], microseconds=t[2]) for t in TD_FIXED]
        vals += [datetime.timedelta.min, datetime.timedelta.max, datetime.timedelta.resolution, -datetime.timedelta.resolution]
        for _ in range(n):
            t = gen_td(rng)
            vals.append(datetime.timedelta(days=t[0], seconds=t[1], microseconds=t[2]))
        return vals
    if kind == "range":
        return [range(*r) for r in RANGE_FIXED] + [range(*gen_range(rng)) for _ in range(n)]
    if kind in ("bytes", "bytearray"):
        c = bytes if kind == "bytes" else bytearray
        vals = [c(b""), c(bytes(range(256))), c(b"\x00"), c(b"\xff"), c(b"hi"), c(b"a" * 100), c(b"\x00\x00"), c(b"="), c(b"null"), c(b"123")]
        for _ in range(n):
            vals.append(c(bytes(rng.randrange(256) for _ in range(rng.choice([1, 2, 3, 4, 5, 16, 33])))))
        # values generated from the TEXT side: the base64 text spells a number (any radix) / exponent / boolean / null
        vals += [c(b) for b in c20_reg.b64_lookalikes(rng, max(12, n))]
        return vals
    if kind == "UUID":
        vals = [uuid.UUID(int=0), uuid.UUID(int=2 ** 128 - 1), uuid.UUID("12345678-1234-5678-1234-567812345678"), uuid.UUID(int=1)]
        return vals + [uuid.UUID(int=rng.getrandbits(128)) for _ in range(n)]
    if kind == "complex":
        inf = float("inf")
        vals = [0j, 1 + 0j, 1j, -1 - 1j, complex(0.1, -0.2), complex(1e22, 1e-22), complex(inf, 0), complex(0, -inf), complex(-0.0, -0.0), complex(1, -0.0),
                3 + 4j, complex(123456789.123456789, 0), complex(5e-324, 1.7976931348623157e308), complex(-2.5, 0), complex(0, 1e16), complex(1e16, 0)]
        for _ in range(n):
            vals.append(complex(rng.choice([0.0, rng.uniform(-10, 10), rng.randint(-5, 5), rng.uniform(-1e20, 1e20)]),
                                rng.choice([0.0, rng.uniform(-10, 10), rng.randint(-5, 5), rng.uniform(-1e-20, 1e-20)])))
        return vals
    if kind in ("Path", "PosixPath"):
        c = pathlib.Path if kind == "Path" else pathlib.PosixPath
        return [c(x) for x in PATH_TEXTS[: (len(PATH_TEXTS) if kind == "Path" else 12)]]
    if kind == "Decimal":
        D = decimal.Decimal
        vals = [D("0.5"), D("0.1"), D("123456789012345678901234567890.123"), D("1E+2"), D(0), D("-2.25"), D(2 ** 70), D("1e-400"), D(5), D("1e400"),
                D("0.25"), D("-0.0"), D("3.141592653589793238462643383279"), D("1.10"), D(2 ** 53), D(2 ** 53 + 1), D("0.3"), D("7.000"), D("-1E-7")]
        for _ in range(n):
            r = rng.random()
            if r < 0.4:
                vals.append(D(rng.randint(-10 ** 6, 10 ** 6)) / D(2 ** rng.randint(0, 12)))  # exactly a double
            elif r < 0.8:
                vals.append(D(rng.randint(-10 ** 6, 10 ** 6)).scaleb(-rng.randint(1, 8)))
            else:
                vals.append(D(rng.randint(0, 10 ** 30)).scaleb(-rng.randint(0, 30)))
        return vals
    raise MachineryError(kind)


SECRETS = ["hunter2!", "s3cr3t-value", "pass word", "p@ss:w0rd#1", "übergéheim", "0123456789", "a-very-long-secret-" + "x" * 40, "null-secret", "{json:1}",
           "[list]", "line1-line2", "trüe", "12345.678", "1e308secret", "'quoted'", '"dq"']


def secret_leaks(p, secret):
    from jsonargparse.typing import SecretStr

    leaks = []
    for how, mk in (("argv", lambda: p.parse_args(["--x=" + secret])), ("config", lambda: p.parse_string(json.dumps({"x": secret}))),
                    ("object", lambda: p.parse_object({"x": SecretStr(secret)}))):
        try:
            cfg = mk()
        except BaseException as ex:  # noqa: BLE001
            leaks.append("%s: parse raises %s" % (how, type(ex).__name__))
            continue
        if not isinstance(cfg.x, SecretStr):
            leaks.append("%s: parsed value is not a SecretStr" % how)
            continue
        # a text that reads as a YAML list/dict reaches SecretStr() loaded (SecretStr(['list'])): input typing, not C20
        held = cfg.x.get_secret_value()
        if isinstance(held, str) and held != secret:
            leaks.append("%s: parsed SecretStr holds another text" % how)
            continue
        views = {"repr(cfg)": repr(cfg), "str(cfg)": str(cfg), "str(value)": str(cfg.x), "repr(value)": repr(cfg.x)}
        for fmt in ("yaml", "json", "json_indented"):
            try:
                views["dump " + fmt] = p.dump(cfg, format=fmt)
            except Exception as ex:  # noqa: BLE001
                leaks.append("%s: dump %s raises %s" % (how, fmt, type(ex).__name__))
        try:
            views["dump with defaults"] = p.dump(cfg, skip_default=False, skip_none=False)
        except Exception:  # noqa: BLE001
            pass
        for name, text in views.items():
            if secret in text or json.dumps(secret)[1:-1] in text:
                leaks.append("%s: secret appears in %s" % (how, name))
    return leaks


# ---------------------------------------------------------------- the check
def drive(ctx, lines):
    if not lines:
        return []
    try:
        return ctx.driver("Typing", lines, timeout=1500)
    except MachineryError as ex:
        if ctx.lean_ok:
            raise
        ctx.tie_break("correspondence E8 not runnable (model does not build)", str(ex))
        return None


def run(ctx: Ctx):
    repo_python_path()
    ctx.rule = ("registries: histories of restricted_number_type / restricted_string_type / register_type / register_type_on_first_use / get_registered_type calls "
                "(real vs model: class identity, ValueError, handler tables), sorted keys, automatic names; caller-owned restriction lists edited in 9 ways after creation "
                "(real vs the predicate stated at creation); bytes/bytearray values generated from look-alike base64 texts (numbers in every radix, exponents, booleans, null); "
                "restricted numbers: every multiset of 1-2 (thorough 1-3) comparisons over 6 operators x reference values x and/or x int/float, each against a "
                "fixed pool of candidates (numbers around every bound, integral/non-integral floats, booleans, numeric texts, junk, huge ints, nan/inf) - real "
                "T(v) vs Lean model vs independent predicate, also through a real parser from argv and from a config; restricted strings: predefined + custom "
                "patterns given as str and as compiled re.Pattern with each of IGNORECASE/VERBOSE/DOTALL/MULTILINE/ASCII x text pool, judged by the ORIGINAL "
                "pattern object's match(), directly and through a real parser (argv, config); registered types: value -> dump(yaml,json) -> parse back from string/file/argv; range and timedelta codecs vs model on "
                "generated and mutated texts. non-trivial = (type spec, candidate) pairs where the candidate is accepted, codec texts that parse, and registered "
                "values that are not the type's zero; distinct by canonical JSON")
    ctx.assumptions = [
        "candidate values of restricted types are bool/int/float/str/bytes/None/list/tuple/dict; other objects with __int__/__float__ (Decimal, Fraction) are outside the quantifier",
        "texts are ASCII in the Lean model (non-ASCII digits and blanks are checked against the independent predicate only); int() digit limit (4300) not reached",
        "float(int)/float(str) are CPython's correctly rounded conversions, modelled by roundDouble and validated by correspondence; the sign of zero is not represented",
        "timedelta(**floats) is modelled on exact rationals: agrees with CPython for texts with <= 6 fraction digits and fields < 2^53 (the generators stay inside)",
        "base64 (a2b_base64 non-strict), UUID(text) and complex(text) are modelled on ASCII texts (complex: without underscores, parts as repr tokens under float(repr(x)) == x); "
        "pathlib constructors are not modelled: their round trips are evaluated on the real code only",
        "C20_text_safe/_plain_* speak about the YAML resolvers (engine Scalar, tables regenerated from the live Loader/Dumper); the emitter's analyze_scalar can only add quotes; "
        "the command line does not pass through the YAML loader for registered types",
        "registry model: restrictions passed the creation-time reference test (modelled separately by refOk); names of created types are private to a history; "
        "register_type histories use fresh importable classes and plain functions (pydantic registration is outside)",
        "None / 'null' handling of the parser (accepted when the default is None) is outside C20",
        "regex flags are resolved by the translation into the model's Re (case folding, DOTALL, MULTILINE anchors, ASCII \\s, VERBOSE via re._parser) for ASCII subjects; "
        "re.LOCALE, look-around, back-references and non-ASCII subjects (Unicode case folding, Unicode \\w/\\d) are oracle-only",
    ]
    ctx.lean_build(extractors=["registered", "typing_src", "resolvers"])
    from ..lib import corpus as corpus_mod

    corpus = corpus_mod.load(ctx.prop)
    boost = ctx.search_boost
    tmpdir = tempfile.mkdtemp(prefix="c20-")
    try:
        _run(ctx, corpus, boost, tmpdir)
    finally:
        shutil.rmtree(tmpdir, ignore_errors=True)


def _phase(ctx, name):
    """wall time per phase, kept in the evidence file"""
    now = ctx.elapsed()
    ph = ctx.extra.setdefault("phase_seconds", {})
    ph[name] = round(now - ctx.extra.get("_t_last", 0.0), 1)
    ctx.extra["_t_last"] = now


def _run(ctx: Ctx, corpus, boost, tmpdir):
    from jsonargparse import typing as m

    _phase(ctx, "lean build + audit")

    lines = []          # driver input
    expect = []         # (index into lines, kind, payload) to compare afterwards
    n_viol_before = len(ctx.violations)

    # ================================================================ restricted numbers
    refs_int = [0, 1, -2] + ([10 ** 20] if ctx.thorough else [])
    refs_float = [0, 0.5, -1.5] + ([2 ** 53, float("inf")] if ctx.thorough else [])
    pool = candidate_pool([0, 1, -2, 0.5, -1.5, 10 ** 20, 2 ** 53])
    max_len = 3 if ctx.thorough or boost > 1 else 2
    specs = []
    for c in corpus:
        if c.get("kind") == "num":
            specs.append((spec_of_replay(c), [jv_dec(v) for v in c["vals"]], "corpus"))
    for name, (base, join, rs) in PREDEFINED_NUM.items():
        specs.append(((base, join, rs), pool, "predefined:" + name))
    for base, refs in (("int", refs_int), ("float", refs_float)):
        for rs in restriction_sets(refs, max_len):
            for join in ("and", "or"):
                specs.append(((base, join, rs), pool, "exhaustive"))
    # the empty restriction list is accepted by the code: all([]) / any([])
    for base in ("int", "float"):
        for join in ("and", "or"):
            specs.append(((base, join, []), pool, "empty"))
    ctx.extra["restriction_sets"] = len(specs)
    ctx.extra["candidate_pool"] = len(pool)

    n_num_viol = 0
    parser_specs = []
    # a sample of the types is also exercised through a real parser (about 4 types per second)
    p_parser = min(1.0, ctx.budget(20, 400) * min(boost, 3) / max(1, len(specs)))
    for spec, vals, origin in specs:
        base, join, rs = spec
        meaning = None
        if origin.startswith("predefined:"):
            pname = origin.split(":", 1)[1]
            T = getattr(m, pname)
            meaning = PREDEFINED_MEANING[pname]
        else:
            try:
                T = get_num_type(spec)
            except Exception as ex:  # noqa: BLE001
                ctx.violation("restricted_number_type refuses a valid restriction set: %s" % type(ex).__name__,
                              {"kind": "num-create", "base": base, "join": join, "rs": [[s, jv_enc(r)] for s, r in rs]})
                continue
        ctx.hist("num.base", base)
        ctx.hist("num.join", join)
        ctx.hist("num.restrictions", len(rs))
        real = []
        for v in vals:
            res, raw = real_num(T, v)
            real.append(res)
            ctx.count()
            ctx.hist("num.candidate", type(v).__name__)
            if "ok" in res:
                ctx.nontrivial(("num", base, join, canon([[s, ref_tag(r)] for s, r in rs]), type(v).__name__, repr(v)))
            desc = judge_num(ctx, spec, T, v, res, raw, origin, meaning)
            if desc is not None and n_num_viol < 3:
                n_num_viol += 1
                ctx.violation("restricted number type %s(%s %s): %s; value %r" % (base, join, rs, desc, v), num_replay(spec, v))
        mvals = [(i, v) for i, v in enumerate(vals) if in_model(v)]
        lines.append({"op": "num", "base": base, "join": join, "rs": [[s, wire_num(r)] for s, r in rs], "vals": [wire_val(v) for _, v in mvals]})
        expect.append((len(lines) - 1, "num", (spec, [v for _, v in mvals], [real[i] for i, _ in mvals])))
        if origin != "exhaustive" or ctx.rng.random() < p_parser:
            parser_specs.append((spec, T, meaning))
    ctx.sample({"spec": ["int", "and", [[">", 0]]], "candidates": [repr(v) for v in pool[:12]]})

    _phase(ctx, "restricted numbers, real + predicate")
    # creation-time test of the reference value: x[1] == base_type(x[1])
    refcases = [("int", 7001), ("int", 7002.0), ("int", 7003.5), ("int", 10 ** 25 + 1), ("int", float("nan")), ("int", float("inf")), ("int", "7004"), ("int", None),
                ("float", 7005), ("float", 7006.5), ("float", 10 ** 30), ("float", 2 ** 60), ("float", 2 ** 60 + 1), ("float", float("nan")), ("float", float("inf")),
                ("float", "7007.5"), ("float", None), ("float", 10 ** 400), ("int", 1e20), ("float", 1e-320)]
    for base, ref in refcases:
        try:
            # the registry is keyed by the restrictions: reuse the name when an equal key exists (thorough tier references)
            known = m.registered_types.get(((((">", ref),)), base_of(base), "and")) if isinstance(ref, (int, float)) and ref == ref else None
            name = known.__name__ if known is not None else "C20R_%s_%s" % (base, re.sub(r"\W", "_", repr(ref))[:24])
            m.restricted_number_type(name, base_of(base), [(">", ref)])
            real = {"ok": True}
        except ValueError as ex:
            real = {"ok": False} if "Expected restrictions" in str(ex) else {"err": "ValueError"}
        except Exception as ex:  # noqa: BLE001
            real = {"err": err_name(ex)}
        ctx.count()
        lines.append({"op": "refok", "base": base, "ref": wire_val(ref, text_ok=False)})
        expect.append((len(lines) - 1, "refok", ((base, ref), real)))

    # int() / float() on a wider set: ties roundDouble and the literal grammars
    conv_vals = list(pool)
    n_conv = ctx.budget(400, 6000) * boost
    for _ in range(n_conv):
        r = ctx.rng.random()
        if r < 0.25:
            bits = ctx.rng.choice([53, 54, 55, 60, 64, 100, 1023, 1024, 1025])
            conv_vals.append(ctx.rng.choice([1, -1]) * (ctx.rng.getrandbits(bits) | (1 << (bits - 1))))
        elif r < 0.35:
            k = ctx.rng.randint(53, 80)
            conv_vals.append((1 << k) + ctx.rng.choice([-1, 0, 1]) * (1 << (k - 53)) + ctx.rng.choice([-1, 0, 1]))
        elif r < 0.75:
            digs = "".join(ctx.rng.choice("0123456789") for _ in range(ctx.rng.choice([1, 2, 5, 16, 17, 18, 25])))
            dot = ctx.rng.randint(0, len(digs))
            s = digs[:dot] + ctx.rng.choice([".", ".", ""]) + digs[dot:]
            if ctx.rng.random() < 0.6:
                s += ctx.rng.choice("eE") + ctx.rng.choice(["", "+", "-"]) + str(ctx.rng.choice([0, 1, 5, 22, 23, 100, 300, 307, 308, 309, 310, 323, 324, 325, 340]))
            conv_vals.append(ctx.rng.choice(["", "-", "+", " "]) + s)
        else:
            conv_vals.append(mutate_text(ctx.rng, ctx.rng.choice(["12", "1.5", "1e5", " 7 ", "1_000", "-0.25", "inf", "nan", "+1.e-3"]), list("0123456789 _.-+eEnifxa")))
    conv_vals = [v for v in conv_vals if in_model(v)]
    for base in ("int", "float"):
        bt = base_of(base)
        real = []
        for v in conv_vals:
            try:
                x = bt(v)
                real.append({"ok": wire_num(x), "t": base})
            except Exception as ex:  # noqa: BLE001
                real.append({"err": err_name(ex)})
            ctx.count()
        lines.append({"op": "cast", "base": base, "vals": [wire_val(v) for v in conv_vals]})
        expect.append((len(lines) - 1, "cast", (base, conv_vals, real)))

    _phase(ctx, "reference test, conversions")
    # ================================================================ restricted strings
    n_str_viol = 0
    patterns = [(n, p, None) for n, p in PREDEFINED_STR.items()] + [(None, p, None) for p in CUSTOM_REGEX] + [(None, p, f) for p, f in COMPILED_REGEX]
    from ..extractors import registered as ex_reg

    str_cands = list(STR_CANDIDATES)
    for c in corpus:
        if c.get("kind") == "str":
            if not any(p == c["pattern"] for _, p, _ in patterns):
                patterns.append((None, c["pattern"], c.get("flags")))
            str_cands += [jv_dec(v) for v in c["vals"]]
    for _ in range(ctx.budget(60, 1500) * boost):
        str_cands.append(mutate_text(ctx.rng, ctx.rng.choice(["a@b.c", "abc", "12x", "abe", "A_b9", "-1.5", " w ", "a.c", "xy", "a\n", "0x1F", "v1.2", "a\nb", "ab 12", "AbC\nX", "q\nz"]), list("ab@. \n\tcxe1-_AZvqXF\x1c")))
    for name, pat, flags in patterns:
        try:
            T = get_str_type(pat, flags)
        except Exception as ex:  # noqa: BLE001
            ctx.violation("restricted_string_type refuses pattern %r (flags %s): %s" % (pat, flags, type(ex).__name__),
                          {"kind": "str", "pattern": pat, "flags": flags, "value": jv_enc("")})
            continue
        orig = compiled_of(pat, flags)
        shown = pat if not flags else "%s [compiled, %s]" % (pat, "|".join(flags))
        real = []
        for v in str_cands:
            res, raw = real_str(T, v)
            real.append(res)
            ctx.count()
            ctx.hist("str.pattern", name or shown)
            if "ok" in res:
                ctx.nontrivial(("str", shown, repr(v)))
            desc = judge_str(pat, T, v, res, raw, flags)
            if desc is not None and n_str_viol < 3:
                n_str_viol += 1
                ctx.violation("restricted string type %s: %s; value %r" % (shown, desc, v), {"kind": "str", "pattern": pat, "flags": flags, "value": jv_enc(v)})
        # the same verdicts through a real parser, from argv and from a config
        p = make_parser(T)
        for how in ("argv", "config"):
            for v in str_cands:
                if not parser_text_ok(v):
                    continue
                desc = str_via_parser(p, T, orig, v, how)
                ctx.count()
                ctx.hist("parser.channel", "str " + how)
                if desc is not None and n_str_viol < 5:
                    n_str_viol += 1
                    ctx.violation("restricted string type %s via %s: %s; value %r" % (shown, how, desc, v),
                                  {"kind": "str", "how": how, "pattern": pat, "flags": flags, "value": jv_enc(v)})
        mv = [(i, v) for i, v in enumerate(str_cands) if in_model(v, text_ok=False)]
        line = {"op": "str", "vals": [wire_val(v, text_ok=False) for _, v in mv]}
        if name is not None:
            line["name"] = name
        else:
            try:
                line["re"] = ex_reg.regex_to_re(pat, flag_value(flags))
            except ex_reg.Unsupported:
                ctx.hist("str.oracle_only", shown)
                continue
        lines.append(line)
        expect.append((len(lines) - 1, "str", (pat, [v for _, v in mv], [real[i] for i, _ in mv])))

    _phase(ctx, "restricted strings")
    # ================================================================ codecs vs model
    n_codec = ctx.budget(400, 6000) * boost
    ranges = [list(r) for r in RANGE_FIXED] + [gen_range(ctx.rng) for _ in range(n_codec)]
    range_texts = list(RANGE_TEXTS)
    tds = [list(t) for t in TD_FIXED] + [gen_td(ctx.rng) for _ in range(n_codec)]
    td_texts = list(TD_TEXTS)
    for c in corpus:
        if c.get("kind") == "range_text":
            range_texts.append(c["s"])
        if c.get("kind") == "td_text":
            td_texts.append(c["s"])
        if c.get("kind") == "range":
            ranges.append([int(x) for x in c["r"]])
        if c.get("kind") == "td":
            tds.append(c["td"])
    for r in ranges:
        s = real_range_ser(r)
        lines.append({"op": "range_ser", "r": r})
        expect.append((len(lines) - 1, "range_ser", (r, s)))
        ctx.count()
        if "s" in s:
            range_texts.append(s["s"])
            if ctx.rng.random() < 0.6:
                range_texts.append(mutate_text(ctx.rng, s["s"], RANGE_ALPHA))
            if ctx.rng.random() < 0.2:
                range_texts.append(mutate_text(ctx.rng, mutate_text(ctx.rng, s["s"], RANGE_ALPHA), RANGE_ALPHA))
    for t in tds:
        s = real_td_str(t)
        lines.append({"op": "td_str", "td": t})
        expect.append((len(lines) - 1, "td_str", (t, s)))
        ctx.count()
        if "s" in s:
            td_texts.append(s["s"])
            if ctx.rng.random() < 0.6:
                td_texts.append(mutate_text(ctx.rng, s["s"], TD_ALPHA))
    for _ in range(n_codec):
        td_texts.append(gen_td_text(ctx.rng))
    td_texts = [s for s in td_texts if s.isascii() and td_text_in_model(s)]
    range_texts = [s for s in range_texts if s.isascii()]
    for s in range_texts:
        real = real_range_deser(s)
        lines.append({"op": "range_deser", "s": s})
        expect.append((len(lines) - 1, "range_deser", (s, real)))
        ctx.count()
        ctx.hist("range_text", "parses" if "ok" in real else "rejected")
        if "ok" in real:
            ctx.nontrivial(("range_text", s))
    for s in td_texts:
        real = real_td_deser(s)
        lines.append({"op": "td_deser", "s": s})
        expect.append((len(lines) - 1, "td_deser", (s, real)))
        ctx.count()
        ctx.hist("td_text", "parses" if "ok" in real else "rejected")
        if "ok" in real:
            ctx.nontrivial(("td_text", s))
    # bytes / bytearray (base64) and UUID codecs
    byte_strings = [[], [0], [255], [0, 0], [104, 105], [1, 2, 3], [215, 109, 248], [182, 187, 158], list(range(256))]
    for n in list(range(0, 9)) + [16, 33]:
        for _ in range(ctx.budget(6, 60) * boost):
            byte_strings.append([ctx.rng.randrange(256) for _ in range(n)])
    b64_texts = list(B64_TEXTS)
    for b in byte_strings:
        e = real_b64_enc(b)
        lines.append({"op": "b64_enc", "b": b})
        expect.append((len(lines) - 1, "b64_enc", (b, e)))
        ctx.count()
        if "s" in e:
            b64_texts.append(e["s"])
            for _ in range(2):
                b64_texts.append(mutate_text(ctx.rng, e["s"], B64_ALPHA))
            b64_texts.append(mutate_text(ctx.rng, mutate_text(ctx.rng, e["s"], B64_ALPHA), B64_ALPHA))
    uuids = [0, 1, 2 ** 128 - 1, 0x12345678123456781234567812345678, 2 ** 64, 2 ** 127]
    for _ in range(ctx.budget(60, 800) * boost):
        uuids.append(ctx.rng.choice([ctx.rng.getrandbits(128), ctx.rng.getrandbits(64), ctx.rng.getrandbits(12), ctx.rng.getrandbits(128) | (0xF << 124)]))
    uuid_texts = list(UUID_TEXTS)
    for u in uuids:
        e = real_uuid_str(u)
        lines.append({"op": "uuid_str", "u": [u]})
        expect.append((len(lines) - 1, "uuid_str", (u, e)))
        ctx.count()
        if "s" in e:
            uuid_texts.append(e["s"])
            for _ in range(2):
                uuid_texts.append(mutate_text(ctx.rng, e["s"], UUID_ALPHA))
    inf = float("inf")
    complexes = [0j, 1 + 0j, 1j, -1 - 1j, complex(0.1, -0.2), complex(1e22, 1e-22), complex(inf, 0), complex(0, -inf), complex(-0.0, -0.0), complex(1, -0.0),
                 complex(-0.0, 2), complex(float("nan"), 1), complex(1, float("nan")), complex(5e-324, 1.7976931348623157e308), complex(1e16, 0), complex(0, 1e16),
                 complex(123456789.125, -2.5)]
    for _ in range(ctx.budget(80, 1500) * boost):
        complexes.append(complex(ctx.rng.choice([0.0, -0.0, ctx.rng.uniform(-10, 10), ctx.rng.randint(-5, 5), ctx.rng.uniform(-1e20, 1e20), ctx.rng.uniform(-1e-9, 1e-9)]),
                                 ctx.rng.choice([0.0, -0.0, ctx.rng.uniform(-10, 10), ctx.rng.randint(-5, 5), ctx.rng.uniform(-1e-20, 1e-20), 1e300])))
    complex_texts = list(COMPLEX_TEXTS)
    for z in complexes:
        e = real_complex_str(z)
        lines.append({"op": "complex_str", "re": complex_part(z.real), "im": complex_part(z.imag)})
        expect.append((len(lines) - 1, "complex_str", (repr(z), e)))
        ctx.count()
        if "s" in e:
            complex_texts.append(e["s"])
            for _ in range(2):
                complex_texts.append(mutate_text(ctx.rng, e["s"], COMPLEX_ALPHA))
            # on the real code: the round trip (nan parts compare by repr)
            back = real_complex_parse(e["s"])
            if back != {"ok": [repr(z.real), repr(z.imag)]}:
                ctx.violation("complex %r does not survive str -> complex: %r" % (z, back), {"kind": "codec-rt", "type": "complex", "value": [z.real.hex(), z.imag.hex()]})
    for t in [x for x in complex_texts if x.isascii() and "_" not in x]:
        real = real_complex_parse(t)
        lines.append({"op": "complex_parse", "s": t})
        expect.append((len(lines) - 1, "complex_parse", (t, real)))
        ctx.count()
        ctx.hist("complex_text", "parses" if "ok" in real else "rejected")
        if "ok" in real:
            ctx.nontrivial(("complex_text", t))
    for c in corpus:
        if c.get("kind") == "b64_text":
            b64_texts.append(c["s"])
        if c.get("kind") == "uuid_text":
            uuid_texts.append(c["s"])
    for t in [x for x in b64_texts if x.isascii()]:
        real = real_b64_dec(t)
        lines.append({"op": "b64_dec", "s": t})
        expect.append((len(lines) - 1, "b64_dec", (t, real)))
        ctx.count()
        ctx.hist("b64_text", "parses" if "ok" in real else "rejected")
        if "ok" in real and real["ok"]:
            ctx.nontrivial(("b64_text", t))
        if real_b64_dec(t, bytearray) != real:
            ctx.violation("bytearray_deserializer and bytes_deserializer disagree on %r" % t, {"kind": "b64-pair", "s": t})
    for t in [x for x in uuid_texts if x.isascii()]:
        real = real_uuid_deser(t)
        lines.append({"op": "uuid_deser", "s": t})
        expect.append((len(lines) - 1, "uuid_deser", (t, real)))
        ctx.count()
        ctx.hist("uuid_text", "parses" if "ok" in real else "rejected")
        if "ok" in real:
            ctx.nontrivial(("uuid_text", t))
    # which tag the YAML loader gives the serialised texts when they are written plain (C20_text_plain_* / C20_text_safe)
    from jsonargparse._loaders_dumpers import dumpers, loaders

    plain_texts = {"range": [real_range_ser(r).get("s") for r in ranges[:300]], "timedelta": [real_td_str(t).get("s") for t in tds[:400]],
                   "uuid": [real_uuid_str(u).get("s") for u in uuids[:300]], "bytes": [real_b64_enc(b).get("s") for b in byte_strings[:300]],
                   "complex": [real_complex_str(z).get("s") for z in complexes[:200]]}
    plain_texts["timedelta"] += ["1:00:00", "0:00:00.500000", "23:59:59", "0:59:59", "10:00:00.000001"]
    plain_texts["bytes"] += ["1234", "true", "null", "1e10", "+123", "0x1F", "MTIz"]
    n_text_viol = 0
    for kind, texts in plain_texts.items():
        for t in texts:
            if not t:
                continue  # the empty base64 text: a null for YAML, quoted by the dumper
            try:
                loaded = loaders["yaml"](t)
            except Exception as ex:  # noqa: BLE001
                loaded = ex
            tag = yaml_tag_of(loaded) if not isinstance(loaded, Exception) else "error"
            lines.append({"op": "resolve", "s": t})
            expect.append((len(lines) - 1, "resolve", (t, tag)))
            ctx.count()
            ctx.hist("plain_text." + kind, tag)
            # on the real code: whatever the dumper writes for this text is read back as the same string
            try:
                back = loaders["yaml"](dumpers["yaml"]({"x": t}))["x"]
            except Exception as ex:  # noqa: BLE001
                back = ex
            must_plain_str = (kind in ("range", "uuid", "complex") or (kind == "timedelta" and " day" in t) or (kind == "bytes" and t.endswith("=")))
            desc = None
            if not (isinstance(back, str) and back == t):
                desc = "dumped as a YAML value it is read back as %r" % (back,)
            elif must_plain_str and tag != "str":
                desc = "written plain it is read by the YAML loader as %s" % tag
            if desc is not None and n_text_viol < 3:
                n_text_viol += 1
                ctx.violation("serialised %s text %r: %s" % (kind, t, desc), {"kind": "text-safe", "type": kind, "s": t})
    lines.append({"op": "secret", "s": "hunter2"})
    expect.append((len(lines) - 1, "secret", None))
    ctx.sample({"range_texts": range_texts[-3:], "td_texts": td_texts[-3:]})

    _phase(ctx, "codecs, real side")

    # ================================================================ registries (Core/TypingReg): correspondence + oracles on the real code
    n_hist = ctx.budget(40, 600) * boost
    names0 = c20_reg.module_names()
    for i in range(n_hist):
        calls = c20_reg.create_history(ctx.rng, ctx.seed * 100003 + i)
        real = c20_reg.run_create_history(calls)
        lines.append({"op": "create_hist", "names": names0, "calls": [{"name": c["name"], "base": c["base"], "join": c["join"], "rs": [[s, wire_num(r)] for s, r in c["rs"]]} for c in calls]})
        expect.append((len(lines) - 1, "hist", (calls, {"r": real})))
        ctx.count(len(calls))
        ctx.hist("registry", "restricted_number_type history")
        if any("id" in o for o in real):
            ctx.nontrivial(("create_hist", canon(calls)))
        rs = [(s, r) for c in calls for s, r in c["rs"]][:6]
        lines.append({"op": "sortkey", "rs": [[s, wire_num(r)] for s, r in rs]})
        expect.append((len(lines) - 1, "hist", (rs, {"r": [[s, wire_num(r) if not isinstance(r, int) else {"q": [r, 1]}] for s, r in sorted(rs)]})))
    for i in range(ctx.budget(15, 200)):
        refs = [ctx.rng.randint(-50, 50) + 7000 * (i + 1) for _ in range(ctx.rng.choice([1, 2, 3]))]
        rs = sorted((ctx.rng.choice(SYMS), r) for r in refs)
        base, join = ctx.rng.choice(["int", "float"]), ctx.rng.choice(["and", "or"])
        try:
            T = m.restricted_number_type(None, base_of(base), list(rs), join)
        except ValueError:
            continue  # the automatic name of another key (sorted differently) is taken
        lines.append({"op": "autoname", "base": base, "join": join, "rs": [[s, r] for s, r in rs]})
        expect.append((len(lines) - 1, "hist", (rs, {"name": T.__name__, "expr": T._expression})))
        ctx.count()
    # restricted_string_type histories: the key is the pattern text
    for i in range(ctx.budget(6, 60)):
        pat = "^c20s%d_%d[a-z]$" % (ctx.seed, i)
        calls = [{"name": ctx.rng.choice(["C20S%d_%d" % (ctx.seed, i), "C20S%d_%dx" % (ctx.seed, i)]), "pattern": pat, "flags": ctx.rng.choice([[], ["IGNORECASE"], ["DOTALL"]])}
                 for _ in range(ctx.rng.randint(2, 4))]
        real, seen = [], {}
        for c in calls:
            try:
                T = m.restricted_string_type(c["name"], compiled_of(c["pattern"], c["flags"]))
                seen.setdefault(id(T), len(seen))
                real.append({"id": seen[id(T)], "flags": int(T._regex.flags)})
            except ValueError:
                real.append({"err": "ValueError"})
        lines.append({"op": "str_hist", "names": names0, "calls": [{"name": c["name"], "pattern": c["pattern"], "flags": int(compiled_of(c["pattern"], c["flags"]).flags)} for c in calls]})
        expect.append((len(lines) - 1, "hist", (calls, {"r": real})))
        ctx.count(len(calls))
    # register_type / register_type_on_first_use / get_registered_type histories on fresh classes
    rh = c20_reg.RegHistory(tmpdir)
    try:
        for i in range(ctx.budget(40, 600) * boost):
            n_cls, calls = c20_reg.gen_reg_history(ctx.rng)
            real = rh.run(n_cls, calls)
            lines.append({"op": "reg_hist", "n": n_cls, "calls": c20_reg.wire_reg_calls(calls)})
            expect.append((len(lines) - 1, "hist", (calls, {"r": real})))
            ctx.count(len(calls))
            ctx.hist("registry", "register_type history")
            if any(o["res"] == "ValueError" for o in real):
                ctx.nontrivial(("reg_hist", canon(calls)))
    finally:
        rh.cleanup()
    # Decimal through the registered serializer vs decimalRoundTrip
    import decimal as _decimal

    dser = handler(_decimal.Decimal).serializer
    for d in c20_reg.decimal_cases(ctx.rng, ctx.budget(60, 1500)):
        line, real = c20_reg.decimal_line(d, dser)
        if "err" in real:
            continue
        lines.append(line)
        expect.append((len(lines) - 1, "hist", (str(d), real)))
        ctx.count()
    # oracle (real code only): a type is immune to later edits of the caller's restriction list; same name + same key = same class
    n_alias_viol = 0
    alias_cases = [c for c in corpus if c.get("kind") == "alias"]
    alias_cases += [c20_reg.gen_alias_case(ctx.rng, ctx.seed * 100003 + i) for i in range(ctx.budget(60, 900) * boost)]
    for case in alias_cases:
        desc = c20_reg.alias_case(case)
        ctx.count(40)
        ctx.hist("alias.mutation", case["mutation"])
        ctx.nontrivial(("alias", case["tag"]))
        if desc is not None and n_alias_viol < 3:
            n_alias_viol += 1
            ctx.violation("restricted number type %s(%s %s), caller's list edited by %s: %s" % (case["base"], case["join"], case["rs"], case["mutation"], desc),
                          dict(case, kind="alias"))
    # oracle (real code only): the returned string type validates with the pattern object of this call
    for pat, f1, f2, texts in c20_reg.STR_FLAG_CASES:
        for text in texts:
            case = {"kind": "str-flags", "pattern": pat, "flags1": f1, "flags2": f2, "value": text}
            desc = c20_reg.str_flags_case(case)
            ctx.count()
            if desc is not None:
                if ctx.is_open(FINDING_STR_FLAGS):
                    ctx.known(FINDING_STR_FLAGS, "restricted_string_type(%r): %s" % (pat, desc))
                else:
                    ctx.violation("restricted_string_type(%r): %s" % (pat, desc), case)
    _phase(ctx, "registries: histories, aliasing oracle")
    # ================================================================ run the model, diff
    model = drive(ctx, lines)
    disagreements = 0
    if model is not None:
        for idx, kind, payload in expect:
            got = model[idx]
            if kind in ("num", "cast", "str"):
                head, vals, real = payload
                mres = got.get("r")
                if mres is None or len(mres) != len(real):
                    disagreements += 1
                    ctx.tie_break("correspondence E8 (%s): malformed model answer" % kind, canon(got)[:400])
                    continue
                for v, a, b in zip(vals, real, mres):
                    if canon(a) != canon(b):
                        disagreements += 1
                        if disagreements <= 4:
                            ctx.tie_break("correspondence E8 (%s: typing.py vs Lean model) disagrees" % kind,
                                          json.dumps({"case": repr(head), "value": repr(v), "real": a, "model": b}, ensure_ascii=True)[:1500])
            elif kind == "complex_parse":
                head, real = payload
                mod = got
                if "ok" in got:
                    try:
                        mod = {"ok": [repr(float(x)) for x in got["ok"]]}
                    except ValueError:
                        mod = {"bad-token": got["ok"]}
                if canon(real) != canon(mod):
                    disagreements += 1
                    if disagreements <= 4:
                        ctx.tie_break("correspondence E8 (complex_parse: complex() vs Lean model) disagrees",
                                      json.dumps({"input": head, "real": real, "model": got}, ensure_ascii=True)[:600])
            elif kind == "resolve":
                text, tag = payload
                names = ["str", "null", "bool", "int", "float"]
                mtag = names[got.get("l", 99)] if got.get("l", 99) < len(names) else "other"
                if mtag != tag:
                    disagreements += 1
                    if disagreements <= 4:
                        ctx.tie_break("correspondence E8/Scalar (loader tag of a plain serialised text vs resolveLoad) disagrees",
                                      json.dumps({"text": text, "real": tag, "model": got}, ensure_ascii=True)[:600])
            elif kind == "hist":
                head, real = payload
                if lines[idx]["op"] == "reg_hist":
                    for o in got.get("r", []):
                        o["st"]["u"] = sorted(o["st"]["u"])
                if canon(real) != canon(got):
                    disagreements += 1
                    if disagreements <= 4:
                        ctx.tie_break("correspondence E8 (%s: typing.py registries vs Lean model) disagrees" % lines[idx]["op"],
                                      json.dumps({"input": lines[idx], "real": real, "model": got}, ensure_ascii=True, default=str)[:1800])
            elif kind == "secret":
                if got.get("s") != str(m.SecretStr("hunter2")):
                    disagreements += 1
                    ctx.tie_break("correspondence E8 (SecretStr serializer vs model) disagrees", canon(got))
            else:
                head, real = payload
                if canon(real) != canon(got):
                    disagreements += 1
                    if disagreements <= 4:
                        ctx.tie_break("correspondence E8 (%s: typing.py vs Lean model) disagrees" % kind,
                                      json.dumps({"input": head, "real": real, "model": got}, ensure_ascii=True)[:1500])
    ctx.extra["correspondence_disagreements"] = disagreements
    ctx.extra["model_lines"] = len(lines)
    boost = max(boost, ctx.search_boost)

    _phase(ctx, "model driver + diff")
    # ================================================================ oracle: codec round trips on the real functions
    n_rt_viol = 0
    for r in ranges:
        s = real_range_ser(r)
        back = real_range_deser(s["s"]) if "s" in s else s
        ctx.count()
        if back != {"ok": r} and n_rt_viol < 3:
            n_rt_viol += 1
            ctx.violation("range %r does not survive serializer -> deserializer: %r" % (r, back), {"kind": "codec-rt", "type": "range", "value": [str(x) for x in r]})
    for t in tds:
        s = real_td_str(t)
        back = real_td_deser(s["s"]) if "s" in s else s
        ctx.count()
        if back != {"ok": t} and n_rt_viol < 6:
            n_rt_viol += 1
            ctx.violation("timedelta %r does not survive str -> timedelta_deserializer: %r" % (t, back), {"kind": "codec-rt", "type": "timedelta", "value": t})

    for b in byte_strings:
        e = real_b64_enc(b)
        back = real_b64_dec(e["s"]) if "s" in e else e
        ctx.count()
        if back != {"ok": b} and n_rt_viol < 8:
            n_rt_viol += 1
            ctx.violation("bytes %r do not survive bytes_serializer -> bytes_deserializer: %r" % (bytes(b), back), {"kind": "codec-rt", "type": "bytes", "value": b})
    for u in uuids:
        e = real_uuid_str(u)
        back = real_uuid_deser(e["s"]) if "s" in e else e
        ctx.count()
        if back != {"ok": u} and n_rt_viol < 10:
            n_rt_viol += 1
            ctx.violation("UUID %032x does not survive str -> UUID: %r" % (u, back), {"kind": "codec-rt", "type": "UUID", "value": str(u)})

    # ================================================================ oracle: restricted types through a real parser
    n_p_viol = 0
    argv_texts = [v for v in pool if isinstance(v, str) and v.strip().lower() not in ("null", "~", "") and "\n" not in v]
    cfg_vals = [v for v in pool if isinstance(v, (bool, int, str)) or (isinstance(v, float) and math.isfinite(v))]
    cfg_vals = [v for v in cfg_vals if not (isinstance(v, str) and v.strip().lower() in ("null", "~"))]
    ctx.extra["parser_level_types"] = len(parser_specs)
    for spec, T, meaning in parser_specs:
        base, join, rs = spec
        p = make_parser(T)
        for how, vals in (("argv", argv_texts), ("config", cfg_vals)):
            for v in vals:
                try:
                    cfg = p.parse_args(["--x=" + v]) if how == "argv" else p.parse_string(json.dumps({"x": v}))
                    raw = cfg.x
                    res = {"ok": True}
                except BaseException as ex:  # noqa: BLE001
                    raw, res = None, {"err": type(ex).__name__}
                ctx.count()
                ctx.hist("parser.channel", how)
                want = oracle_num(base, join, rs, v, meaning)
                desc = None
                if want is None and "ok" in res:
                    desc = "parser accepts a value the type must reject"
                elif want is not None and "err" in res:
                    desc = "parser rejects (%s) a value the type must accept" % res["err"]
                elif want is not None and (type(raw) is not T or (repr(base_of(base)(raw)) != repr(want) and not (want == 0 and raw == 0))):
                    desc = "parser returns %r (%s) for %r" % (raw, type(raw).__name__, want)
                elif want is not None:
                    # dump and parse back
                    try:
                        back = p.parse_string(p.dump(cfg)).x
                        if type(back) is not T or not (back == raw or (raw != raw and back != back)):
                            desc = "dump/parse of the accepted value returns %r for %r" % (back, raw)
                    except BaseException as ex:  # noqa: BLE001
                        desc = "dump/parse of the accepted value raises %s" % type(ex).__name__
                if desc is not None and n_p_viol < 3:
                    n_p_viol += 1
                    ctx.violation("restricted number type %s(%s %s) via %s: %s; value %r" % (base, join, rs, how, desc, v), num_replay(spec, v, how))

    _phase(ctx, "codec round trips, restricted types through parsers")
    # ================================================================ oracle: registered types through a real parser
    n_reg = ctx.budget(12, 300) * boost
    n_reg_viol = 0
    for kind in REG_KINDS:
        tp = reg_type(kind)
        p = make_parser(tp)
        vals = reg_values(kind, ctx.rng, n_reg)
        for c in corpus:
            if c.get("kind") == "roundtrip" and c["type"] == kind:
                vals.insert(0, reg_dec(kind, c["value"]))
        for v in vals:
            fails = roundtrip_failures(p, v, tmpdir)
            ctx.count(6)
            ctx.hist("registered", kind)
            if v:
                ctx.nontrivial(("reg", kind, repr(v)))
            for fmt, ch, desc in fails:
                if kind == "Decimal" and ch != "dump" and not decimal_survives_float(v, ch) and ctx.is_open(FINDING_DECIMAL):
                    ctx.known(FINDING_DECIMAL, "Decimal does not survive the registered float serializer (e.g. %r via %s/%s: %s)" % (v, fmt, ch, desc))
                    continue
                if n_reg_viol < 4:
                    n_reg_viol += 1
                    ctx.violation("registered type %s: %r -> dump(%s) -> parse from %s %s" % (kind, v, fmt, ch, desc),
                                  {"kind": "roundtrip", "type": kind, "value": reg_enc(kind, v), "format": fmt, "channel": ch})
    ctx.sample({"registered": {k: repr(reg_values(k, ctx.rng, 0)[:2]) for k in ("timedelta", "range", "Decimal")}})

    # SecretStr
    from jsonargparse.typing import SecretStr

    p = make_parser(SecretStr)
    secrets = list(SECRETS) + ["sec-%08x-%s" % (ctx.rng.getrandbits(32), ctx.rng.choice(["a b", "x:y", "#", "é", "1.5"])) for _ in range(ctx.budget(10, 200))]
    for sct in secrets:
        leaks = secret_leaks(p, sct)
        ctx.count(3)
        ctx.hist("registered", "SecretStr")
        ctx.nontrivial(("secret", sct))
        if leaks:
            ctx.violation("SecretStr: %s" % "; ".join(leaks[:3]), {"kind": "secret", "secret": sct})
            break

    _phase(ctx, "registered types through parsers, SecretStr")
    # ================================================================ findings
    for f in ctx.open_findings():
        if replay_case(f["witness"], quiet=True):
            ctx.known(f["id"], f["description"])
        else:
            ctx.stale_findings.append(f["id"])
    # observation recorded, judged outside C20 (channel agreement is C05): argv text '1.0' vs config float 1.0 for a restricted int
    try:
        p = make_parser(m.PositiveInt)
        a = "accepted"
        try:
            p.parse_args(["--x=1.0"])
        except BaseException:  # noqa: BLE001
            a = "rejected"
        b = "accepted"
        try:
            p.parse_string("x: 1.0")
        except BaseException:  # noqa: BLE001
            b = "rejected"
        ctx.extra["observation_restricted_int_1.0"] = {"argv_text_1.0": a, "config_float_1.0": b,
                                                       "note": "consistent with C20 (int('1.0') does not convert, int(1.0) does); the channel difference belongs to C05"}
    except Exception:  # noqa: BLE001
        pass
    ctx.extra["new_violations"] = len(ctx.violations) - n_viol_before
    _phase(ctx, "findings replay")
    ctx.extra.pop("_t_last", None)


def td_text_in_model(s):
    """exactness assumption of the timedelta model: numeric fields < 2^53 and at most 6 fraction digits"""
    for mnum in re.finditer(r"\d+", s):
        if len(mnum.group(0)) > 15:
            return False
    for mfrac in re.finditer(r"(\d*)\.(\d+)", s):
        if len(mfrac.group(2)) > 6 or len(mfrac.group(1)) > 9:
            return False
    return True


# ---------------------------------------------------------------- replay
def replay_case(b, quiet=False):
    """re-run one stored case on the real code; True if it still fails"""
    from jsonargparse import typing as m

    def say(*a):
        if not quiet:
            print(*a)

    kind = b["kind"]
    if kind == "num":
        spec = spec_of_replay(b)
        v = jv_dec(b["value"])
        T = None
        meaning = None
        for name, ps in PREDEFINED_NUM.items():
            if (ps[0], ps[1], [tuple(x) for x in ps[2]]) == (spec[0], spec[1], [tuple(x) for x in spec[2]]):
                T, meaning = getattr(m, name), PREDEFINED_MEANING[name]
        T = T or get_num_type(spec)
        how = b.get("how", "direct")
        if how == "direct":
            res, raw = real_num(T, v)
            desc = judge_num(None, spec, T, v, res, raw, "replay", meaning)
            say("T = %s, value %r -> %r; %s" % (T.__name__, v, res, desc))
            return desc is not None
        p = make_parser(T)
        want = oracle_num(spec[0], spec[1], spec[2], v, meaning)
        try:
            cfg = p.parse_args(["--x=" + v]) if how == "argv" else p.parse_string(json.dumps({"x": v}))
            got = cfg.x
            ok = True
        except BaseException as ex:  # noqa: BLE001
            got, ok = type(ex).__name__, False
        say("T = %s via %s, value %r -> %r (expected %r)" % (T.__name__, how, v, got, want))
        if (want is None) != (not ok):
            return True
        if ok:
            if type(got) is not T or repr(base_of(spec[0])(got)) != repr(want):
                return True
            back = p.parse_string(p.dump(cfg)).x
            return not (type(back) is T and back == got)
        return False
    if kind == "num-create":
        try:
            get_num_type(spec_of_replay(b))
            return False
        except Exception as ex:  # noqa: BLE001
            say("creation raises", repr(ex))
            return True
    if kind == "str":
        flags = b.get("flags")
        T = get_str_type(b["pattern"], flags)
        v = jv_dec(b["value"])
        if b.get("how", "direct") != "direct":
            desc = str_via_parser(make_parser(T), T, compiled_of(b["pattern"], flags), v, b["how"])
            say("pattern %r flags %s via %s, value %r: %s" % (b["pattern"], flags, b["how"], v, desc))
            return desc is not None
        res, raw = real_str(T, v)
        desc = judge_str(b["pattern"], T, v, res, raw, flags)
        say("pattern %r flags %s, value %r -> %r; %s" % (b["pattern"], flags, v, res, desc))
        return desc is not None
    if kind == "codec-rt":
        if b["type"] == "bytes":
            e = real_b64_enc(b["value"])
            back = real_b64_dec(e["s"]) if "s" in e else e
            say("bytes", b["value"], "->", e, "->", back)
            return back != {"ok": b["value"]}
        if b["type"] == "complex":
            z = complex(float.fromhex(b["value"][0]), float.fromhex(b["value"][1]))
            e = real_complex_str(z)
            back = real_complex_parse(e["s"]) if "s" in e else e
            say("complex", z, "->", e, "->", back)
            return back != {"ok": [repr(z.real), repr(z.imag)]}
        if b["type"] == "UUID":
            u = int(b["value"])
            e = real_uuid_str(u)
            back = real_uuid_deser(e["s"]) if "s" in e else e
            say("UUID", u, "->", e, "->", back)
            return back != {"ok": u}
        if b["type"] == "range":
            r = [int(x) for x in b["value"]]
            s = real_range_ser(r)
            back = real_range_deser(s["s"]) if "s" in s else s
            say("range", r, "->", s, "->", back)
            return back != {"ok": r}
        t = b["value"]
        s = real_td_str(t)
        back = real_td_deser(s["s"]) if "s" in s else s
        say("timedelta", t, "->", s, "->", back)
        return back != {"ok": t}
    if kind == "roundtrip":
        tp = reg_type(b["type"])
        v = reg_dec(b["type"], b["value"])
        d = tempfile.mkdtemp(prefix="c20-")
        try:
            fails = roundtrip_failures(make_parser(tp), v, d)
        finally:
            shutil.rmtree(d, ignore_errors=True)
        if "channel" in b:
            fails = [f for f in fails if f[1] == b["channel"] and f[0] == b.get("format", f[0])] or fails
        for f in fails:
            say("%s %r: dump(%s) -> parse from %s %s" % (b["type"], v, f[0], f[1], f[2]))
        return bool(fails)
    if kind == "text-safe":
        from jsonargparse._loaders_dumpers import dumpers, loaders

        t = b["s"]
        back = loaders["yaml"](dumpers["yaml"]({"x": t}))["x"]
        plain = loaders["yaml"](t)
        say("text %r: dump/load -> %r; read plain -> %r" % (t, back, plain))
        must = b["type"] in ("range", "uuid", "complex") or (b["type"] == "timedelta" and " day" in t) or (b["type"] == "bytes" and t.endswith("="))
        return not (isinstance(back, str) and back == t) or (must and not isinstance(plain, str))
    if kind == "alias":
        desc = c20_reg.alias_case(b)
        say("caller's list edited by %s: %s" % (b["mutation"], desc))
        return desc is not None
    if kind == "str-flags":
        desc = c20_reg.str_flags_case(b)
        say(desc)
        return desc is not None
    if kind == "b64-pair":
        return real_b64_dec(b["s"], bytearray) != real_b64_dec(b["s"])
    if kind == "secret":
        from jsonargparse.typing import SecretStr

        leaks = secret_leaks(make_parser(SecretStr), b["secret"])
        say("leaks:", leaks)
        return bool(leaks)
    raise MachineryError("unknown replay kind %r" % kind)


def replay(ctx: Ctx, body):
    repo_python_path()
    b = body["replay"]
    if "kind" not in b:
        print("this replay has no concrete input (broken tie):", json.dumps(b)[:2000])
        return 1
    bad = replay_case(b)
    print("still failing" if bad else "no longer failing")
    return 1 if bad else 0

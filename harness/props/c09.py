"""C09 — a parser's answers do not depend on what it was asked before.

Pipeline
  1. regenerate Gen/PState (context-variable sets/resets, parse-time writes to parser/action objects, the facts the
     model consults) and build Props/C09 (invariant theorem for ALL histories; `decide` obligations tie the
     regenerated facts to the assumptions of the theorem).
  2. REAL parsers (two kinds: A = sub-commands + subclass argument + class group with a dataclass parameter + parse
     link + instantiate link + config-file arguments + default_env, exit_on_error=False; B = default_config_files,
     exit_on_error=True, dataclass arguments, links) built by one builder function; component classes live in a
     module file under tempfile.mkdtemp().
  3. histories of 2-12 operations of ~22 kinds on ONE reused parser; every step is also run on a FRESH parser from
     the same builder inside a fresh contextvars.Context (= a fresh process as far as context variables go), and on
     the model (Drv/PState).  Compared three ways:
        reused vs fresh  (result | ArgumentError text | exit status + stdout)          the property's oracle
        real   vs model  outcome class AND the state of every carrier after every step   correspondence
        reused parser's object graph vs a fresh one, known carriers masked               unknown-carrier probe
     also with two different parsers interleaved in one process.
  4. fixed findings (F12, F09b) are replayed through their demos.
Outside the observable (DESIGN, C09): usage text on stderr (gains --print_shtab after the first parse_args); the
--print_shtab entry of help texts is masked for the same reason.
"""
from __future__ import annotations

import atexit
import contextlib
import contextvars
import copy
import io
import itertools
import json
import os
import re
import shutil
import sys
import tempfile
import warnings

from ..lib.common import Ctx, MachineryError, repo_python_path

MANIFEST = {
    "engine": "E12-PState",
    "technique": "Lean 4 invariant proof over a model of all state that outlives a call (histories of any length, any number of "
                 "parsers) + a generic value-carrying engine for bracketed code (any nesting of context managers from the regenerated "
                 "bracket table, writes, reads, branches, exceptions raised at ANY point) + facts and write tables regenerated from the "
                 "source by AST (every module: parser/action attribute writes, module globals, class attributes, caching decorators) + "
                 "differential runs on real parsers: reused parser vs fresh parser in a fresh context vs fresh parser in a fresh PROCESS vs "
                 "the model, in the same context / a fresh context per call / a new thread per call",
    "text": "Theorems in lean/Jap/Props/C09.lean prove (1) for the transcription of every public operation (Core/PState): for every history "
            "of parse_args/parse_object/parse_string/parse_env/get_defaults/dump/validate/instantiate_classes/help/print_config operations "
            "(successful, failing, exiting) on any number of parsers, the answer of a further operation equals its answer on freshly built "
            "parsers (invariant: every carrier is written before it is read within the operation or restored by every operation); (2) for "
            "ANY code over value-carrying locations built from writes, reads, branches on the value held, try/except, try/finally and "
            "`with` brackets (Core/PStateCtx): if it obeys a discipline decidable on the syntax, then after any history of such operations, "
            "with exceptions raised before/after any of their steps, every restored location holds its default and the answer (raised? + "
            "all values read) equals the answer on fresh state; the bracket skeletons of the public operations are built over the "
            "REGENERATED bracket table (Gen/Brackets: place of each reset) and shown disciplined by kernel evaluation. The facts the first "
            "model consults, the list of context variables, every write to a parser/action/group attribute reachable from a public entry "
            "point (every module, every receiver name) and every write to process-level state (names declared global, module-level "
            "containers, class attributes, caching decorators; every function) are regenerated from /repo on every run and must be "
            "classified (carrier written where the model expects / restored / memo of a constant / declaration-time / fresh object): an "
            "unclassified write is a broken tie. Real parsers are run reused vs fresh vs model (22 kinds of operation, answers and the state "
            "of every carrier after every step) and in wide histories (every keyword of every method, parse_known_args, get_default, save, "
            "strip_unknown, merge_config, print_help, changing os.environ and default-config-file content, three ways of reusing a parser, a "
            "fresh parser asked in the context the history left, a fresh parser in a fresh process as reference, object graph / context "
            "variables / module globals / class attributes / cwd compared with a pristine baseline; directed parts: operations that fail AFTER "
            "a prefix was accepted (exception through every open bracket), a parser whose defaults cannot be completed, calls on a decoy "
            "parser that leave the unreset context variables at every possible content x the operations that read them (finite scope), "
            "sandwiches reader / legitimate change of the process (module import, default config content, decoy, broken parser) / same "
            "reader, readers of partly given typed values at the end of every history, and a continuation search (every reader, alone and "
            "after each kind of change) whenever a probe finds something left behind, so that a broken tie comes with a concrete replay). "
            "Bridge: carriers of the transcription <-> locations of the bracket engine, invariant maps to invariant, and per operation both "
            "engines agree on outcome and on which carriers are left changed (171 argv shapes + the other operations, kernel evaluation).",
    "level_note": "Trusted: Lean kernel; axioms propext/Quot.sound/Classical.choice only; the AST extractors (name-based call graph, the "
                  "tables of known writes); the classification of argv elements into the model's token kinds; that the bracket skeletons "
                  "of Lemmas/PStateCtxOps.lean name the context managers each operation really enters (tied to the source only through the "
                  "regenerated bracket table and the list of context variables, not by a run-time trace); the harness. Outside: usage text on "
                  "stderr and the lazily added --print_shtab entry of help texts; caches inside argparse/PyYAML/inspect; stdin ('-' "
                  "arguments); --print_shtab itself; argcomplete; logging configuration; jsonnet ext_vars; `action.default` rewritten by the "
                  "help formatter is put back by straight-line code, not in a finally (theorem ctx_help_default_not_fault_tolerant; no "
                  "real input that raises in between is known).",
}

MODNAME = "c09_components"
COMPONENTS_SRC = '''
import dataclasses
from typing import List, Optional


@dataclasses.dataclass
class Data:
    x: int = 1
    y: str = "q"


class Inner:
    def __init__(self, k: int = 0):
        self.k = k


class Base:
    def __init__(self, width: int = 8, depth: int = 2):
        self.width = width
        self.depth = depth
        self.out = width * 2


class Sub(Base):
    def __init__(self, width: int = 8, depth: int = 2, rate: float = 0.5, inner: Optional[Inner] = None):
        super().__init__(width, depth)
        self.rate = rate
        self.inner = inner


class Other(Base):
    def __init__(self, width: int = 4, depth: int = 1, tag: str = "o"):
        super().__init__(width, depth)
        self.tag = tag


class Req(Base):
    def __init__(self, k: int, width: int = 2, depth: int = 1):
        super().__init__(width, depth)
        self.k = k


class Trainer:
    def __init__(self, size: int = 0, opt: Optional[Data] = None, steps: int = 10):
        self.size = size
        self.opt = opt
        self.steps = steps
'''

_ENV = {}


def env_dir():
    """temp dir with the component module and the config files; created once, removed at exit"""
    if "dir" in _ENV:
        return _ENV["dir"]
    d = os.path.realpath(tempfile.mkdtemp(prefix="c09_"))
    atexit.register(shutil.rmtree, d, ignore_errors=True)
    with open(os.path.join(d, MODNAME + ".py"), "w") as f:
        f.write(COMPONENTS_SRC)
    files = {
        "a1.yaml": "a: 11\nname: fromfile\n",
        "a2.yaml": "model:\n  class_path: %s.Other\n  init_args:\n    tag: filed\n" % MODNAME,
        "fit1.yaml": "lr: 0.25\n",
        "bad1.yaml": "a: notint\n",
        "bad2.yaml": "a: [1\n",
        "whole_a.yaml": "a: 6\nsubcommand: fit\nfit:\n  lr: 0.75\n",
        "whole_b.yaml": "a: 6\nflag: true\n",
        "b_defaults.yaml": "a: 7\n",
    }
    for n, c in files.items():
        with open(os.path.join(d, n), "w") as f:
            f.write(c)
    sys.path.insert(0, d)
    _ENV["dir"] = d
    return d


def components():
    env_dir()
    import importlib

    return importlib.import_module(MODNAME)


def build_parser(kind):
    """THE builder function: every call returns a fresh, identically configured parser"""
    from typing import List, Optional

    from jsonargparse import ActionConfigFile, ArgumentParser, lazy_instance

    m = components()
    d = env_dir()
    if kind == "A":
        p = ArgumentParser(prog="app", exit_on_error=False, default_env=True, env_prefix="APP")
        p.add_argument("--cfg", action=ActionConfigFile)
        p.add_argument("--a", type=int, default=1)
        p.add_argument("--name", type=Optional[str], default=None)
        p.add_argument("--lst", type=List[int], default=[1, 2])
        p.add_subclass_arguments(m.Base, "model", default=lazy_instance(m.Sub, width=3))
        p.add_class_arguments(m.Trainer, "trainer")
        p.link_arguments("a", "model.init_args.depth")
        p.link_arguments("model.out", "trainer.size", apply_on="instantiate")
        sc = p.add_subcommands(required=True)
        fit = ArgumentParser(exit_on_error=False)
        fit.add_argument("--cfg", action=ActionConfigFile)
        fit.add_argument("--lr", type=float, default=0.1)
        fit.add_argument("--sched", type=Optional[m.Base], default=None)
        test = ArgumentParser(exit_on_error=False)
        test.add_argument("--ckpt", type=Optional[str], default=None)
        test.add_argument("--n", type=int, default=3)
        sc.add_subcommand("fit", fit)
        sc.add_subcommand("test", test)
        return p
    if kind == "B":
        p = ArgumentParser(prog="tool", exit_on_error=True, default_config_files=[os.path.join(d, "b_defaults.yaml")])
        p.add_argument("--cfg", action=ActionConfigFile)
        p.add_argument("--a", type=int, default=1)
        p.add_argument("--flag", type=bool, default=False)
        p.add_argument("--model", type=Optional[m.Base], default=None)
        p.add_argument("--data", type=Optional[m.Data], default=None)
        p.add_class_arguments(m.Trainer, "trainer")
        p.link_arguments("a", "trainer.steps")
        p.link_arguments("a", "model.init_args.inner.init_args.k")   # nested target: adapt_class_type informs the per-class parser
        p.link_arguments("model.width", "trainer.size", apply_on="instantiate")
        return p
    if kind == "D":
        # a parser whose DEFAULTS cannot be completed (the default of a subclass-typed argument carries an invalid init_args value:
        # defaults are not validated when the argument is added): its operations fail inside add_sub_defaults / get_defaults
        p = ArgumentParser(prog="bad", exit_on_error=False)
        p.add_argument("--a", type=int, default=1)
        p.add_argument("--model", type=m.Base, default={"class_path": MODNAME + ".Sub", "init_args": {"width": "notint"}})
        p.add_class_arguments(m.Trainer, "trainer")
        return p
    raise ValueError(kind)


SUBS = {"A": ["fit", "test"], "B": [], "D": []}
SUB_ID = 100000   # ids of the argument lists handed to sub-command parsers: step id + SUB_ID
EXIT_ON_ERROR = {"A": False, "B": True}
LINKED0 = {"A": [1], "B": [2]}   # model ids of the linked targets recorded at build time (A: model.init_args.depth, B: …inner.init_args.k)

# ------------------------------------------------------------------ canonical values
ADDR_RE = re.compile(r"0x[0-9a-fA-F]{6,}")


def norm_text(s):
    s = s.replace(env_dir(), "<TMP>")
    return ADDR_RE.sub("0xADDR", s)


def canon(v, depth=0):
    from jsonargparse import Namespace
    from jsonargparse._util import Path

    if depth > 12:
        return "<deep>"
    if isinstance(v, Namespace):
        return {"N": {k: canon(x, depth + 1) for k, x in sorted(vars(v).items())}}
    if isinstance(v, dict):
        return {"D": {str(k): canon(x, depth + 1) for k, x in sorted(v.items(), key=lambda kv: str(kv[0]))}}
    if isinstance(v, list):
        return [canon(x, depth + 1) for x in v]
    if isinstance(v, tuple):
        return {"T": [canon(x, depth + 1) for x in v]}
    if isinstance(v, (set, frozenset)):
        return {"S": sorted(json.dumps(canon(x, depth + 1), sort_keys=True) for x in v)}
    if v is None or isinstance(v, (bool, int)):
        return v
    if isinstance(v, str):
        return norm_text(v)
    if isinstance(v, float):
        return {"F": repr(v)}
    if isinstance(v, Path):
        return {"P": norm_text(str(v)), "mode": v.mode}
    if type(v).__module__ == MODNAME or (hasattr(v, "__dict__") and not callable(v)):
        try:
            return {"O": type(v).__name__, "vars": {k: canon(x, depth + 1) for k, x in sorted(vars(v).items())}}
        except TypeError:
            pass
    return {"R": norm_text(repr(v))}


HELP_SHTAB_RE = re.compile(r"(ARG:\s+)?--print_shtab \{[^}]*\}\s+(ENV:\s+\S+\s+)?Print shtab shell completion script\.\s*")


def norm_help(text):
    """help text without the usage paragraph and without the lazily added --print_shtab entry (outside the observable)"""
    parts = text.split("\n\n", 1)
    body = parts[1] if len(parts) == 2 and parts[0].lstrip().startswith("usage:") else text
    body = re.sub(r"\s+", " ", body)
    body = HELP_SHTAB_RE.sub("", body)
    return norm_text(body).strip()


def norm_stderr(text):
    """only the `error: ...` part (usage text is outside the observable)"""
    m = re.search(r"^error: ", text, re.M)
    return norm_text(text[m.start():]) if m else ""


# ------------------------------------------------------------------ running one operation on the real code
@contextlib.contextmanager
def quiet():
    out, err = io.StringIO(), io.StringIO()
    with contextlib.redirect_stdout(out), contextlib.redirect_stderr(err), warnings.catch_warnings():
        warnings.simplefilter("ignore")
        yield out, err


@contextlib.contextmanager
def patched_environ(extra):
    old = dict(os.environ)
    for k in [k for k in os.environ if k.startswith(("APP_", "TOOL_", "JSONARGPARSE_"))]:
        del os.environ[k]
    os.environ.update(extra or {})
    try:
        yield
    finally:
        os.environ.clear()
        os.environ.update(old)


def subst(x):
    """replace the placeholders of stored operations by the temp dir / module name of this process"""
    if isinstance(x, str):
        return x.replace("<TMP>", env_dir()).replace("<MOD>", MODNAME)
    if isinstance(x, list):
        return [subst(y) for y in x]
    if isinstance(x, dict):
        return {k: subst(v) for k, v in x.items()}
    return x


def apply_edit(cfg, edit):
    for k, v in (edit or {}).items():
        if v == "<DEL>":
            cfg.pop(k, None)
        else:
            cfg[k] = v
    return cfg


DEFAULTS_FILE = {"B": "b_defaults.yaml"}
DEFAULTS_FILE_ORIG = {"B": "a: 7\n"}


@contextlib.contextmanager
def original_defaults_files():
    saved = {}
    for k, fn in DEFAULTS_FILE.items():
        path = os.path.join(env_dir(), fn)
        with open(path) as f:
            saved[path] = f.read()
        if saved[path] != DEFAULTS_FILE_ORIG[k]:
            with open(path, "w") as f:
                f.write(DEFAULTS_FILE_ORIG[k])
        else:
            del saved[path]
    try:
        yield
    finally:
        for path, content in saved.items():
            with open(path, "w") as f:
                f.write(content)


class Helper:
    """configurations handed to dump/validate/instantiate are made by a separate fresh parser in a fresh context, so
    that the operation under test is exactly one call on the parser under test"""

    def __init__(self):
        self.cache = {}

    def cfg(self, kind, src):
        kind = "B" if kind == "D" else kind   # (the D parser cannot parse anything: its configurations are made by a B parser)
        key = (kind, json.dumps(src, sort_keys=True))
        if key not in self.cache:
            def make():
                # in a canonical environment: no APP_/TOOL_ variables, the default config file with its original content
                with quiet(), patched_environ(None), original_defaults_files():
                    return build_parser(kind).parse_object(copy.deepcopy(src))
            self.cache[key] = contextvars.Context().run(make)
        return self.cache[key].clone()


HELPER = Helper()


def run_op(parser, kind, op):
    """execute one operation on `parser`; returns the observation (JSON-able, canonical, snapshot taken immediately)"""
    from jsonargparse import ArgumentError

    o = op["op"]
    cfg = cfg2 = None
    if o in ("dump", "validate", "instantiate", "save", "strip_unknown", "merge_config"):
        cfg = apply_edit(HELPER.cfg(kind, subst(op["src"])), subst(op.get("edit")))
    if o == "merge_config":
        cfg2 = HELPER.cfg(kind, subst(op["src2"]))
    return run_op_cfg(parser, kind, op, cfg, cfg2)


def run_op_cfg(parser, kind, op, cfg, cfg2):
    from jsonargparse import ArgumentError

    o = op["op"]
    if op.get("plugin"):
        ensure_plugin(op["plugin"])
    with patched_environ(subst(op.get("environ"))), quiet() as (out, err):
        try:
            pkw = op.get("pkw", {})
            if o == "parse_args":
                r = parser.parse_args(subst(op["argv"]), **pkw)
            elif o == "parse_known_args":
                r = parser.parse_known_args(subst(op["argv"]))
            elif o == "parse_object":
                r = parser.parse_object(copy.deepcopy(subst(op["obj"])), **pkw)
            elif o == "parse_string":
                r = parser.parse_string(subst(op["text"]), **pkw)
            elif o == "parse_path":
                r = parser.parse_path(subst(op["path"]), **pkw)
            elif o == "parse_env":
                r = parser.parse_env(subst(op["env"]), **pkw)
            elif o == "get_defaults":
                r = parser.get_defaults(**pkw)
            elif o == "get_default":
                r = parser.get_default(op["dest"])
            elif o == "dump":
                r = parser.dump(cfg, **op.get("kw", {}))
            elif o == "save":
                r = save_and_read(parser, cfg, op.get("kw", {}))
            elif o == "validate":
                r = parser.validate(cfg, **pkw)
            elif o == "instantiate":
                r = parser.instantiate_classes(cfg, **pkw)
            elif o == "strip_unknown":
                r = parser.strip_unknown(cfg)
            elif o == "merge_config":
                r = parser.merge_config(cfg, cfg2)
            elif o == "format_help":
                r = norm_help(parser.format_help())
            elif o == "print_help":
                parser.print_help()
                r = norm_help(out.getvalue())
                out.seek(0)
                out.truncate()
            elif o in ("defaults_file", "decoy"):
                r = None   # the environment / the context changed (WideSession.run); nothing is asked of the parser
            else:
                raise MachineryError("unknown op " + o)
            obs = {"k": "result", "v": canon(r)}
        except SystemExit as ex:
            obs = {"k": "exit", "code": ex.code if isinstance(ex.code, int) or ex.code is None else str(ex.code)}
        except ArgumentError as ex:
            obs = {"k": "error", "t": norm_text(str(ex))}
        except MachineryError:
            raise
        except Exception as ex:  # noqa: BLE001 - the class and text are the observation
            obs = {"k": "raise", "t": type(ex).__name__ + ": " + norm_text(str(ex))}
    so, se = out.getvalue(), err.getvalue()
    if obs["k"] == "exit":
        looks_help = so.lstrip().startswith("usage:")
        obs["help"] = looks_help
        obs["config"] = bool(so) and not looks_help
        obs["out"] = norm_help(so) if looks_help else norm_text(so)
        obs["err"] = norm_stderr(se)
    elif so:
        obs["out"] = norm_text(so)
    return obs


PLUGIN_RE = re.compile(r"^c09_plug_(\d+)$")


def ensure_plugin(name):
    """a module file defining one more subclass of Base, importable but NOT imported: importing it (a parse that names its class)
    is a legitimate change of the process between two calls"""
    n = PLUGIN_RE.match(name).group(1)
    path = os.path.join(env_dir(), name + ".py")
    if not os.path.exists(path):
        with open(path, "w") as f:
            f.write("from %s import Base\n\n\nclass Wide%s(Base):\n    def __init__(self, width: int = 8, depth: int = 2, gain: int = 1):\n"
                    "        super().__init__(width, depth)\n        self.gain = gain\n" % (MODNAME, n))
        import importlib

        importlib.invalidate_caches()
    return name


def new_plugin():
    n = _ENV["plug_n"] = _ENV.get("plug_n", 0) + 1
    return ensure_plugin("c09_plug_%d" % n)


def imported_plugins():
    """plugin modules imported so far, in import order (sys.modules keeps insertion order)"""
    return [m_ for m_ in sys.modules if PLUGIN_RE.match(m_)]


def save_and_read(parser, cfg, kw):
    """parser.save into an empty directory; the answer is the set of files written and their content"""
    d = os.path.join(env_dir(), "save_out")
    shutil.rmtree(d, ignore_errors=True)
    os.makedirs(d)
    try:
        parser.save(cfg, os.path.join(d, "out.yaml"), **kw)
        out = {}
        for fn in sorted(os.listdir(d)):
            with open(os.path.join(d, fn)) as f:
                out[fn] = f.read()
        return out
    finally:
        shutil.rmtree(d, ignore_errors=True)


def write_defaults_file(kind, content):
    with open(os.path.join(env_dir(), DEFAULTS_FILE[kind]), "w") as f:
        f.write(content)


def run_fresh(kind, op):
    """the same operation on a freshly built identical parser, in a fresh context (all context variables at their
    defaults, nothing leaks back): what a fresh process would answer"""
    return contextvars.Context().run(lambda: run_op(build_parser(kind), kind, op))


def obs_class(obs, op):
    """the model's observable: result | error | raise | exit status + what was printed"""
    if obs["k"] == "exit":
        return {"k": "exit", "code": obs["code"] if obs["code"] is not None else 0, "config": obs["config"], "help": obs["help"]}
    if obs["k"] in ("error", "raise") and op["op"] in ("dump", "validate", "instantiate", "get_defaults", "format_help"):
        return {"k": "raise"}   # outside parser.error(): whichever exception class the adapter raised
    return {"k": obs["k"]}


# ------------------------------------------------------------------ probe: the real carriers
_MISSING = object()
_CTXVARS = {}


def all_ctxvars():
    if _CTXVARS:
        return _CTXVARS
    import importlib
    import pkgutil

    import jsonargparse

    for mi in pkgutil.iter_modules(jsonargparse.__path__):
        try:
            mod = importlib.import_module("jsonargparse." + mi.name)
        except Exception:  # noqa: BLE001 - optional dependency missing
            continue
        for v in vars(mod).values():
            if isinstance(v, contextvars.ContextVar):
                _CTXVARS[v.name] = v
    return _CTXVARS


def all_parsers(p):
    out = [p]
    if p._subcommands_action is not None:
        out += list(p._subcommands_action._name_parser_map.values())
    return out


def pref(x, parsers):
    if x is None:
        return None
    for idx, p in enumerate(parsers):
        for j, q in enumerate(all_parsers(p)):
            if q is x:
                return "root:%d" % idx if j == 0 else "sub:%d:%d" % (idx, j - 1)
    return "eph"


UNRESET = {"parse_kwargs", "subclass_arg_parser", "dump_kwargs"}


def probe(parsers, kinds):
    """state of every carrier of the model, read off the real objects; plus the context variables that must be at
    their defaults between operations"""
    from jsonargparse._completions import ShtabAction

    cv = all_ctxvars()
    st = {}
    kw = cv["parse_kwargs"].get(_MISSING)
    st["kw"] = None if kw is _MISSING or kw == {} else {"env": kw.get("env"), "defaults": kw.get("defaults")}
    st["sap"] = pref(cv["subclass_arg_parser"].get(None), parsers)
    dk = cv["dump_kwargs"].get(_MISSING)
    st["dk"] = None if dk is _MISSING or dk == {} else {"skip_validation": bool(dk.get("skip_validation")), "skip_none": bool(dk.get("skip_none"))}
    st["lenient"] = bool(cv["lenient_check"].get(False))
    st["parent"] = pref(cv["parent_parser"].get(None), parsers)
    dirty = []
    for n, v in sorted(cv.items()):
        if n in UNRESET or n in ("lenient_check", "parent_parser"):
            continue
        val = v.get(_MISSING)
        if val is _MISSING:
            continue
        dflt = contextvars.Context().run(lambda v=v: v.get(_MISSING))
        if not (val is dflt or val == dflt):
            dirty.append(n)
    st["dirty_ctx"] = dirty
    st["parsers"] = []
    for idx, p in enumerate(parsers):
        qs = all_parsers(p)
        pend = None
        for q in qs:
            pc = q.__dict__.get("print_config")
            if pc is not None:
                key = pc.get("key")
                sub = pc.get("subparser")
                j = qs.index(sub) if sub in qs else None
                pend = {"comments": bool(pc.get("yaml_comments")), "skip_default": bool(pc.get("skip_default")), "skip_null": bool(pc.get("skip_none")),
                        "key": (j - 1) if (key is not None and j) else None, "on": qs.index(q)}
        linked = {"%d:%s" % (j, a.dest): sorted(a.sub_add_kwargs["linked_targets"]) for j, q in enumerate(qs) for a in q._actions
                  if isinstance(getattr(a, "sub_add_kwargs", None), dict) and "linked_targets" in a.sub_add_kwargs}
        dc = sorted("%d:%s" % (j, a.dest) for j, q in enumerate(qs) for a in q._actions
                    if isinstance(getattr(a, "sub_add_kwargs", None), dict) and "default" in a.sub_add_kwargs)
        wired = all(getattr(q, "parent_parser", None) is p and getattr(q, "subcommand", None) == SUBS[kinds[idx]][j] for j, q in enumerate(qs[1:])) \
            and not hasattr(p, "parent_parser") and (p._subcommands_action is None or p._subcommands_action.parent_parser is p)
        st["parsers"].append({
            "pending": pend,
            "args": p.__dict__.get("args"),
            "subargs": [q.__dict__.get("args") for q in qs[1:]],
            "shtab": any(isinstance(a, ShtabAction) for a in p._actions),
            "sub_shtab": any(isinstance(a, ShtabAction) for q in qs[1:] for a in q._actions),
            "linked": linked,
            "wired": bool(wired),
            "dc": dc,
        })
    return st


# known carriers (and memos of constants) are masked in the object-graph signature
MASK_PARSER_ATTRS = {"args", "print_config"}
MASK_ACTION_ATTRS = {"_check_type_kwargs"}


def shallow(v, depth=0):
    if v is None or isinstance(v, (bool, int, str)):
        return norm_text(v) if isinstance(v, str) else v
    if isinstance(v, float):
        return repr(v)
    if depth >= 3:
        return type(v).__name__
    if isinstance(v, (list, tuple)):
        return [type(v).__name__] + [shallow(x, depth + 1) for x in v[:40]]
    if isinstance(v, (set, frozenset)):
        return ["set"] + sorted(json.dumps(shallow(x, depth + 1), sort_keys=True, default=str) for x in v)
    if isinstance(v, dict):
        return {"dict": {str(k): shallow(x, depth + 1) for k, x in sorted(v.items(), key=lambda kv: str(kv[0]))}}
    return "<%s>" % type(v).__name__


def graph_sig(p):
    """attributes of the parser, its sub-parsers, their actions and groups (shallow values), known carriers masked"""
    from jsonargparse._completions import ShtabAction

    out = {}
    for j, q in enumerate(all_parsers(p)):
        d = {}
        for k, v in sorted(vars(q).items()):
            if k in MASK_PARSER_ATTRS:
                continue
            if k == "_actions":
                acts = []
                for a in v:
                    if isinstance(a, ShtabAction):
                        continue
                    av = {}
                    for ak, x in sorted(vars(a).items()):
                        if ak in MASK_ACTION_ATTRS:
                            continue
                        if ak == "sub_add_kwargs" and isinstance(x, dict):
                            x = {kk: vv for kk, vv in x.items() if kk != "default"}   # carrier dcDefault, probed separately
                        av[ak] = shallow(x)
                    acts.append([type(a).__name__, av])
                d[k] = acts
            elif k == "_option_string_actions":
                d[k] = sorted(x for x in v if x != "--print_shtab")
            elif k in ("_action_groups", "_mutually_exclusive_groups"):
                d[k] = [[type(g).__name__, {gk: (len([a for a in gv if not isinstance(a, ShtabAction)]) if gk in ("_group_actions", "_actions") and isinstance(gv, list)
                                                 else ("<masked>" if gk in ("description", "_option_string_actions") else shallow(gv, 1)))
                                            for gk, gv in sorted(vars(g).items())}] for g in v]
            elif k in ("_optionals", "_positionals", "_subparsers", "_default_config_files_group", "_links_group"):
                d[k] = type(v).__name__
            else:
                d[k] = shallow(v)
        out[str(j)] = d
    return out


def base_sig(kind):
    """signature of a freshly built parser of this kind (the builder is deterministic: computed once)"""
    cache = _ENV.setdefault("base_sig", {})
    if kind not in cache:
        cache[kind] = contextvars.Context().run(lambda: graph_sig(build_parser(kind)))
    return cache[kind]


def sig_diff(a, b, pre=""):
    if type(a) is not type(b):
        return [pre or "."]
    if isinstance(a, dict):
        out = []
        for k in sorted(set(a) | set(b)):
            if k not in a or k not in b:
                out.append("%s.%s" % (pre, k))
            else:
                out += sig_diff(a[k], b[k], "%s.%s" % (pre, k))
        return out
    if isinstance(a, list):
        if len(a) != len(b):
            return [pre + "[len]"]
        out = []
        for i, (x, y) in enumerate(zip(a, b)):
            out += sig_diff(x, y, "%s[%d]" % (pre, i))
        return out
    return [] if a == b else [pre]


# ------------------------------------------------------------------ operation pools (annotated)
# argv elements: "!x" = processing of x raises; "?x" = x is left over (Unrecognized arguments);
# "~x" = x is accepted when given and rejected by the final validation
M = "<MOD>"
POOL = {"A": {}, "B": {}}
_A = POOL["A"]
_A["root_ok"] = [[], ["--a=5"], ["--name=bob"], ["--lst=[3,4]"], ["--lst+=7"], ["--model=Other"], ["--model.width=5"],
                 ["--model.init_args.rate=0.25"], ["--model=Other", "--model.tag=t"], ["--trainer.steps=4"],
                 ["--trainer.opt.x=3"], ["--trainer.opt.x=3", "--trainer.opt.y=w"], ['--trainer.opt={"x": 2}'], ["--trainer.opt.y=k"],
                 ["--cfg=<TMP>/a1.yaml"], ["--cfg=<TMP>/a2.yaml"], ['--cfg={"a": 9}'], ["--a=2", "--cfg=<TMP>/a1.yaml", "--name=late"],
                 ["--model.inner=Inner", "--model.inner.k=4"], ['--model={"class_path":"%s.Sub","init_args":{"rate":0.125}}' % M],
                 ["--model=Req", "--model.k=3"], ['--trainer.opt={"y": "v"}', "--trainer.opt.x=7"]]
_A["sub_ok"] = [["fit"], ["fit", "--lr=0.5"], ["fit", "--sched=Sub"], ["fit", "--sched=Sub", "--sched.width=2"], ["fit", "--cfg=<TMP>/fit1.yaml"],
                ["test"], ["test", "--n=4", "--ckpt=c"], ["fit", "--sched=Other", "--sched.tag=z", "--lr=3"], ["fit", "--sched=Sub", "--sched.inner=Inner", "--sched.inner.k=2"]]
_A["root_bad"] = [["!--a=x"], ["?--unknown=1"], ["!--model=NoSuch"], ["!--model.width=bad"], ["!--cfg=<TMP>/missing.yaml"], ["!--cfg=<TMP>/bad1.yaml"],
                  ["!--cfg=<TMP>/bad2.yaml"], ["!--lst=notalist"], ["!--trainer.opt.x=bad"], ["!--trainer.size=3"], ["!--model.tag=t"], ["--a=3", "!--lst=[", "--a=4"],
                  ["!--model.inner.k=bad"], ["~--model=Req"]]
_A["sub_bad"] = [["fit", "!--lr=bad"], ["!nosuch"], ["<nosub>"], ["test", "!--n=q"], ["fit", "!--sched=NoSuch"], ["fit", "?--zzz"], ["test", "?extra"],
                 ["fit", "--sched=Sub", "!--sched.inner.k=bad"]]
_A["pc_flags"] = ["", "=skip_null", "=comments", "=skip_default", "=comments,skip_null", "=skip_default,skip_null"]
_A["help"] = [["--help"], ["-h"], ["--a=3", "--help"], ["fit", "--help"], ["test", "-h"], ["--help", "fit"], ["!--a=bad", "--help"], ["--model=Other", "--help"]]
_A["class_help"] = [["--model.help", "Sub"], ["--model.help=Other"], ["!--model.help", "NoSuch"], ["--model.help", "Sub", "--model.width=3"],
                    ["--model.help"], ["fit", "--sched.help", "Sub"], ["--a=2", "--model.help", "Other"], ["--model.help", "Sub", "--model.inner.help", "Inner"],
                    ["fit", "--sched.help", "Sub", "--sched.depth=1"]]
_A["obj_ok"] = [{"a": 3, "fit": {"lr": 0.3}}, {"model": {"class_path": "Other"}, "subcommand": "fit"}, {"trainer": {"opt": {"y": "k"}}, "test": {"n": 5}},
                {"subcommand": "test", "test": {"ckpt": "z"}}, {"lst": [5], "name": "nm", "fit": {"sched": {"class_path": "Sub", "init_args": {"width": 1}}}},
                {"trainer": {"opt": {"x": 4, "y": "m"}, "steps": 2}, "subcommand": "fit"},
                {"model": {"class_path": "Sub", "init_args": {"inner": {"class_path": "Inner", "init_args": {"k": 2}}}}, "subcommand": "test"},
                {"model": {"class_path": "Req", "init_args": {"k": 5}}, "fit": {"lr": 2.0}}]
_A["obj_bad"] = [{"a": "x", "subcommand": "fit"}, {"zzz": 1, "subcommand": "fit"}, {"a": 3}, {"fit": {"lr": "bad"}}, {"model": {"class_path": "NoSuch"}, "subcommand": "fit"},
                 {"trainer": {"opt": {"x": "bad"}}, "subcommand": "fit"}, {"subcommand": "nosuch"}, {"model": {"class_path": "Req"}, "subcommand": "test"}]
_A["str_ok"] = ["a: 4\ntest:\n  n: 9\n", "fit:\n  lr: 0.5\n", "name: s\nmodel: Other\nsubcommand: fit\n", "trainer:\n  opt:\n    y: k\nsubcommand: test\n",
                '{"a": 8, "subcommand": "fit", "fit": {"sched": "Sub"}}', "lst: [9, 8]\ntrainer:\n  steps: 1\nfit:\n  lr: 1\n"]
_A["str_bad"] = ["a: [1\n", "a: x\nsubcommand: fit\n", "nokey: 1\nsubcommand: fit\n", "a: 1\n", "fit:\n  lr: bad\n", "- 1\n- 2\n", "test:\n  n: 1\n  zz: 2\n"]
_A["path_ok"] = ["<TMP>/whole_a.yaml"]
_A["path_bad"] = ["<TMP>/missing.yaml", "<TMP>/bad2.yaml", "<TMP>/bad1.yaml"]
_A["env_ok"] = [{"APP_A": "4", "APP_SUBCOMMAND": "fit", "APP_FIT__LR": "0.7"}, {"APP_SUBCOMMAND": "test", "APP_TEST__N": "8"}, {"APP_NAME": "envn", "APP_SUBCOMMAND": "fit"},
                {"APP_CFG": "<TMP>/a1.yaml", "APP_SUBCOMMAND": "test"}, {"APP_MODEL": "Other", "APP_SUBCOMMAND": "fit", "APP_LST": "[4]"}]
_A["env_bad"] = [{"APP_A": "x", "APP_SUBCOMMAND": "fit"}, {"APP_A": "4"}, {"APP_SUBCOMMAND": "fit", "APP_FIT__LR": "bad"}, {"APP_MODEL": "NoSuch", "APP_SUBCOMMAND": "fit"},
                 {"APP_CFG": "<TMP>/missing.yaml", "APP_SUBCOMMAND": "fit"}]
_A["environ"] = [None, None, None, {"APP_A": "42"}, {"APP_FIT__LR": "0.9"}, {"APP_NAME": "fromenv", "APP_TEST__N": "6"}]
_A["dump_kw"] = [{}, {}, {"skip_none": False}, {"format": "json"}, {"yaml_comments": True}, {"skip_link_targets": False}, {"skip_validation": True}, {"skip_default": True}]
_A["bad_edit"] = [{"a": "x"}, {"zzz": 1}, {"subcommand": "<DEL>", "fit": "<DEL>", "test": "<DEL>"}, {"model.init_args.width": "w"}, {"trainer.opt": 5}, {"lst": "q"}]
_A["inst_extra"] = [{"fit": {"sched": "Other"}, "model": {"class_path": "Other", "init_args": {"tag": "i"}}}]

_B = POOL["B"]
_B["root_ok"] = [[], ["--a=5"], ["--flag=true"], ["--model=Sub"], ["--model=Sub", "--model.width=5"], ["--model=Other", "--model.tag=t"], ["--data.x=3"], ["--data.x=3", "--data.y=w"],
                 ['--data={"y": "z"}'], ["--data.y=k"], ["--trainer.opt.x=3", "--trainer.opt.y=v"], ["--trainer.opt.y=k"], ["--cfg=<TMP>/whole_b.yaml"], ['--cfg={"a": 9}', "--flag=true"],
                 ["--model=Sub", "--model.inner=Inner", "--model.inner.k=4"], ['--trainer.opt={"x": 5}'], ["--model=Req", "--model.k=1"]]
_B["sub_ok"] = [[]]
_B["root_bad"] = [["!--a=x"], ["?--unknown=1"], ["!--model=NoSuch"], ["--model=Sub", "!--model.width=bad"], ["!--cfg=<TMP>/missing.yaml"], ["!--cfg=<TMP>/bad1.yaml"], ["!--flag=maybe"],
                  ["!--data.x=bad"], ["!--trainer.steps=3"], ["?positional"], ["!--model.tag=t"], ["!--trainer.size=2"], ["!--model.inner.k=4"], ["--trainer.opt.x=1", "!--trainer.opt.x=bad"]]
_B["sub_bad"] = [[]]
_B["pc_flags"] = _A["pc_flags"]
_B["help"] = [["--help"], ["-h"], ["--a=3", "--help"], ["!--a=bad", "--help"], ["--model=Sub", "-h"]]
_B["class_help"] = [["--model.help", "Sub"], ["--model.help=Other"], ["!--model.help", "NoSuch"], ["--model.help", "Sub", "--model.width=3"], ["--a=2", "--model.help", "Other"],
                    ["--model.help", "Sub", "--model.inner.help", "Inner"]]
_B["obj_ok"] = [{"a": 3}, {"model": {"class_path": "Other"}}, {"data": {"y": "k"}}, {"trainer": {"opt": {"y": "k"}}}, {"flag": True, "model": {"class_path": "Sub", "init_args": {"width": 1}}}, {},
                {"data": {"x": 5, "y": "m"}, "trainer": {"opt": {"x": 9}}}]
_B["obj_bad"] = [{"a": "x"}, {"zzz": 1}, {"model": {"class_path": "NoSuch"}}, {"data": {"x": "bad"}}, {"trainer": {"steps": 3}}, {"flag": "maybe"}]
_B["str_ok"] = ["a: 4\n", "flag: true\nmodel: Other\n", "data:\n  y: k\n", '{"a": 8, "model": "Sub"}', "trainer:\n  opt:\n    x: 2\n", "{}\n"]
_B["str_bad"] = ["a: [1\n", "a: x\n", "nokey: 1\n", "- 1\n", "model:\n  class_path: NoSuch\n", ""]
_B["path_ok"] = ["<TMP>/whole_b.yaml"]
_B["path_bad"] = ["<TMP>/missing.yaml", "<TMP>/bad2.yaml", "<TMP>/bad1.yaml"]
_B["env_ok"] = [{"TOOL_A": "4"}, {"TOOL_FLAG": "true", "TOOL_MODEL": "Other"}, {"TOOL_CFG": "<TMP>/whole_b.yaml"}, {}]
_B["env_bad"] = [{"TOOL_A": "x"}, {"TOOL_MODEL": "NoSuch"}, {"TOOL_CFG": "<TMP>/missing.yaml"}]
_B["environ"] = [None]
_B["dump_kw"] = _A["dump_kw"]
_B["bad_edit"] = [{"a": "x"}, {"zzz": 1}, {"model": {"class_path": "NoSuch"}}, {"trainer.opt": 5}, {"data": 3}]
_B["inst_extra"] = [{"model": {"class_path": "Other", "init_args": {"tag": "i"}}}]

KINDS = ["pa_ok", "pa_fail", "pa_help", "pa_pc", "pa_pc_fail", "pa_class_help", "po_ok", "po_fail", "ps_ok", "ps_fail", "pp_ok", "pp_fail",
         "pe_ok", "pe_fail", "defaults", "dump", "dump_fail", "validate_ok", "validate_fail", "instantiate", "instantiate_fail", "format_help"]

# which options are class-typed / dataclass-typed / routed two levels down, per parser kind and level ("" = application parser)
CLS_OPTS = {("A", ""): ["model"], ("A", "fit"): ["sched"], ("A", "test"): [], ("B", ""): ["model"]}
DC_OPTS = {("A", ""): {"trainer.opt": True}, ("A", "fit"): {}, ("A", "test"): {}, ("B", ""): {"trainer.opt": True, "data": False}}
FLAG_NAMES = {"comments": "comments", "skip_default": "skip_default", "skip_null": "skip_null"}


def strip_marks(argv):
    return [a[1:] if a[:1] in "!?~" else a for a in argv if a != "<nosub>"]


def classify_level(kind, level, toks):
    """argv elements of one level -> (model tokens, leftover?, rejected by validation?)"""
    out, unrec, late = [], False, False
    seen_dc = set()
    i = 0
    while i < len(toks):
        raw = toks[i]
        fails = raw.startswith("!")
        left = raw.startswith("?")
        if raw.startswith("~"):
            late = True
        t = raw[1:] if raw[:1] in "!?~" else raw
        i += 1
        if left:
            unrec = True
            continue
        name = t.split("=", 1)[0]
        opt = name[2:] if name.startswith("--") else name
        if opt == "print_config":
            flags = t.split("=", 1)[1].split(",") if "=" in t else []
            bad = [f for f in flags if f and f not in FLAG_NAMES]
            out.append({"k": "pc", "flags": {FLAG_NAMES[f]: True for f in flags if f in FLAG_NAMES}, "fails": bool(bad)})
            if bad:
                break
            continue
        if t in ("--help", "-h"):
            out.append({"k": "help"})
            break
        if opt.endswith(".help") and any(opt == c + ".help" for c in CLS_OPTS[(kind, level)]):
            # optional value, then whatever follows is handed to the per-class parser
            if "=" not in t and i < len(toks) and not toks[i].lstrip("!?~").startswith("-"):
                i += 1
            rest = toks[i:]
            trailing = None
            if rest and not fails:
                trailing = any(r.split("=", 1)[0].endswith(".help") for r in rest)
            out.append({"k": "class_help", "trailing": trailing, "fails": fails})
            break
        dcs = [d for d in DC_OPTS[(kind, level)] if opt == d or opt.startswith(d + ".")]
        if dcs:
            d = dcs[0]
            out.append({"k": "dc", "nested": opt != d, "onAction": DC_OPTS[(kind, level)][d], "hasPrev": d in seen_dc, "fails": fails})
            seen_dc.add(d)
        elif opt == "cfg":
            # nested parse of the same parser: a pending print_config request is honoured there; its dump raises when the
            # file names no sub-command although one is required
            out.append({"k": "cfg", "dumpFails": bool(SUBS[kind]) and "subcommand" not in t and "whole_a" not in t, "fails": fails})
        elif any(re.match(r"^%s\.inner\.\w" % re.escape(c), opt) for c in CLS_OPTS[(kind, level)]):
            out.append({"k": "deep", "fails": fails})
        elif any(opt == c or opt.startswith(c + ".") for c in CLS_OPTS[(kind, level)]):
            out.append({"k": "plain", "cls": True, "fails": fails})
        else:
            out.append({"k": "plain", "cls": False, "fails": fails})
        if fails:
            break
    return out, unrec, late


def tail_of(kind, inp):
    """what the final configuration holds, as far as the model cares (from the input of the operation)"""
    txt = json.dumps(inp)
    dc = bool(re.search(r"trainer\.opt|\"opt\"|opt:", txt))
    cls = True if kind == "A" else bool(re.search(r"model", txt))
    return {"clsFinal": cls, "dcFinal": dc, "typed": True, "sdFails": False, "sdEscapes": False}


def skip_default_flags(tail, fresh_obs):
    """dump(skip_default=True) has failure modes of its own (required sub-command: the defaults name none -> NSKeyError while
    stripping; class value whose default is None -> AttributeError while comparing).  Whether and how it fails is read off the
    FRESH parser's answer — the model does not model what can be dumped."""
    failed = fresh_obs["k"] in ("error", "raise")
    escapes = fresh_obs["k"] == "raise" and fresh_obs.get("t", "").startswith("AttributeError")
    tail["sdFails"] = bool(failed)
    tail["sdEscapes"] = bool(escapes)


def shape_parse_args(kind, marked, step_id):
    """model operation of a parse_args call from the annotated argv"""
    subs = SUBS[kind]
    root, sub = [t for t in marked if t != "<nosub>"], None
    for i, t in enumerate(root):
        if t in subs:
            sub = (subs.index(t), root[i + 1:])
            root = root[:i]
            break
    toks, unrec, late = classify_level(kind, "", root)
    stopped = bool(toks) and (toks[-1].get("fails") or toks[-1]["k"] in ("help", "class_help"))
    op = {"t": "parse_args", "id": step_id, "kw": {"env": None, "defaults": True}, "toks": toks, "sub": None,
          "tail": dict(tail_of(kind, strip_marks(marked)), unrec=unrec, subMissing=False, lateFail=late)}
    if sub is not None and not stopped:
        stoks, sunrec, slate = classify_level(kind, subs[sub[0]], sub[1])
        op["tail"]["lateFail"] = late or slate
        op["sub"] = {"idx": sub[0], "id": SUB_ID + step_id, "toks": stoks, "unrec": sunrec, "argv": strip_marks(sub[1])}
    if subs and sub is None and not stopped and not unrec:
        op["tail"]["subMissing"] = True
    return op


def shape_input(kind, inp, fails, step_id, load_fails=False):
    toks = []
    if isinstance(inp, dict):
        for k, v in inp.items():
            if k in ("trainer",) and isinstance(v, dict) and "opt" in v:
                toks.append({"k": "dc", "onAction": True, "hasPrev": False})
            elif k == "data":
                toks.append({"k": "dc", "onAction": False, "hasPrev": False})
            else:
                toks.append({"k": "plain", "cls": k in ("model",)})
    op = {"t": "parse_other", "id": step_id, "loadFails": bool(load_fails), "toks": toks, "tail": dict(tail_of(kind, inp), unrec=False, subMissing=False, lateFail=False)}
    if fails and not load_fails:
        op["tail"]["lateFail"] = True
    return op


def shape_cfg(kind, t, src, edited, failed, step_id, kw=None, fresh_obs=None):
    op = {"t": t, "id": step_id, "invalid": bool(failed), "late": False, "tail": dict(tail_of(kind, src), unrec=False, subMissing=False, lateFail=False)}
    if t == "dump":
        kw = kw or {}
        op["dk"] = {"skip_validation": bool(kw.get("skip_validation", False)), "skip_none": bool(kw.get("skip_none", True))}
        op["skip_default"] = bool(kw.get("skip_default", False))
        # strip_link_target_keys (first statement: the edit removed the required sub-command) and validation are the only
        # things that can reject an (edited) configuration BEFORE it is serialised
        strip = failed and edited and "\"subcommand\": \"<DEL>\"" in json.dumps(src)
        early = failed and edited and not strip and not op["dk"]["skip_validation"]
        sd = failed and not strip and not early and op["skip_default"]
        op["stripFails"] = bool(strip)
        op["invalid"] = bool(early)
        if sd:
            skip_default_flags(op["tail"], fresh_obs)
        op["late"] = bool(failed and not strip and not early and not sd)
    return op


def gen_op(rng, kind, k=None):
    """one operation: what to call on the real parser + the annotations the model needs (`marked`, `fails`)"""
    P = POOL[kind]
    k = k or rng.choice(KINDS)
    environ = rng.choice(P["environ"])

    def mk(d):
        d["kind"] = k
        if environ and d["op"] in ("parse_args", "parse_object", "parse_string", "parse_path"):
            d["environ"] = environ
        return d

    def pa(marked):
        return mk({"op": "parse_args", "argv": strip_marks(marked), "marked": marked})

    if k == "pa_ok":
        return pa(rng.choice(P["root_ok"]) + rng.choice(P["sub_ok"]))
    if k == "pa_fail":
        if rng.random() < 0.5 or P["sub_bad"] == [[]]:
            return pa(rng.choice(P["root_bad"]) + rng.choice(P["sub_ok"]))
        return pa(rng.choice(P["root_ok"]) + rng.choice(P["sub_bad"]))
    if k == "pa_help":
        return pa(list(rng.choice(P["help"])))
    if k == "pa_class_help":
        return pa(list(rng.choice(P["class_help"])))
    if k in ("pa_pc", "pa_pc_fail"):
        pc = "--print_config" + rng.choice(P["pc_flags"])
        if k == "pa_pc":
            root, sub = list(rng.choice(P["root_ok"])), list(rng.choice(P["sub_ok"]))
        elif rng.random() < 0.5 or P["sub_bad"] == [[]]:
            root, sub = list(rng.choice(P["root_bad"])), list(rng.choice(P["sub_ok"]))
        else:
            root, sub = list(rng.choice(P["root_ok"])), list(rng.choice(P["sub_bad"]))
        if k == "pa_pc_fail" and rng.random() < 0.1:
            pc = "--print_config=nosuchflag"
        where = rng.random()
        if sub and sub[0] == "fit" and where < 0.3:
            sub.insert(rng.randint(1, len(sub)), pc)
        elif where < 0.65:
            root.insert(0, pc)
        else:
            root.append(pc)
        return pa(root + sub)
    if k in ("po_ok", "po_fail"):
        return mk({"op": "parse_object", "obj": rng.choice(P["obj_ok" if k == "po_ok" else "obj_bad"]), "fails": k == "po_fail"})
    if k in ("ps_ok", "ps_fail"):
        return mk({"op": "parse_string", "text": rng.choice(P["str_ok" if k == "ps_ok" else "str_bad"]), "fails": k == "ps_fail"})
    if k in ("pp_ok", "pp_fail"):
        return mk({"op": "parse_path", "path": rng.choice(P["path_ok" if k == "pp_ok" else "path_bad"]), "fails": k == "pp_fail"})
    if k in ("pe_ok", "pe_fail"):
        return mk({"op": "parse_env", "env": rng.choice(P["env_ok" if k == "pe_ok" else "env_bad"]), "fails": k == "pe_fail"})
    if k == "defaults":
        return mk({"op": "get_defaults"})
    if k == "format_help":
        return mk({"op": "format_help"})
    srcs = P["obj_ok"] + (P["inst_extra"] if k.startswith("instantiate") else [])
    if k in ("dump", "dump_fail"):
        d = {"op": "dump", "src": rng.choice(srcs), "kw": rng.choice(P["dump_kw"])}
    elif k in ("validate_ok", "validate_fail"):
        d = {"op": "validate", "src": rng.choice(srcs)}
    else:
        d = {"op": "instantiate", "src": rng.choice(srcs)}
    if k.endswith("_fail"):
        d["edit"] = rng.choice(P["bad_edit"])
    return mk(d)


def model_op(kind, op, step_id, fresh_obs):
    """the model's view of an operation.  Token kinds and failure positions come from the annotated pools; for
    operations on a configuration (dump / validate / instantiate_classes) and for non-argv inputs whether the input is
    acceptable at all is read off the FRESH parser's answer (the model does not model value validity)."""
    o = op["op"]
    if "shape" in op:
        s = copy.deepcopy(op["shape"])
        s["id"] = step_id
        if s.get("sub"):
            s["sub"]["id"] = SUB_ID + step_id
        return s
    if o == "parse_args":
        mop = shape_parse_args(kind, op.get("marked", op["argv"]), step_id)
        alltoks = mop["toks"] + (mop["sub"]["toks"] if mop["sub"] else [])
        if any(t["k"] == "pc" and t["flags"].get("skip_default") and not t.get("fails") for t in alltoks) and fresh_obs["k"] != "exit":
            # nothing else in the operation fails (else the dump is not reached, the flags are irrelevant)
            if not any(t.get("fails") for t in alltoks):
                skip_default_flags(mop["tail"], fresh_obs)
        return mop
    failed = fresh_obs["k"] in ("error", "raise") or (fresh_obs["k"] == "exit" and fresh_obs.get("code") not in (0, None))
    if o in ("parse_object", "parse_env"):
        inp = op.get("obj", op.get("env"))
        return shape_input(kind, inp if o == "parse_object" else {}, failed, step_id)
    if o in ("parse_string", "parse_path"):
        return shape_input(kind, op.get("text", op.get("path")), failed, step_id, load_fails=False)
    if o == "get_defaults":
        return {"t": "get_defaults"}
    if o == "format_help":
        return {"t": "format_help"}
    if o == "dump":
        return shape_cfg(kind, "dump", [op["src"], op.get("edit")], bool(op.get("edit")), failed, step_id, op.get("kw"), fresh_obs)
    if o == "validate":
        return shape_cfg(kind, "validate", [op["src"], op.get("edit")], bool(op.get("edit")), failed, step_id)
    if o == "instantiate":
        return shape_cfg(kind, "instantiate", [op["src"], op.get("edit")], bool(op.get("edit")), failed, step_id)
    raise MachineryError("no model op for " + o)


# ------------------------------------------------------------------ running a history three ways
class Session:
    """one process-like run: parsers built once (reused), the model fed the same operations"""

    def __init__(self, kinds):
        self.kinds = list(kinds)

    def run(self, hist, with_state=True):
        """hist: [(parser index, op)] -> per step dict(reused, fresh, state, sigdiff, mop)"""
        def body():
            parsers = [build_parser(k) for k in self.kinds]
            base = [base_sig(k) for k in self.kinds]
            steps = []
            argv_of = {}
            for n, (pi, op) in enumerate(hist):
                kind = self.kinds[pi]
                fresh = run_fresh(kind, op)
                reused = run_op(parsers[pi], kind, op)
                step = {"reused": reused, "fresh": fresh}
                if with_state:
                    sid = n + 1
                    mop = model_op(kind, op, sid, fresh)
                    if op["op"] == "parse_args":
                        argv_of[sid] = subst(op["argv"])
                        if mop.get("sub"):
                            argv_of[SUB_ID + sid] = subst(mop["sub"].pop("argv", None)) if "argv" in mop["sub"] else None
                    step["mop"] = mop
                    step["state"] = probe(parsers, self.kinds)
                    step["sigdiff"] = [d for i in range(len(parsers)) for d in sig_diff(base[i], graph_sig(parsers[i]), "p%d" % i)]
                steps.append(step)
            return steps, argv_of
        # the whole session in its own context: context variables start at their defaults, as in a new process
        return contextvars.Context().run(body)


def model_lines(kinds, hist_mops):
    lines = [{"cmd": "reset", "descs": [{"exit": EXIT_ON_ERROR[k], "shtab": bool(_ENV.get("shtab")), "linked": LINKED0[k]} for k in kinds]}]
    for pi, mop in hist_mops:
        lines.append({"cmd": "op", "p": pi, "op": mop})
    return lines


def state_to_model(st, kinds, argv_of):
    """the probe's view in the vocabulary of the model's state (argv lists -> the step ids that carry them)"""
    def ident(argv):
        if argv is None:
            return None
        ids = sorted(i for i, a in argv_of.items() if a == argv)
        return ids

    out = {"kw": st["kw"], "sap": st["sap"], "dk": st["dk"], "lenient": st["lenient"], "parent": st["parent"], "parsers": []}
    for idx, ps in enumerate(st["parsers"]):
        pend = ps["pending"]
        out["parsers"].append({
            "pending": None if pend is None else {k: pend[k] for k in ("comments", "skip_default", "skip_null", "key")},
            "pending_on_root": None if pend is None else pend["on"] == 0,
            "args": ident(ps["args"]), "subargs": [ident(a) for a in ps["subargs"]] + [None] * (2 - len(ps["subargs"])),
            "shtab": ps["shtab"], "linked_same": ps["linked"] == _ENV["linked0"][kinds[idx]], "wired": ps["wired"], "dc": bool(ps["dc"]),
            "sub_shtab": ps["sub_shtab"],
        })
    return out


def compare_state(real, model, kinds):
    """list of differing carriers"""
    bad = []
    for k in ("kw", "sap", "dk", "lenient", "parent"):
        if real[k] != model[k]:
            bad.append("%s: real %s model %s" % (k, json.dumps(real[k]), json.dumps(model[k])))
    for idx, (r, m) in enumerate(zip(real["parsers"], model["parsers"])):
        if r["pending"] != m["pending"]:
            bad.append("p%d.pending: real %s model %s" % (idx, json.dumps(r["pending"]), json.dumps(m["pending"])))
        if r["pending_on_root"] is False:
            bad.append("p%d.pending stored on a sub-parser" % idx)
        if (m["args"] is None) != (r["args"] is None) or (m["args"] is not None and m["args"] not in r["args"]):
            bad.append("p%d.args: real %s model %s" % (idx, r["args"], m["args"]))
        for j in range(2):
            ma, ra = m["subargs"][j], r["subargs"][j]
            if (ma is None) != (ra is None) or (ma is not None and ma not in ra):
                bad.append("p%d.sub%d.args: real %s model %s" % (idx, j, ra, ma))
        if r["shtab"] != m["shtab"]:
            bad.append("p%d.shtab: real %s model %s" % (idx, r["shtab"], m["shtab"]))
        if r["sub_shtab"]:
            bad.append("p%d: a sub-command parser got --print_shtab" % idx)
        if r["linked_same"] != (m["linked"] == LINKED0[kinds[idx]]):
            bad.append("p%d.linked_targets: real unchanged=%s model %s" % (idx, r["linked_same"], m["linked"]))
        if r["wired"] != m["wired"]:
            bad.append("p%d.wiring: real %s model %s" % (idx, r["wired"], m["wired"]))
        if r["dc"] != (m["dc"] is not None):
            bad.append("p%d.sub_add_kwargs['default']: real %s model %s" % (idx, r["dc"], m["dc"]))
    return bad


def jd(x):
    return json.dumps(x, sort_keys=True, ensure_ascii=True)


def same_obs(a, b):
    return jd(a) == jd(b)


def first_oracle_diff(steps):
    for i, s in enumerate(steps):
        if not same_obs(s["reused"], s["fresh"]):
            return i
    return None


def strip_op(op):
    return {k: v for k, v in op.items() if k not in ("kind",)}


def shrink_history(kinds, hist, still_bad):
    cur = list(hist)
    changed = True
    while changed and len(cur) > 1:
        changed = False
        for i in range(len(cur) - 1):   # the last operation is the one that shows the difference
            cand = cur[:i] + cur[i + 1:]
            if still_bad(cand):
                cur = cand
                changed = True
                break
    return cur


def oracle_bad(kinds, hist):
    steps, _ = Session(kinds).run(hist, with_state=False)
    return first_oracle_diff(steps) is not None


# ------------------------------------------------------------------ history generators
def gen_history(rng, kinds, n=None):
    n = n or rng.randint(2, 12)
    out = []
    for _ in range(n):
        pi = rng.randrange(len(kinds))
        out.append((pi, gen_op(rng, kinds[pi])))
    return out


def alphabet(kind, small):
    """a fixed alphabet of operations for exhaustive short histories (one or more per kind of operation)"""
    import random

    rng = random.Random(20240909)
    ops = []
    ks = KINDS if not small else ["pa_ok", "pa_fail", "pa_pc", "pa_pc_fail", "pa_class_help", "po_ok", "po_fail", "pe_fail",
                                 "dump", "validate_fail", "instantiate"]
    for k in ks:
        for _ in range(1 if small else 2):
            ops.append(gen_op(rng, kind, k))
    # hand-picked carrier exercisers
    if kind == "A":
        ops.append({"op": "parse_args", "argv": ["--print_config", "--a=x", "fit"], "marked": ["--print_config", "!--a=x", "fit"], "kind": "pa_pc_fail"})
        ops.append({"op": "parse_args", "argv": ["--trainer.opt.x=3", "fit"], "marked": ["--trainer.opt.x=3", "fit"], "kind": "pa_ok"})
        ops.append({"op": "parse_args", "argv": ["--trainer.opt.y=k", "test"], "marked": ["--trainer.opt.y=k", "test"], "kind": "pa_ok"})
        ops.append({"op": "parse_args", "argv": ["fit", "--print_config", "--lr=bad"], "marked": ["fit", "--print_config", "!--lr=bad"], "kind": "pa_pc_fail"})
    else:
        ops.append({"op": "parse_args", "argv": ["--print_config", "--a=x"], "marked": ["--print_config", "!--a=x"], "kind": "pa_pc_fail"})
        ops.append({"op": "parse_args", "argv": ["--trainer.opt.x=3"], "marked": ["--trainer.opt.x=3"], "kind": "pa_ok"})
        ops.append({"op": "parse_args", "argv": ["--trainer.opt.y=k"], "marked": ["--trainer.opt.y=k"], "kind": "pa_ok"})
    return ops


# ------------------------------------------------------------------ wide histories (oracle + probes, outside the model's alphabet)
# every keyword of every public method, more methods (parse_known_args, get_default, save, strip_unknown, merge_config,
# print_help), a changing environment (os.environ, content of the default config file), three ways of reusing a parser
# (same context / a fresh contextvars.Context per call / a new thread per call) and, after every step, a FRESH parser
# asked in the context the history left behind.
PA_KW = [{}, {}, {"env": True}, {"env": False}, {"defaults": False}, {"with_meta": False}, {"with_meta": True}, {"env": True, "defaults": False},
         {"env": False, "with_meta": True}]
PE_KW = [{}, {"defaults": False}, {"with_meta": True}]
GD_KW = [{}, {"skip_validation": True}]
VAL_KW = {"A": [{}, {"skip_none": False}, {"skip_required": True}], "B": [{}, {"skip_none": False}, {"skip_required": True}]}
INST_KW = [{}, {}, {"instantiate_groups": False}]
SAVE_KW = [{}, {"format": "json"}, {"skip_none": False}, {"multifile": False}, {"skip_validation": True}, {"overwrite": True}]
DEST = {"A": ["a", "name", "lst", "model", "trainer.steps", "trainer.opt", "fit.lr", "fit.sched", "test.n", "nosuch", "cfg"],
        "B": ["a", "flag", "model", "data", "trainer.opt", "trainer.size", "nosuch", "cfg"]}
ENVIRON_W = {"A": [None, None, {"APP_A": "42"}, {"APP_FIT__LR": "0.9"}, {"APP_NAME": "fromenv", "APP_TEST__N": "6"}, {"APP_LST": "[8]"},
                   {"APP_MODEL": "Other"}, {"APP_A": "notint"}],
             "B": [None, None, {"TOOL_A": "42"}, {"TOOL_FLAG": "true"}, {"TOOL_MODEL": "Other"}, {"TOOL_A": "notint"}, {"TOOL_DATA": '{"x": 9}'}]}
DEFAULTS_CONTENT = {"B": ["a: 7\n", "a: 8\nflag: true\n", "", "model: Other\n", "a: oops\n", "data:\n  y: fromdefaults\n", "trainer:\n  opt:\n    x: 6\n"]}
UNKNOWN_EDIT = [{"zzz": 1}, {"zzz": {"deep": [1]}}, {"trainer.nokey": 2}, {}]
WIDE_EXTRA = ["parse_known_args", "get_default", "get_default", "get_defaults", "dump_any", "dump_any", "save", "strip_unknown", "merge_config",
              "print_help", "defaults_file", "defaults_file", "validate_kw", "instantiate_kw", "parse_env_kw"]
MODES = ["same", "same", "same", "ctx", "thread"]
POOL["D"] = POOL["B"]
VAL_KW["D"] = VAL_KW["B"]
DEST["D"] = ["a", "model", "trainer.steps", "nosuch"]
ENVIRON_W["D"] = [None]
# environment variables that reach every level of every parser kind (a random subset is set for a call)
ENV_VARS = {"A": {"APP_A": "42", "APP_FIT__LR": "0.9", "APP_TEST__N": "6", "APP_NAME": "fromenv", "APP_LST": "[8]", "APP_MODEL": "Other",
                  "APP_FIT__SCHED": "Sub", "APP_TEST__CKPT": "ck", "APP_TRAINER__STEPS": "3"},
            "B": {"TOOL_A": "42", "TOOL_FLAG": "true", "TOOL_MODEL": "Other", "TOOL_DATA": '{"x": 9}', "TOOL_TRAINER__STEPS": "3"},
            "D": {}}
# values that are only partly given: what fills the rest (defaults of the argument, of the class, the previous value) is where state shows
PARTIAL = {"A": {"str": ["model:\n  init_args:\n    width: 5\nsubcommand: fit\n", "model: Other\nsubcommand: fit\n", "trainer:\n  opt:\n    x: 2\nsubcommand: test\n",
                         "model:\n  init_args:\n    depth: 4\nfit:\n  sched:\n    init_args:\n      width: 2\n"],
                 "obj": [{"model": {"init_args": {"width": 6}}, "subcommand": "test"}, {"model": {"class_path": "Other"}, "subcommand": "fit"},
                         {"fit": {"sched": {"class_path": "Sub"}}}],
                 "argv": [["--model=Other", "fit"], ["--model.init_args.width=7", "test"], ["--model=Sub", "fit", "--sched=Other"]]},
           "B": {"str": ["model:\n  init_args:\n    width: 5\n", "model: Other\n", "data:\n  y: k\n", "trainer:\n  opt:\n    x: 2\n", "model: Sub\ndata:\n  x: 3\n"],
                 "obj": [{"model": {"init_args": {"width": 6}}}, {"model": {"class_path": "Other"}}, {"data": {"y": "p"}}],
                 "argv": [["--model=Other"], ["--model=Sub", "--model.width=5"], ["--data.y=k"]]},
           "D": {"str": ["a: 2\n"], "obj": [{"a": 3}], "argv": [[], ["--a=4"]]}}


DECOY_ARGV = [["fit"], ["test", "--n=4"], ["--model.inner=Inner", "--model.inner.k=2", "test"], ["fit", "--sched=Sub", "--sched.inner=Inner", "--sched.inner.k=2"],
              ["--a=x", "fit"], ["--trainer.opt.x=3", "fit", "--lr=bad"]]
DECOY_KW = [{"env": False}, {"env": True}, {"defaults": False}, {"env": False, "defaults": False}, {"env": True, "defaults": False}]
DECOY_DUMP = [None, {"skip_none": False}, {"skip_validation": True}, {"skip_default": True}, {"skip_none": False, "skip_validation": True}]


def gen_decoy(rng):
    """calls on ANOTHER parser of the process (built for the occasion) that leave the three set-and-never-reset context variables
    (parse_kwargs, subclass_arg_parser, dump_kwargs) at other contents: what the next operation finds there must not matter"""
    return {"op": "decoy", "decoy": "A", "argv": rng.choice(DECOY_ARGV), "pkw": rng.choice(DECOY_KW), "dump": rng.choice(DECOY_DUMP), "kind": "w:decoy"}


def run_decoy(op):
    p = build_parser(op["decoy"])
    with patched_environ(None), quiet():
        cfg = None
        try:
            cfg = p.parse_args(subst(op["argv"]), **op.get("pkw", {}))
        except BaseException:  # noqa: BLE001 - failing and exiting calls are histories too
            pass
        if cfg is not None and op.get("dump") is not None:
            try:
                p.dump(cfg, **op["dump"])
            except BaseException:  # noqa: BLE001
                pass


def decoy_pairs():
    """finite scope: every content the three set-and-never-reset context variables can be left at by ANOTHER parser (every keyword
    combination of parse_args, every flag combination of dump) x the operations that read them (sub-command parsers with
    environment variables set, serialisation of class-typed values)"""
    out = []

    def decoy(dkw, dd):
        return {"op": "decoy", "decoy": "A", "argv": DECOY_ARGV[2], "pkw": dkw, "dump": dd, "kind": "w:decoy"}
    for kind in ("A", "B"):
        env = dict(ENV_VARS[kind])
        argv_readers = [{"op": "parse_args", "argv": list(a), "environ": env} for a in PARTIAL[kind]["argv"]] + \
                       [{"op": "parse_args", "argv": list(a), "environ": env, "pkw": {"defaults": False}} for a in PARTIAL[kind]["argv"][:1]]
        dump_readers = [{"op": "dump", "src": POOL[kind]["obj_ok"][1], "kw": {}}, {"op": "dump", "src": POOL[kind]["obj_ok"][1], "kw": {"skip_none": False}},
                        {"op": "save", "src": POOL[kind]["obj_ok"][1], "kw": {}}]
        if SUBS[kind]:   # parse_kwargs is read by the sub-commands action only
            out += [([kind], [(0, decoy(dkw, None)), (0, dict(r, kind="w:reader"))]) for dkw in DECOY_KW for r in argv_readers]
        out += [([kind], [(0, decoy({}, dd)), (0, dict(r, kind="w:reader"))]) for dd in DECOY_DUMP[1:4] for r in dump_readers]
    return out


def gen_environ(rng, kind):
    names = sorted(ENV_VARS[kind])
    if not names or rng.random() < 0.45:
        return None
    return {n_: ENV_VARS[kind][n_] for n_ in rng.sample(names, min(len(names), rng.randint(1, 3)))}


def gen_reader(rng, kind):
    """an operation that READS as many carriers as possible: partly given typed values, sub-command parsers with environment
    variables, defaults=False, help, defaults, validation of an invalid configuration (keywords left at their defaults half of the time)"""
    P = PARTIAL[kind]
    k = rng.choice(["str", "str", "obj", "argv", "argv", "argv_env", "help", "defaults", "invalid"])
    if k == "str":
        op = {"op": "parse_string", "text": rng.choice(P["str"])}
    elif k == "obj":
        op = {"op": "parse_object", "obj": rng.choice(P["obj"])}
    elif k in ("argv", "argv_env"):
        op = {"op": "parse_args", "argv": list(rng.choice(P["argv"] + [strip_marks(a + b) for a in POOL[kind]["root_ok"][:3] for b in POOL[kind]["sub_ok"][:4]]))}
    elif k == "help":
        op = rng.choice([{"op": "format_help"}, {"op": "print_help"}, {"op": "parse_args", "argv": ["--help"]}])
    elif k == "defaults":
        op = {"op": "get_defaults"}
    else:
        op = {"op": "validate", "src": POOL[kind]["obj_ok"][0], "edit": POOL[kind]["bad_edit"][0]}
    if op["op"] in ("parse_string", "parse_object", "parse_args") and "--help" not in op.get("argv", []):
        op["pkw"] = rng.choice([{}, {}, {}, {"defaults": False}, {"with_meta": False}])
        env = gen_environ(rng, kind) if k != "argv_env" else ({n_: v for n_, v in ENV_VARS[kind].items()} or None)
        if env:
            op["environ"] = env
    op["kind"] = "w:reader"
    return op


def gen_changer(rng, kinds, pi):
    """something that legitimately changes the PROCESS between two calls: the content of the default config file, a module that
    gets imported because a parse names one of its classes, a failing operation on a parser whose defaults cannot be completed"""
    kind = kinds[pi]
    choices = ["plugin", "decoy", "decoy"] if kind in ("A", "B") else []
    if kind in DEFAULTS_FILE:
        choices.append("defaults_file")
    if "D" in kinds:
        choices += ["broken", "broken"]
    c = rng.choice(choices or ["plugin"])
    if c == "decoy":
        return pi, gen_decoy(rng)
    if c == "defaults_file":
        return pi, {"op": "defaults_file", "content": rng.choice(DEFAULTS_CONTENT[kind]), "kind": "w:defaults_file"}
    if c == "broken":
        di = kinds.index("D")
        return di, dict(rng.choice([{"op": "parse_args", "argv": []}, {"op": "get_defaults"}, {"op": "parse_object", "obj": {"a": 2}}, {"op": "format_help"},
                                    {"op": "parse_args", "argv": ["--print_config"]}]), kind="w:broken-defaults")
    name = new_plugin()
    n = PLUGIN_RE.match(name).group(1)
    argv = ["--model=%s.Wide%s" % (name, n), "--model.gain=3"] + (["fit"] if kind == "A" else [])
    return pi, {"op": "parse_args", "argv": argv, "plugin": name, "kind": "w:plugin-import"}



def gen_dump_kw(rng):
    kw = {}
    if rng.random() < 0.6:
        kw["format"] = rng.choice(["parser_mode", "yaml", "json", "json_indented"])
    for flag in ("skip_none", "skip_default", "skip_validation", "yaml_comments", "skip_link_targets"):
        if rng.random() < 0.3:
            kw[flag] = rng.random() < 0.5
    return kw


def gen_wide_op(rng, kind):
    P = POOL[kind]
    if rng.random() < 0.55:
        # one of the 22 kinds of the model's alphabet, with keywords
        op = dict(gen_op(rng, kind))
        o = op["op"]
        if o in ("parse_args", "parse_object", "parse_string", "parse_path"):
            op["pkw"] = rng.choice(PA_KW)
        elif o == "parse_env":
            op["pkw"] = rng.choice(PE_KW)
        elif o == "get_defaults":
            op["pkw"] = rng.choice(GD_KW)
        elif o == "dump":
            op["kw"] = gen_dump_kw(rng)
        elif o == "validate":
            op["pkw"] = rng.choice(VAL_KW[kind])
        elif o == "instantiate":
            op["pkw"] = rng.choice(INST_KW)
        op["kind"] = "w:" + op.get("kind", o)
    else:
        k = rng.choice(WIDE_EXTRA)
        if k == "defaults_file" and kind not in DEFAULTS_FILE:
            k = "get_default"
        srcs = P["obj_ok"]
        if k == "parse_known_args":
            argv = rng.choice(P["root_ok"] + P["root_bad"]) + rng.choice(P["sub_ok"] + P["sub_bad"])
            op = {"op": "parse_known_args", "argv": strip_marks(argv)}
        elif k == "get_default":
            op = {"op": "get_default", "dest": rng.choice(DEST[kind])}
        elif k == "get_defaults":
            op = {"op": "get_defaults", "pkw": rng.choice(GD_KW)}
        elif k == "dump_any":
            op = {"op": "dump", "src": rng.choice(srcs), "kw": gen_dump_kw(rng)}
            if rng.random() < 0.25:
                op["edit"] = rng.choice(P["bad_edit"])
        elif k == "save":
            op = {"op": "save", "src": rng.choice(srcs), "kw": rng.choice(SAVE_KW)}
            if rng.random() < 0.2:
                op["edit"] = rng.choice(P["bad_edit"])
        elif k == "strip_unknown":
            op = {"op": "strip_unknown", "src": rng.choice(srcs), "edit": rng.choice(UNKNOWN_EDIT)}
        elif k == "merge_config":
            op = {"op": "merge_config", "src": rng.choice(srcs), "src2": rng.choice(srcs)}
        elif k == "print_help":
            op = {"op": "print_help"}
        elif k == "defaults_file":
            op = {"op": "defaults_file", "content": rng.choice(DEFAULTS_CONTENT[kind])}
        elif k == "validate_kw":
            op = {"op": "validate", "src": rng.choice(srcs), "pkw": rng.choice(VAL_KW[kind])}
            if rng.random() < 0.4:
                op["edit"] = rng.choice(P["bad_edit"])
        elif k == "instantiate_kw":
            op = {"op": "instantiate", "src": rng.choice(srcs + P["inst_extra"]), "pkw": rng.choice(INST_KW)}
            if rng.random() < 0.3:
                op["edit"] = rng.choice(P["bad_edit"])
        else:
            op = {"op": "parse_env", "env": rng.choice(P["env_ok"] + P["env_bad"]), "pkw": rng.choice(PE_KW)}
        op["kind"] = "w:" + k
    if op["op"] not in ("defaults_file",):
        environ = rng.choice(ENVIRON_W[kind]) if rng.random() < 0.5 else gen_environ(rng, kind)
        if environ:
            op["environ"] = environ
        else:
            op.pop("environ", None)
    return op


def gen_prefix_fail(rng, kind):
    """parse_args that fails (or exits) AFTER earlier elements were accepted: the exception leaves through every bracket that is
    open at that point with a half-built configuration inside"""
    P = POOL[kind]
    root = list(rng.choice(P["root_ok"])) + (list(rng.choice(P["root_ok"])) if rng.random() < 0.4 else [])
    if rng.random() < 0.3:
        root.insert(rng.randint(0, len(root)), "--print_config" + rng.choice(P["pc_flags"]))
    bad = rng.choice(P["root_bad"] + [["!--cfg=<TMP>/bad1.yaml"], ["!--cfg=<TMP>/bad2.yaml"], ["!--cfg=<TMP>/missing.yaml"], ['!--cfg={"a": "x"}'], ['!--cfg={"nokey": 1}']])
    op = {"op": "parse_args", "argv": strip_marks(root + list(bad) + list(rng.choice(P["sub_ok"]))), "kind": "w:prefix-then-fail", "pkw": rng.choice(PA_KW)}
    env = gen_environ(rng, kind)
    if env:
        op["environ"] = env
    return op


def gen_wide_history(rng, kinds):
    """random operations; with some probability a SANDWICH  reader, changer, the same reader  (what a stale memo / cache / leaked
    bracket cannot survive); a failing-after-prefix parse; and always a few readers at the end"""
    n = rng.randint(3, 14)
    hist = []
    for _ in range(n):
        pi = rng.randrange(len(kinds))
        if kinds[pi] == "D":
            hist.append(gen_changer(rng, kinds, pi) if rng.random() < 0.8 else (pi, gen_wide_op(rng, "D")))
        elif rng.random() < 0.12:
            hist.append((pi, gen_prefix_fail(rng, kinds[pi])))
        else:
            hist.append((pi, gen_wide_op(rng, kinds[pi])))
    live = [i for i, k in enumerate(kinds) if k != "D"]
    if rng.random() < 0.4:
        pi = rng.choice(live)
        r = gen_reader(rng, kinds[pi]) if rng.random() < 0.7 else gen_wide_op(rng, kinds[pi])
        if r["op"] != "defaults_file":
            at = rng.randint(0, len(hist))
            hist[at:at] = [(pi, r), gen_changer(rng, kinds, pi), (pi, copy.deepcopy(r))]
    for _ in range(rng.randint(1, 3)):
        pi = rng.choice(live)
        hist.append((pi, gen_reader(rng, kinds[pi])))
    return hist


_GLOBAL_OK = {"_loaders_dumpers.yaml_default_loader": "memo of a constant (the loader class, built once)",
              "_loaders_dumpers.yaml_default_dumper": "memo of a constant (the dumper class, built once)"}


def _gsig(v, depth=0):
    import types

    if v is None or isinstance(v, (bool, int, float, str, bytes)):
        return repr(v)[:120]
    if hasattr(v, "cache_info") and callable(getattr(v, "cache_info", None)):
        try:
            return "lru:%d" % v.cache_info().currsize
        except Exception:  # noqa: BLE001
            return "lru:?"
    if isinstance(v, (types.ModuleType, types.FunctionType, types.BuiltinFunctionType, contextvars.ContextVar)):
        return "<%s>" % type(v).__name__
    if isinstance(v, type):
        if depth or not getattr(v, "__module__", "").startswith("jsonargparse"):
            return "<type %s>" % v.__name__
        # class-level attributes (a cache kept on a class is process-wide state)
        return {"type": v.__name__, "attrs": {k: _gsig(x, depth + 1) for k, x in sorted(vars(v).items())
                                               if not k.startswith("__") and not callable(x) and not isinstance(x, (property, classmethod, staticmethod))}}
    if isinstance(v, dict):
        if depth >= 2:
            return "dict:%d" % len(v)
        return {"dict": sorted((repr(k)[:80], json.dumps(_gsig(x, depth + 1), sort_keys=True, default=str)) for k, x in v.items())}
    if isinstance(v, (list, tuple, set, frozenset)):
        if depth >= 2:
            return "%s:%d" % (type(v).__name__, len(v))
        items = [json.dumps(_gsig(x, depth + 1), sort_keys=True, default=str) for x in v]
        return {type(v).__name__: sorted(items) if isinstance(v, (set, frozenset)) else items}
    return "<%s>" % type(v).__name__


def process_sig():
    """state of the process outside parser objects and context variables: module-level names of every jsonargparse module
    (values shallowly, containers by content, lru caches by size, class-level attributes), working directory,
    argparse.Namespace, sys.argv"""
    import argparse
    import importlib
    import pkgutil

    import jsonargparse

    mods = _ENV.get("mods")
    if mods is None:
        mods = {}
        for mi in pkgutil.iter_modules(jsonargparse.__path__):
            try:
                mods[mi.name] = importlib.import_module("jsonargparse." + mi.name)
            except Exception:  # noqa: BLE001 - optional dependency missing
                continue
        _ENV["mods"] = mods
    out = {"cwd": os.getcwd(), "argparse.Namespace": argparse.Namespace.__module__ + "." + argparse.Namespace.__qualname__, "sys.argv": list(sys.argv)}
    for mn, m in sorted(mods.items()):
        for k, v in sorted(vars(m).items()):
            if k.startswith("__") or (mn + "." + k) in _GLOBAL_OK:
                continue
            if isinstance(v, type) and getattr(v, "__module__", None) != m.__name__:
                continue   # an imported class: listed under its own module
            out[mn + "." + k] = _gsig(v)
    return out


class Pristine:
    """answers of a fresh PROCESS: a server forked from the harness before any parser was asked anything; every request
    is answered by a child forked from that server (so no request sees what an earlier one left in module globals, class
    attributes, caches, context variables) and the child exits.  The file system (default config file) and the request
    (operation, environment) are the only inputs."""

    def __init__(self):
        import struct

        self.struct = struct
        req_r, req_w = os.pipe()
        ans_r, ans_w = os.pipe()
        pid = os.fork()
        if pid == 0:
            os.close(req_w)
            os.close(ans_r)
            try:
                self._serve(req_r, ans_w)
            finally:
                os._exit(0)
        os.close(req_r)
        os.close(ans_w)
        self.pid, self.req_w, self.ans_r = pid, req_w, ans_r
        atexit.register(self.close)

    def _read(self, fd):
        head = b""
        while len(head) < 4:
            chunk = os.read(fd, 4 - len(head))
            if not chunk:
                return None
            head += chunk
        n = self.struct.unpack("<I", head)[0]
        buf = b""
        while len(buf) < n:
            chunk = os.read(fd, n - len(buf))
            if not chunk:
                return None
            buf += chunk
        return json.loads(buf.decode())

    def _write(self, fd, obj):
        data = json.dumps(obj).encode()
        data = self.struct.pack("<I", len(data)) + data
        while data:
            data = data[os.write(fd, data):]

    def _serve(self, req_r, ans_w):
        while True:
            req = self._read(req_r)
            if req is None:
                return
            pid = os.fork()
            if pid == 0:
                try:
                    try:
                        import base64
                        import pickle

                        import importlib

                        for name in req.get("imports", []):   # modules the asking process has imported since it started
                            ensure_plugin(name)
                            importlib.import_module(name)
                        cfgs = [pickle.loads(base64.b64decode(c)) if c else None for c in req["cfgs"]]
                        ans = contextvars.Context().run(lambda: run_op_cfg(build_parser(req["kind"]), req["kind"], req["op"], cfgs[0], cfgs[1]))
                    except BaseException as ex:  # noqa: BLE001
                        ans = {"k": "machinery", "t": repr(ex)[:300]}
                    self._write(ans_w, ans)
                finally:
                    os._exit(0)
            os.waitpid(pid, 0)

    def ask(self, kind, op):
        import base64
        import pickle

        # configurations handed to dump/validate/...: made here (canonical environment), so that the child does nothing but the operation
        cfgs = [None, None]
        if op["op"] in ("dump", "validate", "instantiate", "save", "strip_unknown", "merge_config"):
            cfgs[0] = apply_edit(HELPER.cfg(kind, subst(op["src"])), subst(op.get("edit")))
        if op["op"] == "merge_config":
            cfgs[1] = HELPER.cfg(kind, subst(op["src2"]))
        self._write(self.req_w, {"kind": kind, "op": op, "imports": imported_plugins(), "cfgs": [base64.b64encode(pickle.dumps(c)).decode() if c is not None else None for c in cfgs]})
        ans = self._read(self.ans_r)
        if ans is None or ans.get("k") == "machinery":
            raise MachineryError("pristine-process oracle failed: %s" % (ans,))
        return ans

    def close(self):
        if self.req_w is not None:
            with contextlib.suppress(OSError):
                os.close(self.req_w)
            self.req_w = None
            with contextlib.suppress(OSError, ChildProcessError):
                os.waitpid(self.pid, 0)


def in_thread(fn):
    import threading

    box = {}

    def target():
        try:
            box["r"] = fn()
        except BaseException as ex:  # noqa: BLE001 - handed to the caller
            box["e"] = ex
    t = threading.Thread(target=target)
    t.start()
    t.join()
    if "e" in box:
        raise box["e"]
    return box["r"]


class WideSession:
    def __init__(self, kinds, mode, pristine=True):
        self.kinds = list(kinds)
        self.mode = mode
        self.pristine = pristine   # reference answers from a fresh process (slower: cold caches) or from a fresh parser in a fresh context

    def run(self, hist, probes=True):
        """per step: reused / fresh (fresh parser, fresh context) / dirty (fresh parser, the context the history left) answers
        and the probes"""
        def call(fn):
            if self.mode == "ctx":
                return contextvars.Context().run(fn)
            if self.mode == "thread":
                return in_thread(fn)
            return fn()

        def body():
            parsers = [build_parser(k) for k in self.kinds]
            base = [base_sig(k) for k in self.kinds]
            proc_start = process_sig() if probes else None   # what THIS history changes (earlier sessions are reported on their own)
            steps = []
            for n, (pi, op) in enumerate(hist):
                kind = self.kinds[pi]
                if op["op"] == "defaults_file":
                    write_defaults_file(kind, op["content"])
                if op["op"] == "decoy":
                    run_decoy(op)   # in the session's own context, whatever the mode
                    steps.append({"reused": {"k": "result", "v": None}, "fresh": {"k": "result", "v": None}})
                    continue
                # the reference answer: a fresh parser in a fresh PROCESS (module globals, caches, class attributes pristine too)
                fresh = _ENV["pristine"].ask(kind, op) if (self.pristine and _ENV.get("pristine")) else json.loads(json.dumps(run_fresh(kind, op)))
                reused = call(lambda: run_op(parsers[pi], kind, op))
                step = {"reused": json.loads(json.dumps(reused)), "fresh": fresh}
                if self.mode == "same":
                    step["dirty"] = json.loads(json.dumps(run_op(build_parser(kind), kind, op)))
                if probes:
                    st = probe(parsers, self.kinds)
                    step["dirty_ctx"] = st["dirty_ctx"] + (["lenient_check"] if st["lenient"] else []) + (["parent_parser"] if st["parent"] else [])
                    step["pending"] = [i for i, p_ in enumerate(st["parsers"]) if p_["pending"] is not None]
                    step["dc"] = [i for i, p_ in enumerate(st["parsers"]) if p_["dc"]]
                    step["linked"] = [i for i, p_ in enumerate(st["parsers"]) if p_["linked"] != _ENV["linked0"][self.kinds[i]]]
                    if n == len(hist) - 1 or n % 4 == 3:
                        # (what is left on objects / in module globals stays there: looked at every fourth step and at the end)
                        step["sigdiff"] = [d for i in range(len(parsers)) for d in sig_diff(base[i], graph_sig(parsers[i]), "p%d" % i)]
                        step["procdiff"] = sig_diff(proc_start, process_sig(), "process")
                steps.append(step)
            return steps
        try:
            return contextvars.Context().run(body)
        finally:
            for k, c in DEFAULTS_FILE_ORIG.items():
                write_defaults_file(k, c)


def wide_diff(steps):
    for i, s in enumerate(steps):
        if not same_obs(s["reused"], s["fresh"]):
            return i, "reused"
        if "dirty" in s and not same_obs(s["dirty"], s["fresh"]):
            return i, "dirty"
    return None


def wide_bad(kinds, mode, hist, pristine=True):
    return wide_diff(WideSession(kinds, mode, pristine).run(hist, probes=False)) is not None


def continuations(kinds):
    """what to ask after a history that left something behind: every reader of every live parser, alone and after each kind of
    legitimate change of the process"""
    out = []
    for pi, k in enumerate(kinds):
        if k == "D":
            continue
        P = PARTIAL[k]
        env = dict(ENV_VARS[k]) or None
        readers = [{"op": "parse_string", "text": t} for t in P["str"]] + [{"op": "parse_object", "obj": o} for o in P["obj"]] + \
                  [{"op": "parse_args", "argv": list(a)} for a in P["argv"]] + [{"op": "parse_path", "path": POOL[k]["path_ok"][0]}]
        readers = readers + [dict(r, pkw={"defaults": False}) for r in readers] + [dict(r, environ=env) for r in readers if r["op"] == "parse_args" and env]
        readers += [{"op": "format_help"}, {"op": "get_defaults"}, {"op": "parse_args", "argv": ["--help"]},
                    {"op": "validate", "src": POOL[k]["obj_ok"][0], "edit": POOL[k]["bad_edit"][0]},
                    {"op": "dump", "src": POOL[k]["obj_ok"][1], "kw": {}}, {"op": "instantiate", "src": POOL[k]["obj_ok"][1]}]
        for r in readers:
            out.append([(pi, r)])
        changers = [lambda: (pi, gen_changer_fixed("plugin", k))]
        if k in DEFAULTS_FILE:
            changers += [lambda c=c: (pi, {"op": "defaults_file", "content": c}) for c in DEFAULTS_CONTENT[k][1:4]]
        for ch in changers:
            for r in ({"op": "format_help"}, {"op": "get_defaults"}, {"op": "parse_args", "argv": ["--help"]}, {"op": "print_help"}):
                out.append([ch(), (pi, dict(r))])
        # a parse that fails inside --cfg after typed values were accepted, then every reader of partly given values
        sub = ["fit"] if k == "A" else []
        for bad in ("--cfg=<TMP>/bad1.yaml", '--cfg={"nokey": 1}'):
            f = {"op": "parse_args", "argv": ["--model=Other", "--model.tag=t", "--trainer.opt.x=3", bad] + sub}
            for r in readers[: len(P["str"]) + len(P["obj"])]:
                out.append([(pi, dict(f)), (pi, dict(r))])
    return out


def gen_changer_fixed(what, kind):
    name = new_plugin()
    n = PLUGIN_RE.match(name).group(1)
    return {"op": "parse_args", "argv": ["--model=%s.Wide%s" % (name, n)] + (["fit"] if kind == "A" else []), "plugin": name}


def search_continuations(ctx, kinds, mode, prefix, why):
    """failing-input search after a probe found something left behind by `prefix`: a concrete operation whose answer shows it"""
    done = _ENV.setdefault("searched", {})
    key = why[:60]
    if done.get(key, 0) >= 3 or sum(done.values()) >= 6:   # a few different histories per kind of left-over, bounded in total
        return False
    done[key] = done.get(key, 0) + 1
    for cont in continuations(kinds):
        cand = list(prefix) + cont
        if wide_bad(kinds, mode, cand, False):
            small = shrink_history(kinds, cand, lambda h: wide_bad(kinds, mode, h, False))
            s2 = WideSession(kinds, mode, False).run(small, probes=False)
            j = wide_diff(s2)
            src = s2[j[0]] if j is not None else s2[-1]
            ctx.violation("the answer of an operation on a reused parser differs from its answer on a fresh parser (found by asking every reader after a "
                          "history that left this behind: %s)" % why[:200],
                          {"kind": "wide", "origin": "continuation-search", "mode": mode, "pristine": False, "parsers": kinds,
                           "history": [[pi, strip_op(op)] for pi, op in small], "reused": src["reused"], "fresh": src["fresh"], "dirty": src.get("dirty")})
            return True
    return False


def report_wide(ctx, kinds, mode, hist, steps, pristine=True):
    ctx.count(len(hist))
    hj = [[pi, strip_op(op)] for pi, op in hist]
    if len(hist) >= 2:
        ctx.nontrivial(jd([mode, hj]))
    d = wide_diff(steps)
    if d is not None:
        i, which = d
        small = shrink_history(kinds, hist[: i + 1], lambda h: wide_bad(kinds, mode, h, pristine))
        s2 = WideSession(kinds, mode, pristine).run(small, probes=False)
        j = wide_diff(s2)
        src = s2[j[0]] if j is not None else steps[i]
        what = ("the answer of an operation on a reused parser (%s) differs from its answer on a fresh parser (after %d earlier operation(s))" % (
            {"same": "same context", "ctx": "fresh context per call", "thread": "new thread per call"}[mode], len(small) - 1)) if which == "reused" else \
            "the answer of an operation on a FRESH parser differs when asked in the context left by %d earlier operation(s) on other parsers" % (len(small) - 1)
        ctx.violation(what, {"kind": "wide", "origin": "generated-wide", "mode": mode, "pristine": pristine, "parsers": kinds, "history": [[pi, strip_op(op)] for pi, op in small],
                             "reused": src["reused"], "fresh": src["fresh"], "dirty": src.get("dirty")})
        return True
    for n, s in enumerate(steps):
        where = jd({"mode": mode, "parsers": kinds, "history": hj[: n + 1]})[:1800]
        why = None
        if s.get("dirty_ctx"):
            why = "context variable(s) not restored after an operation: %s" % s["dirty_ctx"]
        elif s.get("pending") or s.get("dc") or s.get("linked"):
            why = "a carrier that every operation restores is not restored (pending print_config %s, sub_add_kwargs default %s, linked_targets %s)" % (
                s.get("pending"), s.get("dc"), s.get("linked"))
        elif s.get("sigdiff"):
            why = "persistent state the model does not know: attribute(s) of the reused parser differ from a fresh one: %s" % s["sigdiff"][:6]
        elif s.get("procdiff"):
            why = "process-level state the model does not know changed (module globals / class attributes / lru caches / cwd / argparse.Namespace): %s" % s["procdiff"][:6]
        if why:
            if _ENV.setdefault("tie_reports", 0) < 3:
                _ENV["tie_reports"] += 1
                ctx.tie_break(why, where)
            # a probe is not an answer: look for an operation whose ANSWER shows what was left behind
            return search_continuations(ctx, kinds, mode, hist[: n + 1], why)
    return False


# ------------------------------------------------------------------ the check
def run_batch(ctx: Ctx, batch, origin):
    """batch: [(kinds, hist)] — model answers are fetched in one driver call"""
    # the model needs the shapes, which need the fresh answers: run the real side first, then the model, then compare
    results = []
    lines = []
    spans = []
    for kinds, hist in batch:
        steps, argv_of = Session(kinds).run(hist)
        results.append((kinds, hist, steps, argv_of))
        ls = model_lines(kinds, [(pi, s["mop"]) for (pi, _), s in zip(hist, steps)])
        spans.append((len(lines), len(ls)))
        lines.extend(ls)
    model = None
    if lines:
        try:
            model = ctx.driver("PState", lines)
        except MachineryError as ex:
            if ctx.lean_ok:
                raise
            ctx.tie_break("correspondence E12 not runnable (model does not build)", str(ex)[:500])
    n_rep = 0
    for (kinds, hist, steps, argv_of), (a, n) in zip(results, spans):
        mo = model[a + 1: a + n] if model is not None else None
        if report(ctx, kinds, hist, steps, argv_of, mo, origin):
            n_rep += 1
    return n_rep


def report(ctx, kinds, hist, steps, argv_of, model_out, origin):
    ctx.count(len(hist))
    reported = False
    if any(st["kw"] or st["dk"] or st["sap"] or any(p["args"] is not None or p["shtab"] for p in st["parsers"])
           for st in (s["state"] for s in steps[:-1])):
        ctx.nontrivial(jd([[pi, strip_op(op)] for pi, op in hist]))
    i = first_oracle_diff(steps)
    if i is not None:
        small = shrink_history(kinds, hist[: i + 1], lambda h: oracle_bad(kinds, h))
        s2, _ = Session(kinds).run(small, with_state=False)
        j = first_oracle_diff(s2)
        src = s2[j] if j is not None else steps[i]
        ctx.violation("the answer of an operation on a reused parser differs from its answer on a fresh parser (after %d earlier operation(s))" % (len(small) - 1),
                      {"kind": "oracle", "origin": origin, "parsers": kinds, "history": [[pi, strip_op(op)] for pi, op in small],
                       "reused": src["reused"], "fresh": src["fresh"]})
        reported = True
    for n, s in enumerate(steps):
        if s["state"]["dirty_ctx"]:
            why = "context variable(s) not restored after an operation: %s" % s["state"]["dirty_ctx"]
            ctx.tie_break(why, jd({"parsers": kinds, "history": [[pi, strip_op(op)] for pi, op in hist[: n + 1]]})[:1800])
            search_continuations(ctx, kinds, "same", hist[: n + 1], why)
            reported = True
            break
        if s["sigdiff"]:
            why = "persistent state the model does not know: attribute(s) of the reused parser differ from a fresh one: %s" % s["sigdiff"][:6]
            ctx.tie_break(why, jd({"parsers": kinds, "history": [[pi, strip_op(op)] for pi, op in hist[: n + 1]]})[:1800])
            search_continuations(ctx, kinds, "same", hist[: n + 1], why)
            reported = True
            break
    if model_out is not None:
        for n, (s, m) in enumerate(zip(steps, model_out)):
            pi, op = hist[n]
            want = obs_class(s["reused"], op)
            if jd(want) != jd(m["out"]):
                ctx.tie_break("correspondence E12 (PState model vs real parser): outcome class disagrees",
                              jd({"parsers": kinds, "history": [[p_, strip_op(o_)] for p_, o_ in hist[: n + 1]], "real": want, "model": m["out"], "mop": s["mop"]})[:1900])
                reported = True
                break
            bad = compare_state(state_to_model(s["state"], kinds, argv_of), m["state"], kinds)
            if bad:
                ctx.tie_break("correspondence E12 (PState model vs real parser): carrier state after the step disagrees: " + "; ".join(bad)[:400],
                              jd({"parsers": kinds, "history": [[p_, strip_op(o_)] for p_, o_ in hist[: n + 1]], "mop": s["mop"]})[:1900])
                reported = True
                break
    return reported


def setup_env():
    repo_python_path()
    from importlib.util import find_spec

    env_dir()
    _ENV["shtab"] = bool(find_spec("shtab"))
    _ENV["linked0"] = {}
    for k in ("A", "B", "D"):
        st = contextvars.Context().run(lambda k=k: probe([build_parser(k)], [k]))
        _ENV["linked0"][k] = st["parsers"][0]["linked"]
    # baseline of the process-level state: everything imported, nothing asked of any parser yet
    if "proc0" not in _ENV:
        _ENV["proc0"] = process_sig()
    if "pristine" not in _ENV:
        _ENV["pristine"] = Pristine()


def run(ctx: Ctx):
    setup_env()
    ctx.rule = ("(a) histories of 2-12 operations from 22 kinds (parse_args ok / failing / --help / --print_config[=flags] / failing with --print_config / "
                "--x.help Class; parse_object, parse_string, parse_path, parse_env ok and failing; get_defaults; dump ok/failing; validate ok/failing; "
                "instantiate_classes ok/failing; format_help) on one reused real parser (kind A: sub-commands, subclass argument, class group with dataclass "
                "parameter, parse link, instantiate link, config files, default_env; kind B: default_config_files, exit_on_error) and on two parsers "
                "interleaved; every step: reused vs fresh-in-fresh-context (answer), real vs Lean model (outcome class + every carrier), object graph vs "
                "fresh; non-trivial = history in which at least one carrier of the reused parser differs from a fresh parser's at some step; distinct by "
                "canonical JSON of the history; (b) wide histories of 3-16 operations: the 22 kinds with every keyword (env, defaults, with_meta, "
                "skip_validation, all dump flags, validate/instantiate keywords) plus parse_known_args, get_default, save, strip_unknown, merge_config, "
                "print_help, changes of os.environ and of the default config file's content; parser reused in the same context / a fresh "
                "contextvars.Context per call / a new thread per call; reference = fresh parser in a fresh context or (35%) in a fresh process; "
                "also a fresh parser asked in the context the history left; parser kind D (defaults cannot be completed) as a second parser; "
                "failing-after-prefix parses; sandwiches reader/changer/reader (changer: plugin module import, default config content, decoy parser "
                "calls, broken parser); 1-3 readers of partly given typed values appended; 38 decoy x reader pairs first; non-trivial = every wide "
                "history of at least 2 operations")
    ctx.assumptions = [
        "argv elements are classified into the model's token kinds by the harness (tables CLS_OPTS/DC_OPTS, marks in the pools); whether a non-argv "
        "input or a configuration is acceptable is taken from the fresh parser's answer (the model does not model value validity)",
        "a fresh contextvars.Context stands for a fresh process as far as context variables go; module-level caches of argparse/PyYAML/inspect are shared",
        "usage text on stderr and the --print_shtab entry of help texts are outside the observable (DESIGN, C09)",
        "the fresh-process reference is a child forked from a server that was forked from the harness before any parser was asked anything",
    ]
    ctx.lean_build(extractors=["pstate"])

    from ..lib import corpus as corpus_mod

    batch = []
    for c in corpus_mod.load(ctx.prop):
        batch.append((c["parsers"], [(pi, op) for pi, op in c["history"]]))
    n_corpus = len(batch)
    run_batch(ctx, batch, "corpus")

    # exhaustive short histories over a fixed alphabet (finite scope), then random histories
    boost = ctx.search_boost
    ex_batch = []
    for kind in ("A", "B"):
        alpha = alphabet(kind, small=not ctx.thorough)
        for a, b in itertools.product(alpha, repeat=2):
            ex_batch.append(([kind], [(0, a), (0, b)]))
        if ctx.thorough:
            al3 = alphabet(kind, small=True)[:12]
            for combo in itertools.product(al3, repeat=3):
                ex_batch.append(([kind], [(0, o) for o in combo]))
    ctx.extra["exhaustive_short_histories"] = len(ex_batch)
    n_random = ctx.budget(100, 1500) * (2 if boost > 1 else 1)
    rnd = []
    for _ in range(n_random):
        r = ctx.rng.random()
        kinds = ["A"] if r < 0.4 else ["B"] if r < 0.7 else ["A", "B"] if r < 0.9 else ["A", "A"]
        rnd.append((kinds, gen_history(ctx.rng, kinds)))
    allb = ex_batch + rnd
    for kinds, hist in allb:
        ctx.hist("parsers", "+".join(kinds))
        ctx.hist("length", len(hist))
        for _, op in hist:
            ctx.hist("ops", op.get("kind", op["op"]))
    CH = 400
    for i in range(0, len(allb), CH):
        run_batch(ctx, allb[i: i + CH], "exhaustive" if i < len(ex_batch) else "generated")
        if len(ctx.violations) >= 5:
            break
    for kinds, hist in rnd[:3]:
        ctx.sample({"parsers": kinds, "history": [[pi, strip_op(op)] for pi, op in hist]})

    # wide histories: every keyword of every method, more methods, changing environment, three ways of reusing a parser
    pd = sig_diff(_ENV["proc0"], process_sig(), "process")
    if pd:
        ctx.tie_break("process-level state the model does not know changed during the histories above (module globals / class attributes / lru "
                      "caches / cwd / argparse.Namespace): %s" % pd[:6], "baseline: everything imported, no parser asked anything")
    n_wide = ctx.budget(60, 450) * (2 if boost > 1 else 1)
    n_rep = 0
    dp = decoy_pairs()
    ctx.extra["decoy_pairs"] = len(dp)
    for kinds, hist in dp:
        steps = WideSession(kinds, "same", False).run(hist, probes=False)
        if report_wide(ctx, kinds, "same", hist, steps, False):
            n_rep += 1
            if n_rep >= 3:
                break
    for i in range(n_wide):
        r = ctx.rng.random()
        kinds = ["A"] if r < 0.3 else ["B"] if r < 0.58 else ["A", "B"] if r < 0.7 else ["B", "B"] if r < 0.76 else ["A", "A"] if r < 0.8 \
            else ["A", "D"] if r < 0.9 else ["B", "D"]
        mode = ctx.rng.choice(MODES)
        hist = gen_wide_history(ctx.rng, kinds)
        pristine = ctx.rng.random() < 0.35
        ctx.hist("wide.reference", "fresh process" if pristine else "fresh parser, fresh context")
        ctx.hist("wide.mode", mode)
        ctx.hist("wide.parsers", "+".join(kinds))
        ctx.hist("wide.length", len(hist))
        for _, op in hist:
            ctx.hist("wide.ops", op.get("kind", op["op"]))
            for kw in sorted(set(op.get("pkw", {})) | set(op.get("kw", {}))):
                ctx.hist("wide.keywords", "%s(%s)" % (op["op"], kw))
        steps = WideSession(kinds, mode, pristine).run(hist)
        if report_wide(ctx, kinds, mode, hist, steps, pristine):
            n_rep += 1
            if n_rep >= 5:
                break
        if i < 2:
            ctx.sample({"mode": mode, "parsers": kinds, "history": [[pi, strip_op(op)] for pi, op in hist]})
    ctx.extra["wide_histories"] = n_wide
    ctx.extra["histories"] = len(allb) + n_corpus
    ctx.extra["nontrivial_rule_note"] = "measured from the probe: a carrier of the reused parser (args, shtab, context variables) is set at some step"
    ctx.replay_fixed_demos()
    for f in ctx.open_findings():
        w = f.get("witness", {})
        if "history" in w and oracle_bad(w["parsers"], [(pi, op) for pi, op in w["history"]]):
            ctx.known(f["id"], f["description"])
        else:
            ctx.stale_findings.append(f["id"])


def replay(ctx: Ctx, body):
    setup_env()
    r = body["replay"]
    if r.get("kind") == "demo":
        import subprocess

        from ..lib.common import REPO, VERIF

        p = subprocess.run(["/venv/bin/python", os.path.join(VERIF, r["demo"])], env=dict(os.environ, PYTHONPATH=REPO))
        return 1 if p.returncode != 0 else 0
    if "history" not in r:
        print(json.dumps(r, indent=1)[:3000])
        return 1
    kinds = r["parsers"]
    hist = [(pi, op) for pi, op in r["history"]]
    if r.get("kind") == "wide":
        steps = WideSession(kinds, r.get("mode", "same"), r.get("pristine", True)).run(hist, probes=False)
        bad = 0
        for (pi, op), s in zip(hist, steps):
            print("parser %d (%s) %s" % (pi, kinds[pi], jd(strip_op(op))[:200]))
            print("    reused:", jd(s["reused"])[:400])
            if not same_obs(s["reused"], s["fresh"]) or ("dirty" in s and not same_obs(s["dirty"], s["fresh"])):
                print("    fresh :", jd(s["fresh"])[:400])
                if "dirty" in s:
                    print("    fresh parser, same context:", jd(s["dirty"])[:400])
                bad = 1
        return bad
    steps, _ = Session(kinds).run(hist, with_state=False)
    bad = 0
    for (pi, op), s in zip(hist, steps):
        same = same_obs(s["reused"], s["fresh"])
        print("parser %d (%s) %s" % (pi, kinds[pi], jd(strip_op(op))[:200]))
        print("    reused:", jd(s["reused"])[:400])
        if not same:
            print("    fresh :", jd(s["fresh"])[:400])
            bad = 1
    return bad

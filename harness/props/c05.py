"""C05 — The same settings give the same configuration through every input channel.

Pipeline
 (1) regenerate Gen/NsTables and Gen/YesNoWords (the word table of ActionYesNo._boolean_type, by ast) and build Props/C05
     (text round trip incl. float tokens, dotted = nested, channel agreement for all settings lists incl. floats, yes/no
     options and list-valued options, env-var naming injective / decodable, yes/no words case-insensitive and negation,
     load_basic agrees with the reader on canonical text);
 (2) correspondence, model (Drv/Channels) vs real code:
       envVar            vs  _formatters.get_env_var            (generated keys and prefixes, collisions included)
       dest / segsOf     vs  the path Namespace.__setitem__ creates for the dotted key
       textOf / loadText vs  json.dumps / json.loads / yaml_load / load_value(simple_types) in every parser mode
       loadBasic         vs  _loaders_dumpers.load_basic         (canonical texts and look-alikes: 'True', 'yes', '0123', ' 1 ', '1e3' ...)
       boolWord          vs  ActionYesNo._boolean_type            (the four words in random capitalisations, non-words)
       render            vs  the renderings this harness feeds to the parser
       apply (render)    vs  the namespace the real parser returns, per channel;
 (3) property oracle on the REAL code: generated parsers (2-5 flat or dotted arguments, one argument
     group; optionally list-valued options nargs=1/2/+/* and a sub-command level) x settings with
     unambiguous text, rendered through THIRTEEN channels (argv --k=v, argv --k v, --cfg string
     nested / dotted, --cfg file, parse_string, parse_path, parse_object nested / dotted, environment
     with default_env, parser_mode json / jsonnet / omegaconf) plus two more spellings of the
     environment channel (the env mapping of parse_env; a list-valued option given one bare item);
     all channels must return the same configuration (type-aware: 1 != True != 1.0) or all must
     reject.  Invalid settings (wrong type at one key, unknown key) must be rejected by every channel;
 (4) replay of the open findings' witnesses.

Session 2 additions
 * typed part (Core/ChannelsTyped.lean): `_check_type` / `parse_value_or_config` / `load_value` / `adapt_typehints` with the orig_val
   mechanism for int | float | bool | str | NoneType | Enum | Union | List | Dict | Tuple | TypedDict; the loaders are parameters.
   correspond_typed: model viaText / viaValue vs parse_args(--v=TEXT) / parse_env / parse_object on generated (type, value) pairs,
   valid and invalid, the loaders' tables filled with what the real loaders return;
 * Gen/ChannelSrc (extractor channel_src): normalised statements of _load_env_vars, _check_value_key, _apply_actions, parse_argv_item,
   _check_type, _is_valid_string, sort_subtypes_for_union, load_basic, load_list_or_dict, load_value, json_or_yaml_load,
   parse_value_or_config, _is_action_value_list, _ActionConfigLoad.*, get_env_var and of the transcribed branches of adapt_typehints,
   pinned by 26 tie_src_* theorems; per container branch whether the items' orig_val is reset (consumed by the model);
 * oracle grammar: containers whose item type is a Union with str (List[Optional[str]], List[Union[int,str]], Dict[str,Optional[str]],
   Tuple[Optional[str],int], Optional[List[Optional[str]]], List[List[Union[int,str]]], TypedDict) with items no member accepts;
   the empty string, blank / padded strings and unicode at str positions; "" and " " as invalid values at non-str positions.
"""
from __future__ import annotations

import atexit
import enum
import json
import os
import re
import shutil
import tempfile
import warnings
from unittest import mock

from ..lib.common import Ctx, MachineryError, repo_python_path

MANIFEST = {
    "engine": "Channels",
    "technique": "Lean 4 proofs over an executable model of the channel layer (renderings, dotted/nested addressing, get_env_var naming, "
                 "canonical value text and its reader, assignment with the Namespace model's setK) and of the typed layer (_check_type, "
                 "parse_value_or_config, load_value, adapt_typehints with orig_val, loaders as parameters) + source ties (26 pinned functions / "
                 "branches, per-branch orig_val facts consumed by the model) + differential correspondence + "
                 "thirteen-channel differential oracle on generated real parsers",
    "text": "Theorems in lean/Jap/Props/C05.lean prove, for settings lists of any length over keys of any depth: the canonical JSON text of every "
            "value of the grammar is read back to exactly that value (and load_basic returns the same on the scalar texts); the dotted and the nested "
            "spelling of the same settings give the same namespace; command line, config document (nested/dotted), Python object (nested/dotted) and "
            "environment renderings of the same settings give the same namespace on every base namespace that holds the keys (and store exactly the given "
            "values on any base); environment variable names are injective on keys without '__' / trailing '_' up to letter case, and the key is "
            "recoverable from the name; with decide-witnesses of the collisions when the hypotheses are dropped; floats as exact JSON number tokens "
            "(reader round trip incl. unsigned exponents, same token through every channel); ActionYesNo (_boolean_type as written over the word "
            "table regenerated from the source: case-insensitive, --no_k=w is the negation of --k=w, all spellings give the same boolean); "
            "list-valued options nargs 1/2/+/* (_is_action_value_list; --k v1 v2, JSON list in the variable, list in documents). The model is tied to the code by "
            "TYPED POSITIONS (Core/ChannelsTyped): for every type of int|float|bool|str|NoneType|Enum|Union|List|Dict|Tuple|TypedDict without a str "
            "reachable from the top through Unions, every value (valid or invalid) and every text that the loaders read as that value, the text channel "
            "(_check_type on the option's text: argv, environment) and the value channel (_check_type on the loaded value: documents, objects) give the "
            "same result or both reject (C05_typed_channels, for EVERY pair of loaders); items of List/Dict/Tuple never see the option's text whatever "
            "their type (C05_items_never_see_option_text, from facts regenerated out of adapt_typehints); a string at a str position is kept as it is "
            "whatever the loaders make of it (C05_str_position_keeps_text: '', ' ', 'null', '[1]'); a present-but-empty environment variable is a "
            "setting (C05_env_empty_variable); negation witness for Union[int,str] (documented ambiguity); the old TypedDict field leak (repaired, F62) "
            "kept as a regression witness of the fact's old value. "
            "differential correspondence of envVar/get_env_var, textOf/json.dumps, loadText and loadBasic against load_basic, json.loads, yaml_load and "
            "load_value in every parser mode, the renderings, apply(render) against the namespace the real parser returns for each channel, and the typed "
            "model's viaText / viaValue against parse_args / parse_env / parse_object on generated (type, value) pairs; 26 tie_src theorems pin the statements of "
            "the transcribed functions; the "
            "property itself is evaluated on the real code over generated parsers x settings x thirteen channels.",
    "level_note": "Trusted: Lean kernel; axioms propext/Quot.sound/Classical.choice only; the correspondence harness and its generators. The model's "
                  "reader covers exactly the canonical text of the value grammar (ints, bools, null, safe-ASCII strings, JSON number tokens, flat lists, "
                  "str->int dicts); floats are exact tokens (that they resolve as float under the yaml loader is C01's C05_json_float_sub); "
                  "scalar resolution of arbitrary text is C01's (the typed layer takes the loaders as parameters; the correspondence fills them with what the real "
                  "loaders return). Outside the typed model: Literal, Set, registered types (PositiveInt), Any, paths, class/dataclass types, --k+ appends, "
                  "--k.item assignments, the val == default early return of the retry call, float overflow (oracle only). jsonnet and omegaconf evaluation are oracles (partial for those "
                  "two modes: ints beyond 2^53 and '${' strings are skipped there). argparse tokenisation of '--k v' with v starting with '-' is outside. "
                  "Environment variables naming no argument are not settings (ignored by design). Non-ASCII key names are outside the envVar model.",
}

F_NULL = "C05-null-non-optional"
F_LIT = "C05-literal-int-accepts-bool"
F_DICT = "C05-dict-item-dotted-mapping"
F_CLASH = "C05-clash-named-argument"
CLASH_HINTS = ("enum", "dictint", "dictstr", "any", "tupint", "tupvar", "float", "ufloat", "listfloat", "yesno",
               # items converted by their Union ('~' / '#x' -> None at Optional[str], '1' -> 1 at Union[int, str])
               "listoptstr", "listustr", "dictoptstr", "tupoptstr", "optlistoptstr", "listlistustr", "tdict")   # value converted by _check_value_key, or a dict

warnings.simplefilter("ignore")


class Color(enum.Enum):
    red = 1
    blue = 2
    green = 3


# ---------------------------------------------------------------- the grammar of parsers and settings
LOOKALIKE = ["1", "true", "null", "1e3", "0123", "[1]", "{a: 1}", " padded ", "a: b", "#x", "", "-", "-x", "--y", "a=b", "'q'", "~",
             "!!int 3", "*a", "&a", "%x", "@x", "`x", "/tmp", "x:", "{}", "[]", "yes", "True", ".5", "1_000", "0x10", "2020-01-01", "1:30",
             "a,b", "null ", "0", "-0", "+1", "1.0", "no", "on", "None", "plain", "two words", "a.b", "a__b", "é", '"dq"', "a\\b", "a\nb", "\t",
             "${x}", "-5", "0o17", ".inf", ".nan", "<<", "=", "? a", "- a", "|", ">", "a #b", "{\"a\": 1}", "[1, 2]",
             "YQ==", "a=b=c", "k=", "=v", "http://h/p?q=1&r=2", "x==y", "QUJD==",
             " ", "  ", "\n", " a", "a ", "a\n", "\na", " 1", "1 ", "true ", " null", "\u65e5\u672c\u8a9e", "\u00df", "\u0130", "\u00f1o", "\u00a0", "x\u00a0",
             "1E3", "0b11", "1,000", "\u0663", "TRUE", "Null", "NO", "off", "y", "n", "[", "]", "{", "}", "[1", "{a", "- ", "? ", ": "]
# the empty string, blank and padded strings: a present-but-empty option / variable / document value is a setting like any other
BLANKS = ["", "", "", " ", "  ", "\t", "\n", " a", "a ", " a b ", "\na", "a\n"]
EQ_STRINGS = ["a=b", "YQ==", "a=b=c", "k=", "=v", "http://h/p?q=1&r=2", "x==y", "QUJD==", "plain", "1", "true", "two words", ""]
ITEM_NAMES = ["filter", "token", "url", "a", "k_2", "B"]
CHOICES = ["fast", "slow", "1"]
LIT_MEMBERS = ["a", "b", "1", "true", "null", " x ", "[1]"]
NAMES = ["a", "b", "c", "x", "y", "lr", "n_1", "opt", "items", "keys", "Ab", "v2", "w", "name"]
GROUP_PATHS = ["g", "h", "g.s", "model"]
HINTS = ["int", "int", "bool", "str", "str", "optint", "listint", "dictint", "lit", "enum", "posint", "liststr", "any", "litint", "tupint", "tupvar",
         "float", "ufloat", "listfloat", "yesno", "dictstr", "choice",
         # containers whose ITEM type is a Union with str: the str member must never be fed the text of the whole option
         "listoptstr", "listustr", "dictoptstr", "tupoptstr", "optlistoptstr", "listlistustr", "tdict"]
STR_UNION_CONTAINERS = ("listoptstr", "listustr", "dictoptstr", "tupoptstr", "optlistoptstr", "listlistustr", "tdict")
# a float setting is a JSON number token in a given SPELLING {"$f": "1e5"} (json.dumps never writes 1e5 / 2E3 / 1E-3, hand-written documents do);
# a yes/no setting is a boolean with the WORD used where a channel carries text {"$b": "YES", "neg": false}
FLOAT_SPELLINGS = ["0.5", "1.5", "-2.25", "100000.0", "1e+16", "1e-05", "3", "-7", "0.0",                # what json.dumps / repr write (and ints)
                   "1e5", "2E3", "1E-3", "-3e10", "1e0", "12e2", "5E1", "1.5e3", "1.0E+2", "5.7e-8", "0.25E2", "-1.5E-2", "1e-3", "2e+3", "0e0"]
YES_WORDS = ["true", "yes", "True", "Yes", "TRUE", "YES", "tRuE"]
NO_WORDS = ["false", "no", "False", "No", "FALSE", "NO", "fAlSe"]
RAW_HINTS = {"str", "lit", "enum", "choice"}           # option / variable text is the value
INT_POOL = [0, 1, -1, 7, -5, 123, 10, 2**31, -(2**63), 10**20, 99]
DICT_KEYS = ["a", "b", "b c", "1", "true", "null", "k_2", "A"]


_TDICT = None


def tdict_type():
    global _TDICT
    if _TDICT is None:
        from typing import Optional, TypedDict

        _TDICT = TypedDict("C05Rec", {"a": Optional[str], "n": int})
    return _TDICT


def hint_type(h):
    from typing import Any, Dict, List, Literal, Optional, Tuple, Union

    from jsonargparse.typing import PositiveInt

    if h == "tdict":
        return tdict_type()
    if h in STR_UNION_CONTAINERS:
        return {"listoptstr": List[Optional[str]], "listustr": List[Union[int, str]], "dictoptstr": Dict[str, Optional[str]],
                "tupoptstr": Tuple[Optional[str], int], "optlistoptstr": Optional[List[Optional[str]]],
                "listlistustr": List[List[Union[int, str]]]}[h]

    return {"int": int, "bool": bool, "str": str, "optint": Optional[int], "listint": List[int], "dictint": Dict[str, int],
            "lit": Literal[tuple(LIT_MEMBERS)], "enum": Color, "posint": PositiveInt, "liststr": List[str], "any": Any,
            "litint": Literal[1, 2], "tupint": Tuple[int, int], "tupvar": Tuple[int, ...],
            "float": float, "ufloat": Union[float, str], "listfloat": List[float], "dictstr": Dict[str, str],
            "choice": Union[str, List[str]]}[h]


DEFAULTS = {"int": [0, 7], "bool": [False, True], "str": ["x", "dflt"], "optint": [None, 3], "listint": [[], [9]], "dictint": [{}, {"z": 0}],
            "lit": ["a"], "enum": ["red"], "posint": [1, 4], "liststr": [[], ["d"]], "any": [None, 0], "litint": [1],
            "tupint": [[0, 0], [3, -4]], "tupvar": [[], [8]],      # given to add_argument as tuples (normal form)
            "float": [0.5, 2.0], "ufloat": [1.5], "listfloat": [[], [0.25]], "yesno": [False, True],
            "dictstr": [{}, {}], "choice": ["fast", "slow"],
            "listoptstr": [[], ["d", None]], "listustr": [[], [3, "d"]], "dictoptstr": [{}, {}], "tupoptstr": [[None, 0], ["d", 2]],
            "optlistoptstr": [None, []], "listlistustr": [[], [[1, "d"]]], "tdict": [{"a": None, "n": 0}, {"a": "d", "n": 2}]}


def gen_default(rng, h):
    return rng.choice(DEFAULTS[h])


def gen_value(rng, h):
    if h == "int":
        return rng.choice(INT_POOL) if rng.random() < 0.8 else rng.randint(-10**6, 10**6)
    if h == "posint":
        return rng.choice([1, 2, 5, 10**12, 77])
    if h == "bool":
        return rng.random() < 0.5
    if h == "str":
        return rng.choice(BLANKS) if rng.random() < 0.15 else rng.choice(LOOKALIKE)
    if h in STR_UNION_CONTAINERS:
        return gen_str_union_value(rng, h)
    if h == "optint":
        return None if rng.random() < 0.4 else rng.choice(INT_POOL)
    if h == "listint":
        return [rng.choice(INT_POOL) for _ in range(rng.choice([0, 1, 1, 2, 3]))]
    if h == "liststr":
        return [rng.choice(LOOKALIKE) for _ in range(rng.choice([0, 1, 2, 3]))]
    if h == "dictint":
        ks = rng.sample(DICT_KEYS, rng.choice([0, 1, 2, 3]))
        return {k: rng.choice(INT_POOL) for k in ks}
    if h == "lit":
        return rng.choice(LIT_MEMBERS)
    if h == "enum":
        return rng.choice(["red", "blue", "green"])
    if h == "litint":
        return rng.choice([1, 2])
    if h == "any":
        return rng.choice([None, True, False, 0, -3, 12, [1, 2], [], [True, None], {"a": 1}, {}])
    if h in ("float", "ufloat"):
        return {"$f": rng.choice(FLOAT_SPELLINGS)}
    if h == "listfloat":
        return [{"$f": rng.choice(FLOAT_SPELLINGS)} for _ in range(rng.choice([0, 1, 2, 3]))]
    if h == "yesno":
        return {"$b": rng.choice(YES_WORDS + NO_WORDS), "neg": rng.random() < 0.3}
    if h == "dictstr":
        return {k: rng.choice(EQ_STRINGS) for k in rng.sample(ITEM_NAMES, rng.choice([0, 1, 1, 2, 3]))}
    if h == "choice":
        return rng.choice(CHOICES)
    if h == "tupint":
        return [rng.choice(INT_POOL), rng.choice(INT_POOL)]
    if h == "tupvar":
        return [rng.choice(INT_POOL) for _ in range(rng.choice([0, 1, 2, 3]))]
    raise MachineryError("hint " + h)


WORDS = ["a", "b c", "x-1", "plain", "two words", "", " ", "a: b", "#x", "[1]", "~"]        # strings no other member of the item Unions reads


def gen_str_union_value(rng, h):
    def optstr():
        return None if rng.random() < 0.3 else rng.choice(WORDS)

    def ustr():
        return rng.choice(INT_POOL) if rng.random() < 0.4 else rng.choice(WORDS)
    n = rng.choice([0, 1, 2, 3])
    if h == "listoptstr":
        return [optstr() for _ in range(n)]
    if h == "listustr":
        return [ustr() for _ in range(n)]
    if h == "dictoptstr":
        return {k: optstr() for k in rng.sample(ITEM_NAMES, n)}
    if h == "tupoptstr":
        return [optstr(), rng.choice(INT_POOL)]
    if h == "optlistoptstr":
        return None if rng.random() < 0.2 else [optstr() for _ in range(n)]
    if h == "listlistustr":
        return [[ustr() for _ in range(rng.choice([0, 1, 2]))] for _ in range(n)]
    if h == "tdict":
        return {"a": optstr(), "n": rng.choice(INT_POOL)}
    raise MachineryError("hint " + h)


# values that every channel must reject at a position of the hint (text unambiguous, no None: see F_NULL)
WRONG = {
    "int": ["abc", True, [1], "1x", {"a": 1}, "", " "],
    "posint": [0, -3, "abc", True, [1], ""],
    "bool": [5, "abc", [True], 0, "", " "],
    "optint": ["abc", True, [1], ""],
    "listint": [[1, "a"], 5, {"a": 1}, "abc", [True], [None], "", [""]],
    "liststr": [[1], ["a", None], "abc", 5, {"a": 1}],
    "dictint": [{"a": "x"}, [1], 5, "abc", {"a": True}, {"a": None}],
    "lit": ["zzz", "A", "x"],
    "enum": ["purple", "RED", "1"],
    "litint": [3, 0, "abc", [1], False],
    "float": ["abc", True, [1], "1e", "e5", "", " "],
    "listfloat": [["a"], 5, "abc", [True], "", [""]],
    "yesno": ["abc", "maybe", 5, "1", [True]],
    # a single-choice option: a LIST is never a choice, also when it is made of allowed words only
    "choice": [["fast", "slow"], ["fast"], ["fast", "zzz"], "zzz", 5, ["1", "1"], []],
    "dictstr": [{"a": 1}, [1], "abc", {"a": None}, {"a": ["x"]}],
    "tupint": [[1], [1, 2, 3], [1, "a"], "abc", 5, [True, 1]],
    "tupvar": [[1, "a"], "abc", 5, {"a": 1}, [None], ""],
    # an item that is not a string and fits no other member of the item Union: never accepted, whatever text the whole option had
    "listoptstr": [["a", 2.5], [True], [["x"]], [{"a": 1}], [1], ["a", None, 0.5], 5, "abc", {"a": "x"}, ""],
    "listustr": [[2.5], [1, True], [None], [[1]], ["a", 1.5, 2], 5, "abc", ""],
    "dictoptstr": [{"a": 2.5}, {"a": "x", "b": True}, {"a": [1]}, {"a": 1}, [1], 5, "abc", ""],
    "tupoptstr": [[2.5, 1], [True, 1], ["a", "b"], ["a"], [[1], 1], [None, None], 5, "abc"],
    "optlistoptstr": [[2.5], ["a", True], [[None]], 5, {"a": 1}, "abc"],
    "listlistustr": [[[2.5]], [[1], [None]], [["a", True]], [1], [[1, [2]]], 5, "abc"],
    # (a field that no member accepts was given the text of the whole option before repair F62, /repo 6fc0048)
    "tdict": [{"a": "x"}, {"a": "x", "n": "y"}, {"a": "x", "n": 1, "z": 1}, {"n": 1.5, "a": None}, [1], 5, "abc",
              {"a": 2.5, "n": 1}, {"a": True, "n": 0}, {"a": [1], "n": 3}],
}


NARGS_ELEM = ["int", "str", "bool", "enum", "posint"]
SUB_NAMES = ["fit", "test", "run"]
SUB_KEYS = ["epochs", "opt.lr", "ckpt", "w", "opt.name", "n_1"]


def nargs_default(rng, h, nargs):
    d = gen_default(rng, h)
    return {1: [d], 2: [d, d], "+": [d], "*": []}[nargs]


def gen_spec(rng):
    n = rng.randint(2, 5)
    use_group = rng.random() < 0.6
    with_sub = rng.random() < 0.15
    keys, folded = [], set()
    tries = 0
    while len(keys) < n and tries < 100:
        tries += 1
        name = rng.choice(NAMES)
        r = rng.random()
        if r < 0.45:
            key = name
        elif r < 0.85:
            key = rng.choice(GROUP_PATHS[:3]) + "." + name
        else:
            key = rng.choice(GROUP_PATHS) + "." + name
        if key.upper() in folded:
            continue
        folded.add(key.upper())
        keys.append(key)
    args = []
    for key in keys:
        if rng.random() < 0.1:
            h = rng.choice(NARGS_ELEM)
            nargs = rng.choice([1, 1, 2] if with_sub else [1, 1, 2, "+", "*"])
            args.append({"key": key, "hint": h, "nargs": nargs, "default": nargs_default(rng, h, nargs)})
        else:
            h = rng.choice(HINTS)
            a = {"key": key, "hint": h, "default": gen_default(rng, h)}
            if h == "yesno":
                a["yn"] = rng.choice([None, "?", 1])      # ActionYesNo nargs: bare flags only / optional word / word required
            if h == "choice":
                a["typed"] = rng.random() < 0.4           # choices= on an untyped option, or with type=Union[str, List[str]]
            args.append(a)
    prefix = rng.choice(["APP", "APP", "my-app", "C05x", "a.b", True, "X_", "app2"])
    spec = {"prefix": prefix, "prog": "c05prog", "group": "g" if use_group else None, "args": args}
    if not with_sub and rng.random() < 0.12:
        n_ap = rng.randint(2, 3)
        ap_args = []
        for k in rng.sample(["x", "y", "lr", "opt.z", "name"], n_ap):
            h = rng.choice(["int", "int", "bool", "optint", "listint", "enum", "posint"])
            ap_args.append({"key": k, "hint": h, "default": gen_default(rng, h)})
        spec["ap"] = {"key": rng.choice(["inner", "job"]), "args": ap_args}      # a parser inside the parser (ActionParser)
    if with_sub:
        choices = {}
        for name in rng.sample(SUB_NAMES, 2):
            sargs = []
            for k in rng.sample(SUB_KEYS, rng.randint(1, 3)):
                h = rng.choice(["int", "bool", "str", "optint", "listint", "enum", "lit", "posint"])
                sargs.append({"key": k, "hint": h, "default": gen_default(rng, h)})
            choices[name] = sargs
        spec["sub"] = {"dest": rng.choice(["subcommand", "cmd"]), "choices": choices}
    return spec


def option_strings(spec):
    """the option strings of the top-level parser, written from the spec (argparse accepts a unique prefix as an abbreviation)"""
    out = ["--help", "--cfg", "--print_config"]
    for a in all_args(spec):
        out.append("--" + a["key"])
        if a["hint"] == "yesno":
            out.append("--no_" + a["key"])
    if spec.get("ap"):
        out.append("--" + spec["ap"]["key"])
    return out


def truncated_keys(spec):
    """undefined keys that are character-wise prefixes of existing dests without ending at a dot boundary (mod for model.x,
    trainer.opt for trainer.optimizer.lr) and that at least two options start with (so that argv cannot take them for an abbreviation)"""
    dests = [a["key"] for a in all_args(spec)]
    opts = option_strings(spec)
    out = set()
    for d in dests:
        for n in range(1, len(d)):
            p = d[:n]
            if p.endswith(".") or p in dests or any(x.startswith(p + ".") for x in dests):
                continue
            if sum(1 for o in opts if o.startswith("--" + p)) >= 2:
                out.add(p)
    return sorted(out)


def gen_arg_value(rng, a):
    if a.get("nargs") is None:
        return gen_value(rng, a["hint"])
    n = {1: 1, 2: 2, "+": rng.choice([1, 1, 2, 3]), "*": rng.choice([0, 1, 2, 3])}[a["nargs"]]
    return [gen_value(rng, a["hint"]) for _ in range(n)]


def gen_case(rng):
    spec = gen_spec(rng)
    args = spec["args"]
    k = rng.randint(1, len(args)) if rng.random() < 0.95 else 0
    chosen = rng.sample(args, k)
    if spec.get("sub"):
        name = rng.choice(sorted(spec["sub"]["choices"]))
        sargs = [dict(a, key=name + "." + a["key"]) for a in spec["sub"]["choices"][name]]
        chosen = chosen + rng.sample(sargs, rng.randint(0, len(sargs)))
    group_level = []
    if spec.get("ap"):
        leaves = [dict(a, key=spec["ap"]["key"] + "." + a["key"]) for a in spec["ap"]["args"]]
        picked = rng.sample(leaves, rng.randint(1, len(leaves)))
        chosen = chosen + picked
        if rng.random() < 0.8:
            # some leaves arrive through the group-level spelling (--inner='{...}', APP_INNER='{...}'), the others leaf by leaf
            group_level = [a["key"] for a in rng.sample(picked, rng.randint(1, max(1, len(picked) - 1)))]
    settings = [[a["key"], gen_arg_value(rng, a)] for a in chosen]
    if spec.get("sub"):
        settings.insert(rng.randint(0, len(settings)), [spec["sub"]["dest"], name])
    kind = "valid"
    plain = [i for i, a in enumerate(chosen) if a.get("nargs") is None]      # the special kinds are about single-valued arguments
    r = rng.random()
    if r < 0.14 and chosen:
        cand = [i for i, a in enumerate(chosen) if a["hint"] in WRONG]
        if cand:
            i = rng.choice(cand)
            a = chosen[i]
            j = [n for n, sv in enumerate(settings) if sv[0] == a["key"]][0]
            if a.get("nargs") is None:
                settings[j][1] = rng.choice(WRONG[a["hint"]])
            else:
                bad = [w for w in WRONG[a["hint"]] if not isinstance(w, (list, dict))]
                settings[j][1] = list(settings[j][1][:-1]) + [rng.choice(bad)] if settings[j][1] else [rng.choice(bad)]
            kind = "wrong"
    elif r < 0.22 and not spec.get("sub"):
        used = {a["key"] for a in args}
        groups = sorted({a["key"].rsplit(".", 1)[0] for a in args if "." in a["key"]})
        key = rng.choice(["zz", "unknown_k"] + [g + ".zz" for g in groups])
        trunc = truncated_keys(spec)
        if trunc and rng.random() < 0.6:
            key = rng.choice(trunc)     # a truncated name: a character-wise prefix of existing dests that is not an inner node
        if key not in used:
            settings.insert(rng.randint(0, len(settings)), [key, rng.choice([1, "s", True])])
            kind = "unknown"
    elif r < 0.25 and plain and not spec.get("sub"):
        cand = [i for i in plain if chosen[i]["hint"] in ("int", "bool", "listint", "dictint", "posint", "liststr", "tupint", "tupvar")]
        if cand:
            i = rng.choice(cand)
            settings[i][1] = None
            kind = "null-nonopt"
    elif r < 0.29 and not spec.get("sub"):
        cand = [i for i in plain if chosen[i]["hint"] == "litint"]
        if cand:
            settings[rng.choice(cand)][1] = True
            kind = "litint-bool"
    elif r < 0.33 and not spec.get("sub"):
        cand = [a for a in args if a["hint"] == "dictint" and a.get("nargs") is None and a["default"] == {}]
        if cand:
            a = rng.choice(cand)
            settings = [sv for sv in settings if sv[0] != a["key"]]
            settings.append([a["key"] + "." + rng.choice(["a", "k_2"]), rng.choice([1, 5, -2])])
            kind = "dict-item"
    case = {"spec": spec, "settings": settings, "kind": kind}
    if group_level and kind == "valid":
        case["group_level"] = group_level
    items = []
    for k, v in settings:
        a = arg_of(spec, k)
        if (kind == "valid" and a is not None and a["hint"] in ("dictstr", "dictint") and a.get("nargs") is None and a["default"] == {} and isinstance(v, dict) and v
                and all(re.match(r"^[A-Za-z_][A-Za-z0-9_]*$", ik) for ik in v) and rng.random() < 0.6):
            items.append(k)
    if items:
        case["argv_items"] = items      # on the command line these dict values are given item by item: --d.item=value
    return case


VALUE_POOL = {
    "int": INT_POOL, "posint": [1, 2, 5, 10**12, 77], "bool": [True, False], "str": LOOKALIKE, "optint": [None] + INT_POOL[:5],
    "listint": [[], [1], [-1, 2, 30], [10**20]], "liststr": [[], [""], ["1", "true", "null"], [" padded ", "a: b", "#x", "[1]"]],
    "dictint": [{}, {"a": 1}, {"a": 1, "b c": -2}, {"1": 1, "true": 2, "null": 3}], "lit": LIT_MEMBERS, "enum": ["red", "blue", "green"],
    "litint": [1, 2], "any": [None, True, False, 0, -3, 12, [1, 2], [], [True, None], {"a": 1}, {}],
    "tupint": [[0, 1], [-5, 10**20]], "tupvar": [[], [1], [3, 2, 1]],
    "float": [{"$f": t} for t in FLOAT_SPELLINGS], "ufloat": [{"$f": t} for t in FLOAT_SPELLINGS],
    "listfloat": [[], [{"$f": "1e5"}, {"$f": "0.5"}], [{"$f": "2E3"}]],
    "yesno": [{"$b": w, "neg": n} for w in YES_WORDS + NO_WORDS for n in (False, True)],
    "listoptstr": [[], [None], ["a", None, ""], [" ", "a: b", "[1]", "~"]], "listustr": [[], [1, "a"], ["", -5, "b c"]],
    "dictoptstr": [{}, {"a": None}, {"a": "x", "k_2": "", "B": None}], "tupoptstr": [[None, 0], ["a", -1], ["", 7]],
    "optlistoptstr": [None, [], [None, "a"]], "listlistustr": [[], [[]], [[1, "a"], [], ["b c"]]],
    "tdict": [{"a": None, "n": 1}, {"a": "x", "n": -5}, {"n": 3, "a": ""}],
}


def exhaustive_single():
    """every hint x every pool value (valid and wrong) x key depth 1-3, single-argument settings (thorough tier)"""
    out = []
    for h in sorted(VALUE_POOL):
        for key in ("k", "g.k", "g.s.k"):
            for yn in ((None, "?", 1) if h == "yesno" else (None,)):
                arg = {"key": key, "hint": h, "default": DEFAULTS[h][0]}
                if h == "yesno":
                    arg["yn"] = yn
                spec = {"prefix": "APP", "prog": "c05prog", "group": "g" if key != "k" else None,
                        "args": [arg, {"key": "other", "hint": "int", "default": 0}]}
                for v in VALUE_POOL[h]:
                    out.append({"spec": spec, "settings": [[key, v]], "kind": "valid"})
                for v in WRONG.get(h, []):
                    out.append({"spec": spec, "settings": [[key, v]], "kind": "wrong"})
    return out


# ---------------------------------------------------------------- the real side
_TMP = None


def tmpdir():
    global _TMP
    if _TMP is None:
        _TMP = tempfile.mkdtemp(prefix="c05-")
        atexit.register(shutil.rmtree, _TMP, ignore_errors=True)
    return _TMP


def add_args(parser, args, group=None):
    grp = parser.add_argument_group("Group " + group) if group else None
    for a in args:
        d = a["default"]
        if a.get("nargs") is not None:
            d = [Color[x] for x in d] if a["hint"] == "enum" else list(d)
        elif a["hint"] == "enum":
            d = Color[d]
        elif a["hint"] in ("tupint", "tupvar", "tupoptstr"):
            d = tuple(d)
        elif isinstance(d, (list, dict)):
            d = json.loads(json.dumps(d))
        target = grp if grp is not None and a["key"].split(".")[0] == group else parser
        if a["hint"] == "yesno":
            from jsonargparse import ActionYesNo

            kw = {} if a.get("yn") is None else {"nargs": a["yn"]}
            target.add_argument("--" + a["key"], action=ActionYesNo, default=d, **kw)
        elif a["hint"] == "choice":
            kw = {"type": hint_type("choice")} if a.get("typed") else {}
            target.add_argument("--" + a["key"], choices=list(CHOICES), default=d, **kw)
        elif a.get("nargs") is not None:
            target.add_argument("--" + a["key"], type=hint_type(a["hint"]), nargs=a["nargs"], default=d)
        else:
            target.add_argument("--" + a["key"], type=hint_type(a["hint"]), default=d)


def build(spec, mode="yaml"):
    from jsonargparse import ArgumentParser

    p = ArgumentParser(prog=spec["prog"], exit_on_error=False, default_env=True, env_prefix=spec["prefix"], parser_mode=mode)
    p.add_argument("--cfg", action="config")
    add_args(p, spec["args"], spec.get("group"))
    if spec.get("ap"):
        from jsonargparse import ActionParser

        ip = ArgumentParser(exit_on_error=False, parser_mode=mode)
        add_args(ip, spec["ap"]["args"])
        p.add_argument("--" + spec["ap"]["key"], action=ActionParser(parser=ip))
    sub = spec.get("sub")
    if sub:
        sc = p.add_subcommands(dest=sub["dest"], required=True)
        for name, sargs in sub["choices"].items():
            sp = ArgumentParser(exit_on_error=False, parser_mode=mode)
            add_args(sp, sargs)
            sc.add_subcommand(name, sp)
    return p


def all_args(spec):
    """every argument with its full key (sub-command arguments prefixed by the sub-command name)"""
    out = list(spec["args"])
    if spec.get("ap"):
        out.extend(dict(a, key=spec["ap"]["key"] + "." + a["key"]) for a in spec["ap"]["args"])
    for name, sargs in (spec.get("sub") or {}).get("choices", {}).items():
        out.extend(dict(a, key=name + "." + a["key"]) for a in sargs)
    return out


def arg_of(spec, key):
    for a in all_args(spec):
        if a["key"] == key:
            return a
    return None


def is_f(v):
    return isinstance(v, dict) and "$f" in v


def is_b(v):
    return isinstance(v, dict) and "$b" in v


def truth(v):
    return v["$b"].lower() in ("true", "yes")


def opposite_word(w):
    """the word of the opposite truth value in the same capitalisation style (for the negated option --no_k=word)"""
    o = {"true": "false", "false": "true", "yes": "no", "no": "yes"}[w.lower()]
    if w.isupper():
        return o.upper()
    if w[0].isupper() and w[1:].islower():
        return o.capitalize()
    if w.islower():
        return o
    return "".join(c.upper() if i % 2 else c for i, c in enumerate(o))


def jdumps(v, words=False):
    """json.dumps, with float settings written in their spelling and yes/no settings as JSON booleans (words=True: as the word, a string)"""
    if is_f(v):
        return v["$f"]
    if is_b(v):
        return json.dumps(v["$b"]) if words else ("true" if truth(v) else "false")
    if isinstance(v, dict):
        return "{" + ", ".join(json.dumps(k) + ": " + jdumps(x, words) for k, x in v.items()) + "}"
    if isinstance(v, list):
        return "[" + ", ".join(jdumps(x, words) for x in v) + "]"
    return json.dumps(v)


def text_of(v):
    """the text of an option / environment variable: strings as they are, everything else as canonical JSON"""
    if isinstance(v, str):
        return v
    if is_b(v):
        return v["$b"]
    return jdumps(v)


def has_yesno(case):
    return any(is_b(v) for _, v in case["settings"])


def nested_of(settings):
    """the nested mapping a user would write: keys inserted one after the other"""
    d = {}
    for key, v in settings:
        cur = d
        segs = key.split(".")
        for s in segs[:-1]:
            nxt = cur.get(s)
            if not isinstance(nxt, dict):
                nxt = {}
                cur[s] = nxt
            cur = nxt
        cur[segs[-1]] = v
    return d


def dotted_of(settings):
    return {key: v for key, v in settings}


def env_name(prefix, prog, key):
    """the documented rule (README: PREFIX_LEVEL__OPT upper case), written independently of get_env_var"""
    if prefix is True:
        prefix = os.path.splitext(prog)[0]
    name = key.replace(".", "__")
    if isinstance(prefix, str):
        name = prefix.replace("-", "_").replace(".", "__") + "_" + name
    return name.upper()


def split_group_level(case):
    """(mapping for the group-level spelling or None, the other settings)"""
    gl = case.get("group_level") or []
    ap = case["spec"].get("ap")
    if not gl or not ap:
        return None, case["settings"]
    pre = ap["key"] + "."
    inner = [[k[len(pre):], v] for k, v in case["settings"] if k in gl]
    rest = [[k, v] for k, v in case["settings"] if k not in gl]
    return nested_of(inner), rest


def env_of(spec, settings, bare=False, case=None):
    out = {}
    if case is not None:
        mapping, settings = split_group_level(case)
        if mapping is not None:
            out[env_name(spec["prefix"], spec["prog"], spec["ap"]["key"])] = jdumps(mapping)
    for key, v in settings:
        a = arg_of(spec, key)
        if a is not None and a.get("nargs") is not None and isinstance(v, list):
            # a list-valued option: the JSON list, or (bare) the single item as it is
            out[env_name(spec["prefix"], spec["prog"], key)] = text_of(v[0]) if bare and len(v) == 1 else jdumps(v)
        else:
            out[env_name(spec["prefix"], spec["prog"], key)] = text_of(v)
    return out


def argv_of(case, eq):
    """global options, then the sub-command name, then its options (spelled without the sub-command prefix)"""
    spec, sub = case["spec"], case["spec"].get("sub")
    top, below, chosen = [], [], None
    mapping, settings = split_group_level(case)
    if mapping is not None:
        top.extend(["--%s=%s" % (spec["ap"]["key"], jdumps(mapping))] if eq else ["--" + spec["ap"]["key"], jdumps(mapping)])
    for k, v in settings:
        if sub and k == sub["dest"]:
            chosen = v
            continue
        rel, target = k, top
        if sub and k.split(".")[0] in sub["choices"]:
            rel, target = k.split(".", 1)[1], below
        a = arg_of(spec, k)
        if a is not None and a["hint"] == "yesno" and is_b(v):
            neg = "--no_" + rel
            if a.get("yn") is None:                 # bare flags only
                target.append("--" + rel if truth(v) else neg)
            else:
                opt, word = (neg, opposite_word(v["$b"])) if v.get("neg") else ("--" + rel, v["$b"])
                target.extend([opt + "=" + word] if eq else [opt, word])
        elif a is not None and k in case.get("argv_items", ()) and isinstance(v, dict) and v and not is_f(v) and not is_b(v):
            # the items of a dict-typed option spelled with dots: --d.item=value / --d.item value (the default of d is {})
            for ik, iv in v.items():
                target.extend(["--%s.%s=%s" % (rel, ik, text_of(iv))] if eq else ["--%s.%s" % (rel, ik), text_of(iv)])
        elif a is not None and a.get("nargs") is not None and isinstance(v, list):
            vals = [text_of(e) for e in v]
            # argparse accepts '--k=v' only for exactly one value; several values follow the option as separate arguments
            target.extend(["--%s=%s" % (rel, vals[0])] if eq and len(vals) == 1 else (["--" + rel] + vals))
        elif eq:
            target.append("--%s=%s" % (rel, text_of(v)))
        else:
            target.extend(["--" + rel, text_of(v)])
    return top + ([chosen] if chosen is not None else []) + below


def canon(x, drop=("cfg", "__path__")):
    from jsonargparse import Namespace

    if isinstance(x, Namespace):
        return ["N", [[k.lstrip("​"), canon(v)] for k, v in vars(x).items() if k.lstrip("​") not in drop]]
    if isinstance(x, dict):
        return ["D", [[k, canon(v)] for k, v in x.items()]]
    if isinstance(x, list):
        return ["L", [canon(v) for v in x]]
    if isinstance(x, tuple):
        return ["T", [canon(v) for v in x]]
    if isinstance(x, enum.Enum):
        return ["E", x.name]
    if x is None:
        return ["0"]
    if isinstance(x, bool):
        return ["b", x]
    if isinstance(x, int):
        return ["i", str(x)]
    if isinstance(x, float):
        return ["f", repr(x)]
    if isinstance(x, str):
        return ["s", x]
    return ["o", type(x).__name__, repr(x)]


def sort_canon(c):
    """order-insensitive form (namespaces and dicts compare as unordered maps)"""
    if c[0] in ("N", "D"):
        return [c[0], sorted([[k, sort_canon(v)] for k, v in c[1]], key=lambda kv: kv[0])]
    if c[0] in ("L", "T"):
        return [c[0], [sort_canon(v) for v in c[1]]]
    return c


def outcome(fn):
    from jsonargparse import ArgumentError

    try:
        r = fn()
        return {"ok": canon(r)}
    except ArgumentError as ex:
        return {"rej": "ArgumentError", "msg": str(ex)[:160]}
    except (Exception, SystemExit) as ex:  # noqa: BLE001 - rejection by another exception class is C03's subject; here it is a rejection
        return {"rej": type(ex).__name__, "msg": str(ex)[:160]}


CHANNELS = ["argv_eq", "argv_sp", "cfg_str_nested", "cfg_str_dotted", "cfg_file", "parse_string", "parse_path", "obj_nested", "obj_dotted",
            "env", "mode_json", "mode_jsonnet", "mode_omegaconf",
            # two more spellings of the environment channel: the `env` mapping of parse_env, and a list-valued option given one bare item
            "parse_env", "env_bare",
            # yes/no options: the documented words (true/yes/false/no, any capitalisation) as a string value in a document / an object
            "doc_word", "obj_word"]
MODEL_CHANNEL = {"argv_eq": "argv", "argv_sp": "argv", "cfg_str_nested": "cfgNested", "cfg_str_dotted": "cfgDotted", "cfg_file": "cfgNested",
                 "parse_string": "cfgNested", "parse_path": "cfgNested", "obj_nested": "objNested", "obj_dotted": "objDotted", "env": "env",
                 "mode_json": "cfgNested", "mode_jsonnet": "cfgNested", "mode_omegaconf": "cfgNested", "parse_env": "env", "env_bare": "env"}     # doc_word / obj_word (a word as a string in a document) are oracle only
_MODES = None
_NEG_NUM = re.compile(r"^-\d+\Z|^-\d*\.\d+\Z")


def available_modes():
    global _MODES
    if _MODES is None:
        _MODES = {"json": True}
        try:
            import _jsonnet  # noqa: F401

            _MODES["jsonnet"] = True
        except ImportError:
            _MODES["jsonnet"] = False
        try:
            import omegaconf  # noqa: F401

            _MODES["omegaconf"] = True
        except ImportError:
            _MODES["omegaconf"] = False
    return _MODES


def all_ints(v):
    if isinstance(v, bool):
        return []
    if isinstance(v, int):
        return [v]
    if isinstance(v, list):
        return [i for x in v for i in all_ints(x)]
    if isinstance(v, dict):
        return [i for x in v.values() for i in all_ints(x)]
    return []


def all_strs(v):
    if isinstance(v, str):
        return [v]
    if isinstance(v, list):
        return [s for x in v for s in all_strs(x)]
    if isinstance(v, dict):
        return [s for k, x in v.items() for s in [k] + all_strs(x)]
    return []


def looks_like_list(t):
    """does the text read as a list (judged with PyYAML itself, not with the code under test)"""
    import yaml

    try:
        return isinstance(yaml.safe_load(t), list)
    except Exception:  # noqa: BLE001
        return t.strip().startswith(("[", "-"))


def skip_reason(ch, case):
    """channels that cannot carry the case for reasons outside the property"""
    settings = case["settings"]
    if ch == "argv_sp":
        for _, v in settings:
            t = text_of(v)
            if t.startswith("-") and not _NEG_NUM.match(t):
                return "argparse tokenisation of a value starting with '-'"
    if ch == "argv_sp":
        for k, v in settings:
            if k in case.get("argv_items", ()) and isinstance(v, dict):
                if any(text_of(iv).startswith("-") and not _NEG_NUM.match(text_of(iv)) for iv in v.values()):
                    return "argparse tokenisation of a value starting with '-'"
    if ch in ("argv_sp", "argv_eq"):
        for k, v in settings:
            a = arg_of(case["spec"], k)
            if a is not None and a.get("nargs") is not None and isinstance(v, list):
                if any(text_of(e).startswith("-") and not _NEG_NUM.match(text_of(e)) for e in v):
                    return "argparse tokenisation of a value starting with '-'"
            elif a is not None and a.get("nargs") is not None:
                return "a list-valued option cannot be given a non-list on the command line"
    if ch in ("doc_word", "obj_word") and not has_yesno(case):
        return "only for yes/no options"
    if ch == "env_bare":
        ok = False
        for k, v in settings:
            a = arg_of(case["spec"], k)
            if a is not None and a.get("nargs") is not None:
                if not (isinstance(v, list) and len(v) == 1):
                    return "only for list-valued options given exactly one item"
                if looks_like_list(text_of(v[0])):
                    return "the bare item's text is itself the text of a list (ambiguous)"
                ok = True
        if not ok:
            return "only for list-valued options given exactly one item"
    if ch in ("env", "parse_env", "env_bare"):
        if case["kind"] in ("unknown", "dict-item"):
            return "an environment variable that names no argument is not a setting"
        for _, v in settings:
            if "\x00" in text_of(v):
                return "NUL in environment"
    if ch.startswith("mode_"):
        m = ch[5:]
        if not available_modes().get(m):
            return "package for parser_mode=%s not importable" % m
        if m == "jsonnet" and case.get("_sample_out_jsonnet"):
            return "sampled out in the quick tier (one jsonnet evaluation costs 25 ms): every third case"
        if m == "jsonnet" and any(abs(i) > 2**53 for _, v in settings for i in all_ints(v)):
            return "jsonnet numbers are doubles (evaluator is an oracle)"
        if m == "omegaconf" and any("${" in s for _, v in settings for s in all_strs(v)):
            return "omegaconf interpolation (evaluator is an oracle)"
    return None


_FILE_N = [0]


def run_channels(case, only=None):
    """{channel: outcome | {'skip': reason}}; every channel on a fresh parser; results snapshotted immediately"""
    spec, settings = case["spec"], case["settings"]
    nested = nested_of(settings)
    dotted = dotted_of(settings)
    doc = jdumps(nested)
    out = {}
    path = None
    for ch in CHANNELS:
        if only and ch not in only:
            continue
        why = skip_reason(ch, case)
        if why:
            out[ch] = {"skip": why}
            continue
        if ch in ("cfg_file", "parse_path") and path is None:
            _FILE_N[0] += 1
            path = os.path.join(tmpdir(), "cfg%d.json" % (_FILE_N[0] % 50))
            with open(path, "w") as f:
                f.write(doc)
        if ch == "argv_eq":
            argv = argv_of(case, True)
            out[ch] = outcome(lambda: build(spec).parse_args(argv))
        elif ch == "argv_sp":
            argv = argv_of(case, False)
            out[ch] = outcome(lambda: build(spec).parse_args(argv))
        elif ch == "cfg_str_nested":
            out[ch] = outcome(lambda: build(spec).parse_args(["--cfg=" + doc]))
        elif ch == "cfg_str_dotted":
            out[ch] = outcome(lambda: build(spec).parse_args(["--cfg", jdumps(dotted)]))
        elif ch == "cfg_file":
            out[ch] = outcome(lambda: build(spec).parse_args(["--cfg", path]))
        elif ch == "parse_string":
            out[ch] = outcome(lambda: build(spec).parse_string(doc))
        elif ch == "parse_path":
            out[ch] = outcome(lambda: build(spec).parse_path(path))
        elif ch == "obj_nested":
            out[ch] = outcome(lambda: build(spec).parse_object(json.loads(doc)))
        elif ch == "obj_dotted":
            out[ch] = outcome(lambda: build(spec).parse_object(json.loads(jdumps(dotted))))
        elif ch == "env":
            with mock.patch.dict(os.environ, env_of(spec, settings, case=case)):
                out[ch] = outcome(lambda: build(spec).parse_args([]))
        elif ch == "parse_env":
            out[ch] = outcome(lambda: build(spec).parse_env(env_of(spec, settings, case=case)))
        elif ch == "env_bare":
            with mock.patch.dict(os.environ, env_of(spec, settings, bare=True, case=case)):
                out[ch] = outcome(lambda: build(spec).parse_args([]))
        elif ch == "doc_word":
            out[ch] = outcome(lambda: build(spec).parse_string(jdumps(nested, words=True)))
        elif ch == "obj_word":
            out[ch] = outcome(lambda: build(spec).parse_object(json.loads(jdumps(nested, words=True))))
        else:
            out[ch] = outcome(lambda: build(spec, ch[5:]).parse_string(doc))
    return out


def classes(outs):
    """partition of the channels by outcome (order-insensitive, type-aware); rejections form one class"""
    groups = {}
    for ch, o in outs.items():
        if "skip" in o:
            continue
        key = "REJECT" if "rej" in o else json.dumps(sort_canon(o["ok"]), sort_keys=True, ensure_ascii=True)
        groups.setdefault(key, []).append(ch)
    return groups


def value_at(c, key):
    """canonical value stored at dotted `key` in a canonical namespace"""
    cur = c
    for s in key.split("."):
        if cur[0] != "N":
            return None
        nxt = [v for k, v in cur[1] if k == s]
        if not nxt:
            return None
        cur = nxt[0]
    return cur


def hint_of(spec, key):
    a = arg_of(spec, key)
    return a["hint"] if a is not None else None


TEXT_CH = {"argv_eq", "argv_sp", "env", "parse_env", "env_bare"}
DOTTED_MAP_CH = {"cfg_str_dotted", "obj_dotted"}


_CLASH = None


def clash_names():
    global _CLASH
    if _CLASH is None:
        from jsonargparse import Namespace

        _CLASH = set(dir(Namespace))
    return _CLASH


def clash_args(case):
    """arguments with a segment that is a Namespace attribute name and a type that needs _check_value_key to convert or keep the value"""
    return [a for a in case["spec"]["args"] if a["hint"] in CLASH_HINTS and any(s in clash_names() for s in a["key"].split("."))]


def rename_clash(case):
    def ren(key):
        return ".".join(s + "q" if s in clash_names() else s for s in key.split("."))
    spec = dict(case["spec"], args=[dict(a, key=ren(a["key"])) for a in case["spec"]["args"]])
    return dict(case, spec=spec, settings=[[ren(k), v] for k, v in case["settings"]])


def known_signature(case, outs):
    """the id of the OPEN finding whose narrow signature the deviation matches, else None"""
    if clash_args(case):
        # causal signature: the deviation disappears (or reduces to another catalogued finding) when the clashing segments are renamed
        twin = rename_clash(case)
        outs2 = run_channels(twin)
        if deviation(twin, outs2) is None or known_signature(twin, outs2):
            return F_CLASH
        return None
    groups = classes(outs)
    if len(groups) != 2 or "REJECT" not in groups:
        return None
    rejecting = set(groups["REJECT"])
    accepting_key = [k for k in groups if k != "REJECT"][0]
    accepted = json.loads(accepting_key)
    spec, settings = case["spec"], case["settings"]
    ran = {ch for ch, o in outs.items() if "skip" not in o}
    # exactly one offending setting, everything else valid
    nulls = [(k, v) for k, v in settings if v is None and hint_of(spec, k) in ("int", "bool", "listint", "dictint", "posint", "liststr", "lit", "enum", "litint", "tupint", "tupvar")]
    if len(nulls) == 1 and rejecting == (TEXT_CH & ran):
        if value_at(accepted, nulls[0][0]) == ["0"]:
            return F_NULL
    lits = [(k, v) for k, v in settings if v is True and hint_of(spec, k) == "litint"]
    if len(lits) == 1 and rejecting == (TEXT_CH & ran):
        if value_at(accepted, lits[0][0]) == ["b", True]:
            return F_LIT
    items = [(k, v) for k, v in settings if hint_of(spec, k) is None and "." in k and hint_of(spec, k.rsplit(".", 1)[0]) == "dictint"]
    if len(items) == 1 and rejecting == (DOTTED_MAP_CH & ran):
        k, v = items[0]
        if value_at(accepted, k.rsplit(".", 1)[0]) == ["D", [[k.rsplit(".", 1)[1], canon(v)]]]:
            return F_DICT
    return None


def deviation(case, outs):
    """None if the property holds on this case, else a short description"""
    groups = classes(outs)
    if len(groups) > 1:
        parts = []
        for key, chs in sorted(groups.items(), key=lambda kv: -len(kv[1])):
            parts.append("%s: %s" % ("rejected" if key == "REJECT" else "accepted " + key[:100], ",".join(chs)))
        return "channels disagree — " + " | ".join(parts)
    if case["kind"] in ("wrong", "unknown") and groups and "REJECT" not in groups:
        return "invalid settings (%s) accepted by every channel" % case["kind"]
    return None


def abbrev_safe(case):
    """no undefined setting key is a prefix of exactly one option (argparse would take it for an abbreviation on the command line:
    baseline behaviour, outside the property) — kept invariant while shrinking"""
    opts = option_strings(case["spec"])
    for k, _ in case["settings"]:
        if arg_of(case["spec"], k) is None and k != (case["spec"].get("sub") or {}).get("dest"):
            if "." in k and arg_of(case["spec"], k.rsplit(".", 1)[0]) is not None:
                continue    # an item of a dict-typed argument
            if sum(1 for o in opts if o.startswith("--" + k)) == 1:
                return False
    return True


def shrink_case(case, still_bad):
    still_bad_0 = still_bad

    def still_bad(c):      # noqa: F811
        return abbrev_safe(c) and still_bad_0(c)
    cur = case
    changed = True
    while changed:
        changed = False
        dest = (cur["spec"].get("sub") or {}).get("dest")
        for i in range(len(cur["settings"])):
            if cur["settings"][i][0] == dest:
                continue    # the choice of the sub-command stays: without it the renderings are not the same settings
            cand = dict(cur, settings=cur["settings"][:i] + cur["settings"][i + 1:])
            if cand["settings"] and still_bad(cand):
                cur, changed = cand, True
                break
        if changed:
            continue
        used = {k for k, _ in cur["settings"]} | {k.rsplit(".", 1)[0] for k, _ in cur["settings"]}
        for i, a in enumerate(cur["spec"]["args"]):
            if a["key"] not in used and len(cur["spec"]["args"]) > 1:
                spec = dict(cur["spec"], args=cur["spec"]["args"][:i] + cur["spec"]["args"][i + 1:])
                cand = dict(cur, spec=spec)
                if still_bad(cand):
                    cur, changed = cand, True
                    break
    return cur


def judge(ctx: Ctx, case, origin):
    outs = run_channels(case)
    ran = [ch for ch, o in outs.items() if "skip" not in o]
    ctx.count(len(ran))
    for ch, o in outs.items():
        if "skip" in o:
            ctx.hist("skipped_channel", ch + ": " + o["skip"])
    dev = deviation(case, outs)
    if dev is None:
        return outs, False
    fid = known_signature(case, outs)
    if fid and ctx.is_open(fid):
        ctx.known(fid, "%s (e.g. settings %s)" % (dev[:200], json.dumps(case["settings"], ensure_ascii=True)[:120]))
        return outs, False

    disagree = dev.startswith("channels disagree")
    if sum(1 for v in ctx.violations if v.get("found_input")) >= 6:
        # enough concrete failing inputs have been minimised and recorded: count the rest (keeps a run against a broken tree short)
        ctx.extra["further_deviations_not_minimised"] = ctx.extra.get("further_deviations_not_minimised", 0) + 1
        return outs, True

    def still(c):
        # the shrunk case must fail in the same way: "invalid settings accepted by every channel" depends on the settings being the
        # invalid ones, so then only unused arguments are removed, never settings
        if not disagree and c["settings"] != case["settings"]:
            return False
        o = run_channels(c)
        d = deviation(c, o)
        return d is not None and d.startswith("channels disagree") == disagree and not known_signature(c, o)

    try:
        small = shrink_case(case, still)
    except Exception:  # noqa: BLE001
        small = case
    small = {k: v for k, v in small.items() if not k.startswith("_")}
    o2 = run_channels(small)
    ctx.violation("the same settings do not give the same configuration through every channel: %s" % (deviation(small, o2) or dev),
                  {"kind": "oracle", "origin": origin, "case": small,
                   "outcomes": {ch: (o.get("rej") and {"rejected": o["rej"], "msg": o.get("msg")}) or o for ch, o in o2.items()}})
    return outs, True


# ---------------------------------------------------------------- model side: wire formats
SAFE_RE = re.compile(r'^[ !#-\[\]-~]*\Z')     # printable ASCII without '"' and '\\'
TOKEN_RE = re.compile(r'^-?(0|[1-9][0-9]*)(\.[0-9]+)?([eE][+-]?[0-9]+)?\Z')


def is_token(t):
    """a JSON number token that is not an integer literal (the model's NumTok)"""
    return bool(TOKEN_RE.match(t)) and any(c in t for c in ".eE")


def in_grammar(v):
    """value of the model's grammar: int, bool, None, safe str, float token, flat list of those, dict str -> int, yes/no word"""
    def scalar(x):
        return x is None or isinstance(x, (bool, int)) or (isinstance(x, str) and bool(SAFE_RE.match(x))) or (is_f(x) and is_token(x["$f"]))
    if is_b(v):
        return True
    if is_f(v):
        return scalar(v)
    if isinstance(v, list):
        return all(scalar(x) for x in v)
    if isinstance(v, dict):
        return all(isinstance(k, str) and SAFE_RE.match(k) and isinstance(x, int) and not isinstance(x, bool) for k, x in v.items())
    return scalar(v)


def default_in_grammar(d):
    """defaults are Python values: a float is carried as the token repr() writes"""
    def ok(x):
        if isinstance(x, float):
            return is_token(repr(x))
        return in_grammar(x)
    if isinstance(d, list):
        return all(ok(x) and not isinstance(x, (list, dict)) for x in d)
    return ok(d)


def wire_val(v):
    if is_f(v):
        return {"f": v["$f"]}
    if is_b(v):
        return {"yn": {"word": v["$b"], "negWord": opposite_word(v["$b"]) if v.get("neg") else None}}
    if isinstance(v, list):
        return [wire_val(x) for x in v]
    if isinstance(v, dict):
        return {"d": [[k, x] for k, x in v.items()]}
    return v


def unwire_val(j):
    """model wire value -> the Python value it stands for"""
    if isinstance(j, dict) and "d" in j:
        return {k: x for k, x in j["d"]}
    if isinstance(j, dict) and "f" in j:
        return float(j["f"])
    if isinstance(j, dict) and "yn" in j:
        return j["yn"]["word"].lower() in ("true", "yes")
    if isinstance(j, list):
        return [unwire_val(x) for x in j]
    return j


def norm_floats(w):
    """floats compare by repr of the float the token denotes (never numerically, never by spelling)"""
    if isinstance(w, dict) and "f" in w:
        return {"f": repr(float(w["f"]))}
    if isinstance(w, dict) and "d" in w:
        return {"d": [[k, norm_floats(v)] for k, v in w["d"]]}
    if isinstance(w, dict) and "n" in w:
        return {"n": [[k, norm_floats(v)] for k, v in w["n"]]}
    if isinstance(w, list):
        return [norm_floats(v) for v in w]
    return w


def wire_kind(a):
    if a["hint"] == "yesno":
        return {"yesno": {None: "bare", "?": "opt", 1: "one"}[a.get("yn")]}
    if a.get("nargs") is not None:
        return {"nlist": [{1: "n1", 2: "n2", "+": "plus", "*": "star"}[a["nargs"]], a["hint"] in RAW_HINTS]}
    return "raw" if a["hint"] in RAW_HINTS else "json"


def wire_parser(spec):
    prefix = spec["prefix"]
    if prefix is True:
        prefix = os.path.splitext(spec["prog"])[0]
    return {"prefix": prefix if isinstance(prefix, str) else None,
            "decls": [{"key": a["key"].split("."), "kind": wire_kind(a)} for a in spec["args"] if a["key"] not in foreign_keys(spec)]}


def wire_ns_of_canon(c):
    """canonical real namespace -> model wire namespace (Enum members by name: the model has no Enum)"""
    t = c[0]
    if t == "N":
        return {"n": [[k, wire_ns_of_canon(v)] for k, v in c[1]]}
    if t == "D":
        return {"d": [[k, wire_ns_of_canon(v)] for k, v in c[1]]}
    if t in ("L", "T"):      # the model has no type adapter: a Tuple argument's value is the list of its items
        return [wire_ns_of_canon(v) for v in c[1]]
    if t == "0":
        return None
    if t == "i":
        return int(c[1])
    if t in ("b", "s"):
        return c[1]
    if t == "f":
        return {"f": c[1]}
    if t == "E":
        return c[1]
    raise ValueError(c)


def sort_dict_items(w):
    """dict VALUES compare as unordered maps (jsonnet emits object keys sorted); namespace order is kept"""
    if isinstance(w, dict) and "d" in w:
        return {"d": sorted(([k, sort_dict_items(v)] for k, v in w["d"]), key=lambda kv: kv[0])}
    if isinstance(w, dict) and "n" in w:
        return {"n": [[k, sort_dict_items(v)] for k, v in w["n"]]}
    if isinstance(w, list):
        return [sort_dict_items(v) for v in w]
    return w


def foreign_keys(spec):
    """arguments the Channels model cannot hold (a default outside the grammar): when no setting touches them they are left out
    of the model parser and their keys are removed from the real namespaces before the comparison"""
    return {a["key"] for a in spec["args"] if not default_in_grammar(a["default"])}


def outside_model(case):
    """what the Channels model does not have: sub-commands, or a setting for a foreign argument"""
    fk = foreign_keys(case["spec"])
    # (the item-by-item command line spelling of a dict value, --d.item=v, is not a rendering of the model either)
    return (bool(case["spec"].get("sub")) or bool(case["spec"].get("ap")) or bool(case.get("argv_items"))
            or any(k in fk for k, _ in case["settings"]))


def drop_keys(c, keys, pre=""):
    """canonical namespace without the leaves named in `keys`; namespaces that become empty are removed too"""
    if c[0] != "N":
        return c
    out = []
    for k, v in c[1]:
        full = pre + k
        if full in keys:
            continue
        if v[0] == "N":
            v2 = drop_keys(v, keys, full + ".")
            if not v2[1] and v[1]:
                continue
            v = v2
        out.append([k, v])
    return ["N", out]


def model_ok(case):
    """is the case inside the model's grammar (values; Enum by name), and valid or unknown-key?"""
    if case["kind"] not in ("valid", "unknown") or clash_args(case) or outside_model(case):
        return False
    for k, v in case["settings"]:
        a = arg_of(case["spec"], k)
        if not in_grammar(v):
            return False
        if is_b(v) != (a is not None and a["hint"] == "yesno"):
            return False
        if a is not None and a["hint"] in STR_UNION_CONTAINERS:
            return False     # the item Unions convert ('1' -> 1, 'null' -> None): the typed layer (correspond_typed), not the flat channel model
        if a is not None and a["hint"] in ("float", "ufloat", "listfloat"):
            # an integer literal at a float position ('3' -> 3.0) is the type adapter's conversion (C02), not a token of the model
            if not all(is_f(x) for x in (v if isinstance(v, list) else [v])):
                return False
    return True


def defaults_canon(spec):
    return canon(build(spec).get_defaults())


# ---------------------------------------------------------------- correspondence
def gen_key_for_env(rng):
    segs = []
    for _ in range(rng.choice([1, 1, 2, 2, 3])):
        r = rng.random()
        if r < 0.6:
            segs.append(rng.choice(NAMES + ["g", "h", "model"]))
        else:
            n = rng.randint(1, 5)
            segs.append("".join(rng.choice("ab_AB_z09_") for _ in range(n)))
    return segs


def correspond_envvar(ctx: Ctx, rng, n):
    from jsonargparse import ArgumentParser
    from jsonargparse._formatters import get_env_var

    keys = [["a", "b"], ["a__b"], ["a_", "b"], ["a", "_b"], ["Ab"], ["ab"], ["g", "s", "x"], ["_"], ["a_b"], ["x", "y_", "_z"]]
    keys += [gen_key_for_env(rng) for _ in range(n)]
    prefixes = ["APP", "my-app", None, "a.b", "X_", "", "app2", "c05prog"]
    lines, reals = [], []
    for segs in keys:
        pfx = rng.choice(prefixes)
        dest = ".".join(segs)
        try:
            p = ArgumentParser(prog="c05prog", exit_on_error=False, env_prefix=(pfx if pfx is not None else False))
            act = p.add_argument("--" + dest, type=int, default=0)
            real = get_env_var(p, act)
        except Exception as ex:  # noqa: BLE001
            ctx.hist("envvar_skipped", type(ex).__name__)
            continue
        lines.append({"op": "envvar", "prefix": pfx, "key": segs})
        reals.append((segs, pfx, dest, real))
    res = model_batch(ctx, lines)
    if res is None:
        return
    seen = {}
    for (segs, pfx, dest, real), m in zip(reals, res):
        ctx.count()
        if m.get("v") != real or m.get("dest") != dest:
            ctx.tie_break("correspondence envVar vs get_env_var disagrees", json.dumps({"key": segs, "prefix": pfx, "real": real, "model": m}, ensure_ascii=True))
            return
        # the documented rule used by the oracle's env channel is the same function
        if env_name(pfx if pfx is not None else False, "c05prog", dest) != real and "." not in (pfx or ""):
            ctx.tie_break("get_env_var no longer follows PREFIX_LEVEL__OPT", json.dumps({"key": segs, "prefix": pfx, "real": real}, ensure_ascii=True))
            return
        if m["safe"] and m["noUpper"]:
            if (m.get("back") or {}).get("some") != segs:
                ctx.tie_break("model: key not recoverable from the variable name under the theorem's hypothesis", json.dumps({"key": segs, "model": m}))
                return
            ctx.nontrivial("envrt:" + real)
        # dotted spelling addresses the same leaf as the segments
        from jsonargparse import Namespace

        if m["safe"]:
            ns = Namespace()
            ns[dest] = 1
            path, cur = [], ns
            while isinstance(cur, Namespace):
                (k, cur), = vars(cur).items()
                path.append(k.lstrip("​"))
            if path != m["segs"] or path != segs:
                ctx.tie_break("correspondence segsOf vs Namespace path of the dotted key disagrees", json.dumps({"dest": dest, "real": path, "model": m["segs"]}))
                return
        seen.setdefault((pfx, real), set()).add(tuple(segs))
    ctx.extra["envvar_collisions_seen"] = sum(1 for v in seen.values() if len(v) > 1)


BASIC_TEXTS = ["True", "yes", "False", "no", "Null", "NULL", "~", "0123", "00", "-0", "+1", " 1 ", "1 ", "\t2", "1e3", "1.5", ".5", "1.", "-1.5e-3",
               "1e", "e", "-", "--1", "-e", "1-2", "1.-2", "1.2.3", "1e2e3", "true ", " null", "TRUE", "on", "off", "0x10", "0o7", "1_000", "١٢", "²",
               "", " ", "nan", "inf", "-inf", ".inf", "1e-3", "-.5", "5-", "- 5", "12345678901234567890", "-007", "0", "-1", "0e0", "1E3", "١.٥"]


def canon_loaded(x):
    return json.dumps(sort_canon(canon(x)), sort_keys=True, ensure_ascii=True)


def correspond_text(ctx: Ctx, rng, n):
    from jsonargparse._common import parser_context
    from jsonargparse._loaders_dumpers import load_basic, load_value, not_loaded, yaml_load

    vals = [0, -1, 7, 10**20, -(2**63), True, False, None, "", "x", "a, b", "null", "1", "[1]", [], [1], [1, -2, 3], [True, None, "s", 4], ["a, b", "]"],
            {}, {"a": 1}, {"a": 1, "b c": -2}, {"1": 1, "true": 2}, ["{", "}"], {"a, b": 1, "}": 2, ": ": 3}]
    for _ in range(n):
        h = rng.choice(["int", "bool", "str", "optint", "listint", "liststr", "dictint", "any", "posint"])
        v = gen_value(rng, h)
        if in_grammar(v):
            vals.append(v)
    toks = [t for t in FLOAT_SPELLINGS if is_token(t)]
    vals += [{"$f": t} for t in toks] + [[{"$f": "1e5"}, 2, {"$f": "-2.25"}], [{"$f": "2E3"}]]
    vals += [[{"$f": rng.choice(toks)} for _ in range(rng.randint(1, 3))] for _ in range(10)]
    vals = [v for v in vals if in_grammar(v) and not is_b(v)]
    lines = [{"op": "text", "v": wire_val(v)} for v in vals]
    # near misses and look-alikes: the reader must either refuse them or agree with every loader
    texts = list(BASIC_TEXTS) + [jdumps(v) for v in vals[:40]] + toks + [
        "1.", ".5", "01.5", "1e", "1E+", "-.5e1", "1e5 ", " 2E3", "1e+5", "1E05", "0e0", "-0.0", "1.5e", "1.5.2", "1e5e2", "+1e5", "1_0e2", "0x1e5"]
    for v in vals[:60]:
        t = jdumps(v)
        texts += [" " + t, t + " ", t.replace(", ", ","), t.replace(": ", ":"), t.replace("1", "01", 1), t.upper(), t.replace('"', "'")]
    texts += LOOKALIKE
    texts = sorted(set(texts))
    lines += [{"op": "load", "t": t} for t in texts]
    lines += [{"op": "basic", "t": t} for t in texts]
    res = model_batch(ctx, lines)
    if res is None:
        return
    modes = ["yaml", "json"] + [m for m in ("jsonnet", "omegaconf") if available_modes().get(m)]
    from jsonargparse import ArgumentParser

    for m in modes:   # registers the optional loaders
        ArgumentParser(parser_mode=m)
    pos = 0
    for v in vals:
        m = res[pos]
        pos += 1
        ctx.count()
        want = jdumps(v)
        if m.get("t") != want or m.get("arg") != text_of(v):
            ctx.tie_break("correspondence textOf vs json.dumps disagrees", json.dumps({"v": v, "real": want, "model": m}, ensure_ascii=True))
            return
        back = m.get("back")
        if not m.get("safe") or back is None or canon_loaded(unwire_val(back["some"])) != canon_loaded(unwire_val(wire_val(v))):
            ctx.tie_break("model: loadText (textOf v) is not v", json.dumps({"v": v, "model": m}, ensure_ascii=True))
            return
        ctx.nontrivial("text:" + want)
    loaded_by_model = 0
    for t in texts:
        m = res[pos]
        pos += 1
        ctx.count()
        mv = m.get("v")
        if mv is None:
            continue
        loaded_by_model += 1
        want = canon_loaded(unwire_val(mv["some"]))
        got = {}
        try:
            got["json.loads"] = canon_loaded(json.loads(t))
        except Exception as ex:  # noqa: BLE001
            got["json.loads"] = "raises " + type(ex).__name__
        try:
            got["yaml_load"] = canon_loaded(yaml_load(t))
        except Exception as ex:  # noqa: BLE001
            got["yaml_load"] = "raises " + type(ex).__name__
        for mode in modes:
            if mode == "jsonnet" and any(abs(i) > 2**53 for i in all_ints(unwire_val(mv["some"]))):
                continue    # jsonnet numbers are doubles (evaluator is an oracle)
            if mode == "jsonnet" and '"f"' in json.dumps(mv["some"]):
                continue    # jsonnet re-prints numbers (1e5 -> 100000, an int for the yaml loader): evaluator is an oracle
            if mode == "omegaconf" and "${" in t:
                continue    # omegaconf interpolation (evaluator is an oracle)
            try:
                with parser_context(load_value_mode=mode):
                    got["load_value[%s]" % mode] = canon_loaded(load_value(t, simple_types=True))
            except Exception as ex:  # noqa: BLE001
                got["load_value[%s]" % mode] = "raises " + type(ex).__name__
        lb = load_basic(t)
        if lb is not not_loaded:
            got["load_basic"] = canon_loaded(lb)
        badl = {k: g for k, g in got.items() if g != want}
        if badl:
            ctx.tie_break("correspondence loadText vs the value loaders disagrees", json.dumps({"text": t, "model": mv, "loaders": badl}, ensure_ascii=True))
            return
    for t in texts:
        m = res[pos]
        pos += 1
        ctx.count()
        if not t.isascii():
            continue    # str.strip / str.isdigit on non-ASCII are outside the model
        lb = load_basic(t)
        if lb is not_loaded:
            real = "notLoaded"
        elif isinstance(lb, float):
            real = "float"
        else:
            real = canon_loaded(lb)
        mv = m.get("v")
        if isinstance(mv, dict) and "some" in mv:
            mv = canon_loaded(mv["some"])
        if mv != real:
            ctx.tie_break("correspondence loadBasic vs load_basic disagrees", json.dumps({"text": t, "real": real, "model": m}, ensure_ascii=True))
            return
    ctx.extra["texts_checked"] = len(texts)
    ctx.extra["texts_loaded_by_model"] = loaded_by_model


def correspond_yesno(ctx: Ctx, rng):
    """boolWord (model of ActionYesNo._boolean_type on words, table regenerated from the source) vs the real function"""
    from jsonargparse import ActionYesNo

    words = set(YES_WORDS + NO_WORDS + ["abc", "1", "0", "on", "off", "y", "n", "TRUE ", " true", "", "tru", "yess", "Nope", "t", "f", "None", "null"])
    for base in ("true", "yes", "false", "no", "maybe", "ye"):
        for _ in range(12):
            words.add("".join(c.upper() if rng.random() < 0.5 else c for c in base))
    words = sorted(words)
    res = model_batch(ctx, [{"op": "yn", "t": w} for w in words])
    if res is None:
        return
    for w, m in zip(words, res):
        ctx.count()
        try:
            real = ActionYesNo._boolean_type(w)
        except TypeError:
            real = None
        if m.get("v") is not real:
            ctx.tie_break("correspondence boolWord vs ActionYesNo._boolean_type disagrees", json.dumps({"word": w, "real": real, "model": m.get("v")}))
            return
    ctx.extra["yesno_words_checked"] = len(words)


def correspond_branch_keys(ctx: Ctx, rng, n):
    """isBranchKey (model, dot boundary regenerated from the source) vs _actions._is_branch_key on prefixes of dests;
    the registration order of an ActionParser group (Gen flag) vs the live parser._actions"""
    from jsonargparse._actions import _is_branch_key

    lines, reals = [], []
    for _ in range(n):
        spec = gen_spec(rng)
        if spec.get("sub") or spec.get("ap"):
            continue
        parser = build(spec)
        P = {"prefix": None, "decls": [{"key": a["key"].split("."), "kind": "json"} for a in spec["args"]]}
        keys = set(["zz", "g", "h", "g.s", "model"])
        for a in spec["args"]:
            d = a["key"]
            keys.update(d[:i] for i in range(1, len(d) + 1))
        for key in sorted(k for k in keys if not k.endswith(".")):
            lines.append({"op": "branch", "parser": P, "key": key})
            reals.append((spec, key, bool(_is_branch_key(parser, key))))
    lines.append({"op": "tables"})
    res = model_batch(ctx, lines)
    if res is None:
        return
    for (spec, key, real), m in zip(reals, res):
        ctx.count()
        if m.get("v") is not real:
            ctx.tie_break("correspondence isBranchKey vs _is_branch_key disagrees",
                          json.dumps({"dests": [a["key"] for a in spec["args"]], "key": key, "real": real, "model": m.get("v")}))
            return
    ctx.extra["branch_keys_checked"] = len(reals)
    tables = res[-1]
    spec = {"prefix": "APP", "prog": "c05prog", "group": None, "args": [{"key": "top", "hint": "int", "default": 0}],
            "ap": {"key": "inner", "args": [{"key": "x", "hint": "int", "default": 0}, {"key": "y", "hint": "int", "default": 0}]}}
    dests = [a.dest for a in build(spec)._actions]
    live_first = "inner" in dests and dests.index("inner") < min(i for i, d in enumerate(dests) if d.startswith("inner."))
    ctx.count()
    if tables.get("groupActionFirst") is not live_first:
        ctx.tie_break("Gen/ChannelTables.groupActionFirst does not describe parser._actions of a parser with an ActionParser group",
                      json.dumps({"dests": dests, "table": tables}))


# ---------------------------------------------------------------- typed part: model (Core/ChannelsTyped) vs the real _check_type, per kind of channel
_TD_N = [0]
_TD_CACHE = {}


def ty_python(t):
    """model type (wire form) -> Python type hint"""
    from typing import Dict, List, Optional, Tuple, TypedDict, Union  # noqa: F401

    if isinstance(t, str):
        return {"int": int, "float": float, "bool": bool, "str": str, "none": type(None)}[t]
    (k, a), = t.items()
    if k == "enum":
        return Color
    if k == "union":
        return Union[tuple(ty_python(x) for x in a)]
    if k == "list":
        return List[ty_python(a)]
    if k == "dict":
        return Dict[str, ty_python(a)]
    if k == "tupleVar":
        return Tuple[ty_python(a), ...]
    if k == "tuple":
        return Tuple[tuple(ty_python(x) for x in a)]
    if k == "tdict":
        key = json.dumps(t, sort_keys=True)
        if key not in _TD_CACHE:
            _TD_N[0] += 1
            _TD_CACHE[key] = TypedDict("C05TD%d" % _TD_N[0], {n: ty_python(x) for n, x in zip(a[0], a[1])})
        return _TD_CACHE[key]
    raise MachineryError("type " + json.dumps(t))


def ty_wire(tp):
    """Python type hint -> model type, read off the type OBJECT: typing caches parametrised generics by an order-insensitive key
    (List[Union[str, int]] may come back as a previously built List[Union[int, str]]), so the member order is taken from the object used"""
    from typing import Union, get_args, get_origin

    if tp in (int, float, bool, str):
        return tp.__name__
    if tp is type(None):
        return "none"
    if tp is Color:
        return {"enum": ["red", "blue", "green"]}
    o, a = get_origin(tp), get_args(tp)
    if o is Union:
        return {"union": [ty_wire(x) for x in a]}
    if o is list:
        return {"list": ty_wire(a[0])}
    if o is dict:
        return {"dict": ty_wire(a[1])}
    if o is tuple:
        if len(a) == 2 and a[1] is Ellipsis:
            return {"tupleVar": ty_wire(a[0])}
        return {"tuple": [ty_wire(x) for x in a]}
    if isinstance(tp, type) and issubclass(tp, dict) and hasattr(tp, "__annotations__"):
        return {"tdict": [list(tp.__annotations__), [ty_wire(x) for x in tp.__annotations__.values()]]}
    raise MachineryError("type %r" % (tp,))


LEAF_TYS = ["int", "float", "bool", "str", {"enum": ["red", "blue", "green"]}]
TY_WORDS = ["a", "b c", "red", "x-1", "", " ", "1", "null", "true", "2.5", "[1]", "a: b", "~", "blue"]


def gen_ty(rng, depth=0):
    r = rng.random()
    if depth >= 2 or r < 0.3:
        return rng.choice(LEAF_TYS)
    if r < 0.55:
        members = []
        pool = LEAF_TYS + (["none", "none"] if True else [])
        for m in rng.sample(pool, rng.choice([2, 2, 3])):
            if m not in members:
                members.append(m)
        if depth < 2 and rng.random() < 0.4:
            members.insert(rng.randint(0, len(members)), gen_container(rng, depth + 1))
        if len(members) < 2:
            members.append("none" if "none" not in members else "int")
        return {"union": members}
    return gen_container(rng, depth)


def gen_container(rng, depth):
    k = rng.choice(["list", "list", "dict", "tupleVar", "tuple", "tdict"])
    if k in ("list", "dict", "tupleVar"):
        return {k: gen_ty(rng, depth + 1)}
    if k == "tuple":
        return {"tuple": [gen_ty(rng, depth + 1) for _ in range(rng.choice([1, 2, 3]))]}
    names = rng.sample(["a", "n", "k_2", "B"], rng.choice([1, 2, 3]))
    return {"tdict": [names, [gen_ty(rng, depth + 1) for _ in names]]}


def gen_scalar_any(rng):
    return rng.choice([None, True, False, 0, 1, -5, 10**20, 2.5, -0.25, 1e16, "a", "red", "", "1", "null", [1], {"a": 1}, [], {}])


def gen_val_for(rng, t, wrong=0.12):
    """a value for the type: mostly fitting, sometimes (at any depth) something else"""
    if rng.random() < wrong:
        return gen_scalar_any(rng)
    if isinstance(t, str):
        if t == "int":
            return rng.choice(INT_POOL)
        if t == "float":
            return rng.choice([2.5, -0.25, 1e16, 1e-05, 3, 0.0, 100000.0])
        if t == "bool":
            return rng.random() < 0.5
        if t == "str":
            return rng.choice(TY_WORDS)
        return None
    (k, a), = t.items()
    if k == "enum":
        return rng.choice(a)
    if k == "union":
        return gen_val_for(rng, rng.choice(a), wrong)
    n = rng.choice([0, 1, 2, 3])
    if k in ("list", "tupleVar"):
        return [gen_val_for(rng, a, wrong) for _ in range(n)]
    if k == "dict":
        return {key: gen_val_for(rng, a, wrong) for key in rng.sample(ITEM_NAMES, n)}
    if k == "tuple":
        items = [gen_val_for(rng, x, wrong) for x in a]
        if rng.random() < 0.08:
            items = items[:-1] if rng.random() < 0.5 else items + [1]
        return items
    if k == "tdict":
        d = {name: gen_val_for(rng, x, wrong) for name, x in zip(a[0], a[1])}
        r = rng.random()
        if r < 0.06 and d:
            d.pop(rng.choice(sorted(d)))
        elif r < 0.12:
            d["zz"] = 1
        return d
    raise MachineryError("type " + json.dumps(t))


def pv_wire(x):
    """Python value -> model wire value (floats as the token repr() writes); None if not representable"""
    if x is None or isinstance(x, (bool, str)):
        return ("ok", x)
    if isinstance(x, int):
        return ("ok", x)
    if isinstance(x, float):
        r = repr(x)
        return ("ok", {"f": r}) if is_token(r) else None
    if isinstance(x, enum.Enum):
        return ("ok", x.name)
    if isinstance(x, (list, tuple)):
        items = [pv_wire(i) for i in x]
        if any(i is None for i in items):
            return None
        items = [i[1] for i in items]
        return ("ok", {"t": items} if isinstance(x, tuple) else items)
    if isinstance(x, dict):
        out = []
        for k, v in x.items():
            w = pv_wire(v)
            if w is None or not isinstance(k, str):
                return None
            out.append([k, w[1]])
        return ("ok", {"d": out})
    return None


def pv_canon(w):
    """model wire value -> canonical comparison form (floats by repr of the float; an int turned float likewise)"""
    if isinstance(w, dict) and "f" in w:
        return ["f", repr(float(w["f"]))]
    if isinstance(w, dict) and "fi" in w:
        return ["f", repr(float(w["fi"]))]
    if isinstance(w, dict) and "d" in w:
        return ["D", [[k, pv_canon(v)] for k, v in w["d"]]]
    if isinstance(w, dict) and "t" in w:
        return ["T", [pv_canon(v) for v in w["t"]]]
    if isinstance(w, list):
        return ["L", [pv_canon(v) for v in w]]
    if w is None:
        return ["0"]
    if isinstance(w, bool):
        return ["b", w]
    if isinstance(w, int):
        return ["i", str(w)]
    return ["s", w]


def real_canon_typed(c):
    """canonical real value with Enum members by name (the model has no Enum values)"""
    if c[0] == "E":
        return ["s", c[1]]
    if c[0] in ("L", "T"):
        return [c[0], [real_canon_typed(x) for x in c[1]]]
    if c[0] == "D":
        return ["D", [[k, real_canon_typed(v)] for k, v in c[1]]]
    return c


def typed_parser(pt):
    from jsonargparse import ArgumentParser

    p = ArgumentParser(exit_on_error=False, env_prefix="APP", default_env=False)
    p.add_argument("--v", type=pt, default=None)
    return p


def typed_real(t, fn):
    o = outcome(lambda: fn(typed_parser(t)).v)
    return None if "rej" in o else real_canon_typed(o["ok"])


def correspond_typed(ctx: Ctx, rng, n):
    """model checkType (text channel / value channel) vs the real parser on one typed option; the loaders of the model are
    finite tables filled with what the real loaders return on the strings that occur"""
    from jsonargparse import ArgumentParser
    from jsonargparse._common import parser_context
    from jsonargparse._loaders_dumpers import json_or_yaml_load, load_value

    fixed = [
        ({"list": {"union": ["str", "none"]}}, ["a", 2.5]), ({"list": {"union": ["str", "none"]}}, ["a", None, ""]),
        ({"list": {"union": ["int", "str"]}}, [1, "a", "1", 2.5]), ({"dict": {"union": ["str", "none"]}}, {"a": 2.5}),
        ({"tuple": [{"union": ["str", "none"]}, "int"]}, [2.5, 1]), ({"tupleVar": {"union": ["str", "none"]}}, [True]),
        ({"union": [{"list": {"union": ["str", "none"]}}, "none"]}, [2.5]), ({"list": {"list": {"union": ["int", "str"]}}}, [[2.5]]),
        ({"tdict": [["a", "n"], [{"union": ["str", "none"]}, "int"]]}, {"a": 2.5, "n": 1}),
        ({"tdict": [["a", "n"], [{"union": ["str", "none"]}, "int"]]}, {"a": "x", "n": 1}),
        ({"tdict": [["a", "n"], [{"list": {"union": ["str", "none"]}}, "int"]]}, {"a": [2.5], "n": 1}),
        ({"union": ["int", "str"]}, 2.5), ({"union": ["int", "str"]}, 7), ({"union": ["str", "none"]}, "null"), ("str", ""), ("str", "null"),
        ("str", "[1]"), ("str", " "), ("int", ""), ("float", 3), ("float", "1e3"), ("bool", "true"), ({"enum": ["red", "blue", "green"]}, "red"),
        ({"union": [{"enum": ["red", "blue", "green"]}, "int"]}, "purple"), ({"union": ["int", {"list": "int"}]}, [1, 2]),
        ({"union": ["int", {"list": "int"}]}, "[1, 2]"), ({"union": [{"dict": "int"}, {"list": "int"}, "float"]}, {"a": 1}),
    ]
    cases = list(fixed) + [None] * n
    lines, meta = [], []
    for fx in cases:
        if fx is None:
            t = gen_ty(rng)
            v = gen_val_for(rng, t)
        else:
            t, v = fx
        pt = ty_python(t)
        t = ty_wire(pt)
        wv = pv_wire(v)
        if wv is None:
            ctx.hist("typed_skipped", "value not representable")
            continue
        s = None if isinstance(v, str) else jdumps(v)
        strings = set(all_strs(v)) | ({s} if s is not None else set())
        ltab, ytab, okay = [], [], True
        with parser_context(parent_parser=ArgumentParser(exit_on_error=False), load_value_mode="yaml"):
            for x in sorted(strings):
                try:
                    lw = pv_wire(load_value(x, simple_types=True)) if x.strip() != "" else ("ok", x)
                except Exception:  # noqa: BLE001 - `except get_loader_exceptions()`: the text stays
                    lw = ("ok", x)
                try:
                    yw = pv_wire(json_or_yaml_load(x))
                except Exception:  # noqa: BLE001 - suppressed by the basic-types branch: the text stays
                    yw = ("ok", x)
                if lw is None or yw is None:
                    okay = False
                    break
                ltab.append([x, lw[1]])
                ytab.append([x, yw[1]])
        if not okay:
            ctx.hist("typed_skipped", "a loader returns a value outside the wire grammar (date, inf ...)")
            continue
        lines.append({"op": "typed", "t": t, "v": wv[1], "s": s, "L": ltab, "Y": ytab})
        meta.append((pt, t, v, s, wv[1], dict((k, json.dumps(x)) for k, x in ltab), dict((k, json.dumps(x)) for k, x in ytab)))
    res = model_batch(ctx, lines)
    if res is None:
        return
    n_thm = 0
    for (pt, t, v, s, wv, ltab, ytab), m in zip(meta, res):
        ctx.count()
        detail = {"type": t, "value": v, "text": s}
        mv = None if m["value"] is None else pv_canon(m["value"]["some"])
        if v is not None:
            rv = typed_real(pt, lambda p: p.parse_object({"v": json.loads(json.dumps(v))}))
            if rv != mv:
                ctx.tie_break("correspondence checkType (value channel) vs parse_object disagrees",
                              json.dumps(dict(detail, real=rv, model=mv), ensure_ascii=True)[:1500])
                return
        if s is None:
            ctx.hist("typed_routing", "string setting: one channel kind")
            continue
        mt = None if m["text"] is None else pv_canon(m["text"]["some"])
        rt = typed_real(pt, lambda p: p.parse_args(["--v=" + s]))
        re_ = typed_real(pt, lambda p: p.parse_env({"APP_V": s}))
        if rt != mt or re_ != mt:
            ctx.tie_break("correspondence checkType (text channel) vs parse_args / parse_env disagrees",
                          json.dumps(dict(detail, argv=rt, env=re_, model=mt), ensure_ascii=True)[:1500])
            return
        in_thm = (m["noStrTop"] and m["noEnumName"] and m["textOk"] and ltab.get(s) == json.dumps(wv) and ytab.get(s) == json.dumps(wv))
        if in_thm:
            n_thm += 1
            ctx.hist("typed_routing", "inside C05_typed_channels (accepted by both)" if mt is not None else "inside C05_typed_channels (rejected by both)")
            ctx.nontrivial("typed:" + json.dumps([t, v], sort_keys=True, ensure_ascii=True))
            if mt != mv:
                ctx.tie_break("model: viaText differs from viaValue under the hypotheses of C05_typed_channels", json.dumps(detail, ensure_ascii=True)[:1500])
                return
            if v is not None and rt != rv:
                ctx.violation("a typed option: the text through the command line / environment and the value through parse_object differ: %r vs %r" % (rt, rv),
                              {"kind": "typed", "type": t, "value": v, "text": s})
                return
        else:
            ctx.hist("typed_routing", "outside the theorem (str reachable from the top / loaders read the text differently)")
    ctx.extra["typed_cases"] = len(meta)
    ctx.extra["typed_cases_inside_theorem"] = n_thm


def _ty_kinds(t):
    if isinstance(t, str):
        return [t]
    (k, a), = t.items()
    if k == "enum":
        return [k]
    if k in ("union", "tuple"):
        return [k] + [x for m in a for x in _ty_kinds(m)]
    if k == "tdict":
        return [k] + [x for m in a[1] for x in _ty_kinds(m)]
    return [k] + _ty_kinds(a)


def model_batch(ctx: Ctx, lines):
    if not lines:
        return []
    try:
        res = ctx.driver("Channels", lines)
    except MachineryError as ex:
        if ctx.lean_ok:
            raise
        ctx.tie_break("correspondence Channels not runnable (model does not build)", str(ex)[:500])
        return None
    for l, r in zip(lines, res):
        if "bad" in r or "bad-json" in r:
            raise MachineryError("driver Channels rejected %s: %s" % (json.dumps(l)[:300], r))
    return res


def leaves_of_nested(d, pre=()):
    out = []
    for k, v in d.items():
        if isinstance(v, dict) and getattr(v, "_branch", False):
            out.extend(leaves_of_nested(v, pre + (k,)))
        else:
            out.append((list(pre + (k,)), v))
    return out


class Branch(dict):
    _branch = True


def nested_branches(settings):
    """nested mapping with branch nodes marked (a dict VALUE is a leaf)"""
    d = Branch()
    for key, v in settings:
        cur = d
        segs = key.split(".")
        for s in segs[:-1]:
            nxt = cur.get(s)
            if not isinstance(nxt, Branch):
                nxt = Branch()
                cur[s] = nxt
            cur = nxt
        cur[segs[-1]] = v
    return d


def correspond_channels(ctx: Ctx, cases_outs):
    """model render vs the harness renderings, model apply(render) vs the real namespace, per channel"""
    lines, meta = [], []
    for case, outs in cases_outs:
        if not model_ok(case):
            why = "kind " + case["kind"] if case["kind"] not in ("valid", "unknown") else (
                "clash-named argument, open finding" if clash_args(case) else (
                    "sub-commands / ActionParser groups / dict items spelled --d.item=v: outside the model" if outside_model(case) else "value outside the grammar"))
            ctx.hist("model_routing", "oracle only (%s)" % why)
            continue
        ctx.hist("model_routing", "model and oracle")
        P = wire_parser(case["spec"])
        S = [[k.split("."), wire_val(v)] for k, v in case["settings"]]
        try:
            base = wire_ns_of_canon(drop_keys(defaults_canon(case["spec"]), foreign_keys(case["spec"])))
        except ValueError:
            continue
        for mc in ("argv", "cfgNested", "cfgDotted", "objNested", "objDotted", "env"):
            lines.append({"op": "render", "parser": P, "settings": S, "channel": mc})
            meta.append(("render", mc, case, outs))
            lines.append({"op": "apply", "parser": P, "settings": S, "channel": mc, "ns": base})
            meta.append(("apply", mc, case, outs))
    res = model_batch(ctx, lines)
    if res is None:
        return
    for (what, mc, case, outs), m in zip(meta, res):
        ctx.count()
        spec, settings = case["spec"], case["settings"]
        if what == "render":
            src = m["src"][mc]
            if mc == "argv":
                src = [t for g in src for t in g]
                want = argv_of(case, True)
            elif mc == "env":
                want = [[k, v] for k, v in env_of(spec, settings).items()]
                if len(want) != len(settings):
                    continue
            elif mc == "cfgDotted":
                want = [[k, jdumps(v)] for k, v in settings]
            elif mc == "objDotted":
                want = [[k, wire_val(v)] for k, v in settings]
            elif mc == "cfgNested":
                want = [[p, jdumps(v)] for p, v in leaves_of_nested(nested_branches(settings))]
            else:
                want = [[p, wire_val(v)] for p, v in leaves_of_nested(nested_branches(settings))]
            if src != want:
                ctx.tie_break("correspondence render (%s) vs the harness rendering disagrees" % mc,
                              json.dumps({"settings": settings, "real": want, "model": src}, ensure_ascii=True)[:1500])
                return
            continue
        # apply
        reals = [(ch, o) for ch, o in outs.items() if MODEL_CHANNEL.get(ch) == mc and "skip" not in o]
        if case["kind"] == "unknown" and mc == "env":
            continue
        mr = m.get("r")
        for ch, o in reals:
            if mr is None:
                if "rej" not in o:
                    ctx.tie_break("correspondence apply(render %s): model rejects, %s accepts" % (mc, ch),
                                  json.dumps({"case": case}, ensure_ascii=True)[:1500])
                    return
                continue
            if "rej" in o:
                ctx.tie_break("correspondence apply(render %s): model accepts, %s rejects (%s)" % (mc, ch, o["rej"]),
                              json.dumps({"case": case, "msg": o.get("msg")}, ensure_ascii=True)[:1500])
                return
            real_ns = wire_ns_of_canon(drop_keys(o["ok"], foreign_keys(case["spec"])))
            if json.dumps(sort_dict_items(real_ns), ensure_ascii=True) != json.dumps(sort_dict_items(norm_floats(mr["some"])), ensure_ascii=True):
                ctx.tie_break("correspondence apply(render %s) vs the namespace returned through %s disagrees" % (mc, ch),
                              json.dumps({"case": case, "real": real_ns, "model": mr["some"]}, ensure_ascii=True)[:1800])
                return
        if mr is not None and not (m.get("good") and m.get("covers")):
            ctx.hist("model_hypotheses", "not met (good=%s covers=%s)" % (m.get("good"), m.get("covers")))
        elif mr is not None:
            ctx.hist("model_hypotheses", "met")


# ---------------------------------------------------------------- the check
def run(ctx: Ctx):
    repo_python_path()
    ctx.rule = ("generated parsers (2-5 flat or dotted arguments of depth 1-3 over int, PositiveInt, bool, str, Optional[int], List[int], List[str], "
                "Dict[str,int], Literal[strings], Literal[ints], Enum, Any, Tuple[int,int], Tuple[int,...]; optional argument group; list-valued options "
                "nargs=1/2/+/*; containers with Union[...,str] items: List[Optional[str]], List[Union[int,str]], Dict[str,Optional[str]], Tuple[Optional[str],int], "
                "Optional[List[Optional[str]]], List[List[Union[int,str]]], TypedDict; optional sub-command level with 2 sub-parsers; env_prefix variants) x settings (subset of the "
                "arguments in random order; non-string values anywhere, strings only at str-typed positions from a look-alike-heavy alphabet; "
                "invalid: wrong type at one key, unknown key) x 13 channels (+ parse_env(mapping), + bare item for a list-valued option) on fresh parsers; one evaluation = one channel run or one model/real "
                "comparison; non-trivial = a case where >= 2 channels ran and either every channel accepted a configuration different from the "
                "defaults or (invalid case) every channel rejected; distinct by canonical JSON of (spec, settings)")
    ctx.assumptions = [
        "settings at str-typed positions are strings, at other positions non-strings: a non-string given to a str position ('--s=1' is the string '1') "
        "and a string given to a non-str position (Any: '0123' is 123 from argv via load_basic and 83 from a YAML file) have no unambiguous text "
        "(DESIGN section 7 row 5d, first half: outside the quantifier)",
        "jsonnet and omegaconf evaluators are oracles: ints beyond 2^53 (jsonnet doubles) and strings containing '${' (omegaconf interpolation) are "
        "not sent through those two modes",
        "argv '--k v' is not used when v starts with '-' and is not a negative number (argparse tokenisation)",
        "an environment variable naming no argument is ignored by design, so unknown-key cases are not sent through the environment",
        "defaults are in normal form (finding 15e concerns non-normal defaults, property C10)",
        "key names and env prefixes are ASCII (str.upper on non-ASCII is outside the envVar model)",
    ]
    ctx.lean_build(extractors=["ns_tables", "yesno_words", "channel_tables", "channel_src"])
    ctx.extra["parser_modes_available"] = dict(available_modes())

    from ..lib import corpus as corpus_mod

    cases = []
    for c in corpus_mod.load(ctx.prop):
        for one in c.get("cases", [c]):
            cases.append((one, "corpus"))
    n_corpus = len(cases)
    n_random = ctx.budget(330, 4000) * (2 if ctx.search_boost > 1 and not ctx.thorough else 1)
    for _ in range(n_random):
        cases.append((gen_case(ctx.rng), "generated"))
    if ctx.thorough:
        ex = exhaustive_single()
        cases.extend((c, "exhaustive") for c in ex)
        ctx.extra["exhaustive_single_argument_cases"] = len(ex)

    # --- correspondence of the addressing and text layers (before the oracle: a broken tie boosts the search)
    correspond_envvar(ctx, ctx.rng, ctx.budget(300, 3000))
    correspond_text(ctx, ctx.rng, ctx.budget(300, 3000))
    correspond_yesno(ctx, ctx.rng)
    correspond_branch_keys(ctx, ctx.rng, ctx.budget(25, 200))
    correspond_typed(ctx, ctx.rng, ctx.budget(250, 3000))
    if ctx.search_boost > 1:    # a tie is broken: search harder for a concrete failing input
        for _ in range(ctx.budget(2 * n_random, n_random // 2)):
            cases.append((gen_case(ctx.rng), "generated (boosted)"))

    # --- the property on the real code
    judged = []
    for idx, (case, origin) in enumerate(cases):
        if not ctx.thorough and origin != "corpus" and idx % 3:
            case["_sample_out_jsonnet"] = True
        outs, _bad = judge(ctx, case, origin)
        judged.append((case, outs))
        ctx.hist("kind", case["kind"])
        ctx.hist("n_settings", len(case["settings"]))
        for k, _ in case["settings"]:
            ctx.hist("hint", hint_of(case["spec"], k) or "(not an argument)")
            ctx.hist("key_depth", k.count(".") + 1)
        groups = classes(outs)
        if len(groups) == 1 and sum(len(v) for v in groups.values()) >= 2:
            key = next(iter(groups))
            if key == "REJECT":
                if case["kind"] in ("wrong", "unknown"):
                    ctx.nontrivial(json.dumps(case, sort_keys=True, default=repr))
            elif key != json.dumps(sort_canon(defaults_canon(case["spec"])), sort_keys=True, ensure_ascii=True):
                ctx.nontrivial(json.dumps(case, sort_keys=True, default=repr))
    for case, _ in cases[n_corpus:n_corpus + 3]:
        ctx.sample(case)

    # --- model vs real, channel by channel
    correspond_channels(ctx, judged)

    # --- catalogued findings (repaired ones: their demonstrations must pass on the current tree)
    ctx.replay_fixed_demos()
    for f in ctx.open_findings():
        case = f["witness"]["case"]
        outs = run_channels(case)
        if deviation(case, outs) is not None and known_signature(case, outs) == f["id"]:
            ctx.known(f["id"], f["description"])
        else:
            ctx.stale_findings.append(f["id"])
    ctx.extra["cases"] = len(cases)
    ctx.extra["outside_quantifier_row5d_any_0123"] = probe_row5d()
    ctx.extra["channels"] = CHANNELS


def probe_row5d():
    """DESIGN section 7 row 5d, first half (a string at an Any position: outside the quantifier) — recorded, never an alarm"""
    from typing import Any

    from jsonargparse import ArgumentParser

    def mk():
        p = ArgumentParser(exit_on_error=False)
        p.add_argument("--v", type=Any, default=None)
        return p
    try:
        return {"argv --v=0123": repr(mk().parse_args(["--v=0123"]).v), "yaml file v: 0123": repr(mk().parse_string("v: 0123").v)}
    except Exception as ex:  # noqa: BLE001
        return {"error": repr(ex)}


def replay(ctx: Ctx, body):
    repo_python_path()
    rp = body["replay"]
    if rp.get("kind") == "demo":
        import subprocess

        from ..lib.common import REPO, VERIF
        p = subprocess.run(["/venv/bin/python", os.path.join(VERIF, rp["demo"])], env=dict(os.environ, PYTHONPATH=REPO))
        return 1 if p.returncode != 0 else 0
    if rp.get("kind") == "typed":
        pt = ty_python(rp["type"])
        rv = typed_real(pt, lambda p: p.parse_object({"v": rp["value"]}))
        rt = typed_real(pt, lambda p: p.parse_args(["--v=" + rp["text"]]))
        re_ = typed_real(pt, lambda p: p.parse_env({"APP_V": rp["text"]}))
        print("  parse_object %s\n  argv         %s\n  environment  %s" % (rv, rt, re_))
        return 1 if (rt != rv or re_ != rv) else 0
    if rp.get("kind") != "oracle":
        print("nothing to re-run: %s" % json.dumps(rp)[:500])
        return 1
    case = rp["case"]
    outs = run_channels(case)
    for ch in CHANNELS:
        print("  %-16s %s" % (ch, json.dumps(outs.get(ch), ensure_ascii=True)[:300]))
    dev = deviation(case, outs)
    print("deviation:", dev)
    if dev is not None and known_signature(case, outs):
        print("matches open finding", known_signature(case, outs))
    return 1 if dev is not None else 0

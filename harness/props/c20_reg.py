"""C20 helpers (session 2): the registries of jsonargparse/typing.py.

 * `alias_oracle`        real code only: a restricted number type created from a caller-owned list is unaffected by
                         later mutation of that list; the same name + key-equal restrictions give the same class object,
                         another name is refused; judged against the predicate of the restrictions AS STATED AT CREATION
 * `str_flags_oracle`    real code only: the type returned by restricted_string_type validates with the pattern object of
                         THIS call (open finding C20-str-key-ignores-flags: the key is the pattern text alone)
 * `registry_lines`      correspondence with the Lean model (Core/TypingReg): histories of restricted_number_type /
                         restricted_string_type calls (class identity, ValueError), `sorted(restrictions)`, automatic names,
                         histories of register_type / register_type_on_first_use / get_registered_type on fresh classes,
                         Decimal through the registered serializer
 * `b64_lookalikes`      byte strings whose base64 text spells another notation (numbers in every radix, exponents, booleans,
                         null): generated from the TEXT side, so that the round-trip oracle meets them
"""
from __future__ import annotations

import base64
import hashlib
import importlib
import math
import os
import re
import sys
from fractions import Fraction

FINDING_STR_FLAGS = "C20-str-key-ignores-flags"

SYMS = [">", ">=", "<", "<=", "==", "!="]
OPS = {">": lambda a, b: a > b, ">=": lambda a, b: a >= b, "<": lambda a, b: a < b, "<=": lambda a, b: a <= b,
       "==": lambda a, b: a == b, "!=": lambda a, b: a != b}
MUTATIONS = ["append", "clear", "pop", "replace0", "extend", "reverse", "insert0", "del_last", "setitem_same_op"]


def _uniq(tag):
    return hashlib.sha256(tag.encode()).hexdigest()[:10]


def stated(base, join, rs, v):
    """the predicate of the restrictions as stated (None = reject, else the base-type value)"""
    bt = int if base == "int" else float
    if isinstance(v, bool) or not isinstance(v, (int, float, str)):
        return None
    try:
        x = bt(v)
    except (ValueError, TypeError, OverflowError):
        return None
    if bt is int and isinstance(v, float) and x != v:
        return None
    holds = [OPS[s](x, r) for s, r in rs]
    return x if (all(holds) if join == "and" else any(holds)) else None


def verdict(T, v):
    try:
        r = T(v)
    except Exception as ex:  # noqa: BLE001
        return ("err", type(ex).__name__)
    return ("ok", repr((int if isinstance(r, int) else float)(r)))


def mutate(lst, how, spare):
    """in-place edit of the caller's list; `spare` = restrictions that are not in the list"""
    if how == "append":
        lst.append(spare[0])
    elif how == "clear":
        lst.clear()
    elif how == "pop":
        lst.pop(0)
    elif how == "replace0":
        lst[0] = spare[0]
    elif how == "extend":
        lst.extend(spare[:2])
    elif how == "reverse":
        lst.reverse()
    elif how == "insert0":
        lst.insert(0, spare[1])
    elif how == "del_last":
        del lst[-1]
    elif how == "setitem_same_op":
        lst[0] = (lst[0][0], spare[0][1])


def alias_case(case):
    """run one scenario on the real code; returns a description of the failure or None.
    case = {base, join, rs:[[sym, ref]], mutation, spare:[[sym, ref]], tag}"""
    from jsonargparse import typing as m

    base, join = case["base"], case["join"]
    bt = int if base == "int" else float
    rs = [(s, r) for s, r in case["rs"]]
    spare = [(s, r) for s, r in case["spare"]]
    caller = list(rs)                       # the caller-owned list
    key = (tuple(sorted(rs)), bt, join)
    name = m.registered_types[key].__name__ if key in m.registered_types else "C20A_" + _uniq(case["tag"])
    try:
        T = m.restricted_number_type(name, bt, caller, join)
    except Exception as ex:  # noqa: BLE001
        return "creation raises %s" % type(ex).__name__
    if caller != rs:
        return "restricted_number_type modified the caller's restriction list (%r -> %r)" % (rs, [(getattr(a, "__name__", a), b) for a, b in caller])
    refs = [r for _, r in rs + spare]
    cands = []
    for r in refs:
        cands += [r - 1, r, r + 1, float(r), r + 0.5, str(r)]
    cands += [True, 0, -(10 ** 6), 10 ** 6, "x", None]
    before = [verdict(T, v) for v in cands]
    expr_before, name_before = T._expression, T.__name__
    mutate(caller, case["mutation"], spare)
    after = [verdict(T, v) for v in cands]
    for v, a, b in zip(cands, before, after):
        want = stated(base, join, rs, v)
        if a != b:
            return "verdict for %r changes from %r to %r after the caller's list was edited (%s)" % (v, a, b, case["mutation"])
        if (want is None) != (b[0] == "err") or (want is not None and b[1] != repr(want)):
            return "verdict for %r is %r, the restrictions stated at creation %r (%s) say %r" % (v, b, rs, join, want)
    if T._expression != expr_before or T.__name__ != name_before:
        return "expression/name of the type changed after the caller's list was edited"
    # the same name with a key-equal list (a copy, a permutation) is the same class object; another name is refused
    for again in (list(rs), list(reversed(rs)), tuple(rs) if len(rs) == 1 else list(rs)):
        if isinstance(again, tuple):
            again = again[0]
        try:
            T2 = m.restricted_number_type(name, bt, again, join)
        except Exception as ex:  # noqa: BLE001
            return "asking again for the same name and restrictions raises %s" % type(ex).__name__
        if T2 is not T:
            return "asking again for the same name and restrictions returns another class"
    try:
        m.restricted_number_type(name + "_x", bt, list(rs), join)
        return "the same restrictions are accepted under a second name"
    except ValueError:
        pass
    # a type derived from the edited list is a type of its own and validates the edited list
    if caller and sorted(caller, key=repr) != sorted(rs, key=repr):
        key2 = (tuple(sorted(caller, key=repr)), bt, join)
        try:
            key2 = (tuple(sorted(caller)), bt, join)
        except TypeError:
            pass
        name2 = m.registered_types[key2].__name__ if key2 in m.registered_types else "C20A_" + _uniq(case["tag"] + "|2")
        try:
            T3 = m.restricted_number_type(name2, bt, caller, join)
        except Exception as ex:  # noqa: BLE001
            return "creating a type from the edited list raises %s" % type(ex).__name__
        if T3 is T:
            return "the edited list gives the same class"
        now = list(caller)
        for v in cands:
            b = verdict(T3, v)
            want = stated(base, join, now, v)
            if (want is None) != (b[0] == "err"):
                return "type of the edited list: verdict for %r is %r, stated %r" % (v, b, want)
        if [verdict(T, v) for v in cands] != before:
            return "creating a second type from the edited list changed the first type"
    return None


def gen_alias_case(rng, i):
    base = rng.choice(["int", "float"])
    lo = 100000 + 97 * i + rng.randrange(50)
    refs = [lo, lo + rng.randint(1, 9), lo + rng.randint(10, 30), lo - rng.randint(1, 9)]
    if base == "float" and rng.random() < 0.5:
        refs = [r + rng.choice([0.0, 0.5, 0.25]) for r in refs]
    n = rng.choice([1, 1, 2, 2, 3])
    rs = [[rng.choice(SYMS), refs[k]] for k in range(n)]
    spare = [[rng.choice(SYMS), refs[3]], [rng.choice(SYMS), refs[(n + 1) % 3] + 40]]
    mut = rng.choice(MUTATIONS)
    return {"base": base, "join": rng.choice(["and", "or"]), "rs": rs, "spare": spare, "mutation": mut,
            "tag": "%s|%s|%s|%s" % (base, rs, spare, mut)}


# ---------------------------------------------------------------- restricted strings: flags of a compiled pattern vs registry key
STR_FLAG_CASES = [
    (r"^c20k[a-c]+$", ["IGNORECASE"], [], ["c20kABC", "c20kabc", "C20KA", "c20kd"]),
    (r"^c20m.z$", [], ["DOTALL"], ["c20m\nz", "c20mxz", "c20mz"]),
    (r"^c20v a b$", ["VERBOSE"], [], ["c20vab", "c20v a b"]),
]


def str_flags_case(case):
    """(pattern, flags1, flags2, text): the type asked for SECOND (same name) must validate with its own pattern object"""
    from jsonargparse import typing as m

    pattern, f1, f2, text = case["pattern"], case["flags1"], case["flags2"], case["value"]

    def fl(names):
        v = 0
        for n in names:
            v |= int(getattr(re, n))
        return v

    name = "C20F_" + _uniq(pattern)
    key = ("matching " + pattern, str)
    if key in m.registered_types:
        name = m.registered_types[key].__name__
    m.restricted_string_type(name, re.compile(pattern, fl(f1)))
    second = re.compile(pattern, fl(f2))
    T2 = m.restricted_string_type(name, second)
    want = second.match(text) is not None
    try:
        T2(text)
        got = True
    except ValueError:
        got = False
    if got != want:
        return "type asked for with flags %s %s %r, its pattern object %s it (the class created first, with flags %s, is returned)" % (
            f2 or "none", "accepts" if got else "rejects", text, "matches" if want else "does not match", f1 or "none")
    return None


# ---------------------------------------------------------------- texts that look like another notation
def b64_lookalikes(rng, n):
    """byte strings whose canonical base64 text spells a number / boolean / null in some notation"""
    texts = ["1234", "0012", "12345678", "0x1F", "0X00", "0xabcdef", "0xABCDEF12", "0x00", "0Xff", "0o17", "0O7777", "0b11", "0B101010",
             "1e10", "1E10", "12e3", "true", "True", "TRUE", "null", "Null", "NULL", "None", "+123", "+1e5", "0000", "9" * 16, "1e+5",
             "NaNs", "/123", "1/23", "abcd", "0xyz", "0x1g", "0xfffffffe", "yesy", "8888", "0e00", "00e0", "0x0x", "0X1f0X1f"]
    hexd = "0123456789abcdefABCDEF"
    for _ in range(n):
        k = rng.choice([1, 1, 2, 3])
        r = rng.random()
        if r < 0.4:
            texts.append(rng.choice(["0x", "0X"]) + "".join(rng.choice(hexd) for _ in range(4 * k - 2)))
        elif r < 0.6:
            texts.append("".join(rng.choice("0123456789") for _ in range(4 * k)))
        elif r < 0.75:
            texts.append(rng.choice(["0o", "0O", "0b", "0B"]) + "".join(rng.choice("01") for _ in range(4 * k - 2)))
        else:
            d = "".join(rng.choice("0123456789") for _ in range(4 * k - 2))
            cut = rng.randrange(1, len(d))
            texts.append(d[:cut] + rng.choice("eE") + d[cut:] + rng.choice("0123456789"))
    out = []
    for t in texts:
        if len(t) % 4 == 0 and re.fullmatch(r"[A-Za-z0-9+/]*", t):
            b = base64.b64decode(t)
            if base64.b64encode(b).decode() == t:
                out.append(b)
    return out


# ---------------------------------------------------------------- correspondence with Core/TypingReg
def _wire_num(x):
    if isinstance(x, int):
        return int(x)
    if math.isinf(x):
        return {"f": "inf" if x > 0 else "-inf"}
    n, d = float(x).as_integer_ratio()
    return {"q": [n, d]}


class RegHistory:
    """register_type histories on fresh importable classes (a temp module per history)"""

    def __init__(self, tmpdir):
        self.dir = os.path.join(tmpdir, "c20regmods")
        os.makedirs(self.dir, exist_ok=True)
        if self.dir not in sys.path:
            sys.path.insert(0, self.dir)
        self.count = 0
        self.added_handlers = []
        self.added_keys = []

    def fresh(self, n):
        self.count += 1
        name = "c20regmod_%d_%d" % (os.getpid(), self.count)
        src = "".join("class K%d:\n    def __init__(self, v=None):\n        self.v = v\n" % i for i in range(n))
        src += "".join("def f%d(v, t=None):\n    return v\n" % i for i in range(12))
        with open(os.path.join(self.dir, name + ".py"), "w") as f:
            f.write(src)
        importlib.invalidate_caches()
        return importlib.import_module(name)

    def run(self, n, calls):
        """calls: [{k: reg|pend|get, cls, ser, deser, check, fail, ukey}] -> (observations, wire calls)"""
        from jsonargparse import typing as m

        mod = self.fresh(n)
        classes = [getattr(mod, "K%d" % i) for i in range(n)]
        fid = {}

        def fn(i):
            f = getattr(mod, "f%d" % i)
            fid[f] = i
            return f

        def hid(h):
            if h is None:
                return None
            return [fid.get(h.serializer, -1), fid.get(h.base_deserializer, -1), fid.get(h.type_check, -1)]

        keys_used = {}

        def snap():
            return {"h": [hid(m.registered_type_handlers.get(c)) for c in classes],
                    "p": [i for i, c in enumerate(classes) if "%s.%s" % (c.__module__, c.__qualname__) in m.registration_pending],
                    "u": sorted([k, classes.index(m.registered_types[key])] for k, key in keys_used.items() if m.registered_types.get(key) in classes)}

        obs = []
        for c in calls:
            cls = classes[c["cls"]]
            ukey = None
            if c.get("ukey") is not None:
                k, truthy = c["ukey"]
                ukey = ("c20ukey", mod.__name__, k) if truthy else ()
                keys_used[k] = ukey
                self.added_keys.append(ukey)
            kw = dict(serializer=fn(c["ser"]), deserializer=fn(c["deser"]), type_check=fn(c["check"]), fail_already_registered=c["fail"], uniqueness_key=ukey) \
                if c["k"] != "get" else {}
            self.added_handlers.append(cls)
            if c["k"] == "reg":
                try:
                    m.register_type(cls, **kw)
                    res = "ok"
                except ValueError:
                    res = "ValueError"
                except Exception as ex:  # noqa: BLE001
                    res = "Other:" + type(ex).__name__
            elif c["k"] == "pend":
                m.register_type_on_first_use("%s.%s" % (cls.__module__, cls.__qualname__), **kw)
                res = "ok"
            else:
                res = hid(m.get_registered_type(cls))
            obs.append({"res": res, "st": snap()})
        return obs

    def cleanup(self):
        from jsonargparse import typing as m

        for c in self.added_handlers:
            m.registered_type_handlers.pop(c, None)
            m.registration_pending.pop("%s.%s" % (c.__module__, c.__qualname__), None)
        for k in self.added_keys:
            m.registered_types.pop(k, None)
        if self.dir in sys.path:
            sys.path.remove(self.dir)


def gen_reg_history(rng):
    n = rng.choice([1, 2, 2, 3])
    calls = []
    ukeys = 0
    for _ in range(rng.randint(2, 7)):
        k = rng.choice(["reg", "reg", "reg", "pend", "get", "get"])
        c = {"k": k, "cls": rng.randrange(n)}
        if k != "get":
            c.update(ser=rng.randrange(3), deser=3 + rng.randrange(3), check=6 + rng.randrange(2), exc=0, fail=rng.random() < 0.75)
            r = rng.random()
            if r < 0.2:
                ukeys += 1
                c["ukey"] = [ukeys if rng.random() < 0.7 else max(1, ukeys - 1), True]
            elif r < 0.27:
                c["ukey"] = [0, False]
        calls.append(c)
    # the empty-tuple key is one global key: the model's key 0
    return n, calls


def wire_reg_calls(calls):
    out = []
    for c in calls:
        w = dict(c)
        if c.get("ukey") is not None:
            w["ukey"] = [c["ukey"][0], bool(c["ukey"][1])]
        out.append(w)
    return out


def create_history(rng, i):
    """a history of restricted_number_type calls with names private to the history"""
    base = rng.choice(["int", "float"])
    lo = -(300000 + 53 * i)
    atoms = [[s, lo + d] for s in SYMS for d in (0, 1)]
    calls = []
    names = ["C20H%d_%s" % (i, x) for x in "abc"] + ["PositiveInt", "register_type", "Path"]
    for _ in range(rng.randint(2, 6)):
        rs = [list(rng.choice(atoms)) for _ in range(rng.choice([1, 1, 2, 2, 3]))]
        if calls and rng.random() < 0.45:
            prev = rng.choice(calls)
            rs = list(prev["rs"])
            rng.shuffle(rs)
            if rng.random() < 0.25 and base == "float":
                rs = [[s, float(r)] for s, r in rs]
        calls.append({"name": rng.choice(names), "base": base, "join": rng.choice(["and", "and", "or"]), "rs": rs})
    return calls


def run_create_history(calls):
    from jsonargparse import typing as m

    seen = {}
    obs = []
    for c in calls:
        bt = int if c["base"] == "int" else float
        try:
            T = m.restricted_number_type(c["name"], bt, [(s, r) for s, r in c["rs"]], c["join"])
        except ValueError:
            obs.append({"err": "ValueError"})
            continue
        except Exception as ex:  # noqa: BLE001
            obs.append({"err": "Other:" + type(ex).__name__})
            continue
        if id(T) not in seen:
            seen[id(T)] = (len(seen), T)
        obs.append({"id": seen[id(T)][0], "name": T.__name__})
    return obs


def module_names():
    from jsonargparse import typing as m

    return sorted(k for k in vars(m) if not k.startswith("C20"))


def decimal_cases(rng, n):
    from decimal import Decimal as D

    vals = [D("0.5"), D("0.1"), D("0.3"), D("1.10"), D(2 ** 53), D(2 ** 53 + 1), D("1e-400"), D("1e400"), D("-2.25"), D(0), D("5e-324"), D("4.9406564584124654e-324"),
            D("2.4703282292062327e-324"), D("1.7976931348623157e308"), D("1.7976931348623159e308"), D("123456789012345678901234567890.123"), D("-1E-7"), D("9007199254740993")]
    for _ in range(n):
        r = rng.random()
        if r < 0.4:
            vals.append(D(rng.randint(-10 ** 6, 10 ** 6)) / D(2 ** rng.randint(0, 12)))
        elif r < 0.8:
            vals.append(D(rng.randint(-10 ** 9, 10 ** 9)).scaleb(-rng.randint(1, 12)))
        else:
            vals.append(D(rng.randint(0, 10 ** 30)).scaleb(rng.randint(-40, 300)))
    return vals


def decimal_line(d, ser):
    """(driver line, real observation) for one Decimal through the registered serializer"""
    from decimal import Decimal as D

    q = Fraction(d)
    line = {"op": "decimal", "ser": getattr(ser, "__name__", "?"), "d": {"q": [q.numerator, q.denominator]}}
    try:
        f = ser(d)
        back = D(f)
        real = {"r": {"f": "inf" if back > 0 else "-inf"}} if back.is_infinite() else {"r": {"q": [Fraction(back).numerator, Fraction(back).denominator]}}
    except OverflowError:
        real = {"err": "OverflowError"}
    return line, real

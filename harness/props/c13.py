"""C13 — Parameters resolved through **kwargs are exactly those the code accepts.

Programs are spread over 1-3 MODULES (real files importing each other): a body is linked in the globals of the module that
defines it (`link` of lean/Jap/Core/ResolverMod.lean; the harness reads the per-module tables off the imported modules), the same
identifier may denote different callables in different modules, calls may be written `lib.f(**kwargs)`, module constants may have
opposite truth values per module.  The statements of _parameter_resolvers.py that the model transcribes are regenerated into
Gen/ResolverSites.lean (extractor resolver_sites) and pinned by the `tie_*` theorems.

Pipeline: (1) build Props/C13 (theorems over the Lean model lean/Jap/Core/Resolver.lean: the
resolver's algorithm `resolve` and, independently, Python's keyword binding `accepts`);
(2) correspondence, both sides of the iff: generated programs (class hierarchies, call chains,
pop/get (as statements and NESTED INSIDE THE ARGUMENT LIST of the forwarding call: positional slot, keyword
value, inside arithmetic / a call / a list display), hard-coded arguments, constant and non-constant
conditionals, **kwargs kept in an attribute
and forwarded by a method/property, classmethod factories `cls(**kwargs)` asked for on the defining
class, on subclasses that inherit them, through class_from_function and through functions calling
`Sub.factory(**kwargs)`) are WRITTEN TO REAL SOURCE
FILES in a temp package and imported; (a) real `get_signature_parameters` /
`parser.add_*_arguments` vs model `resolve` (names, order, annotation atoms, defaults, kinds,
and the AttributeError fallback), (b) the real INTERPRETER (calling the class / function with each
candidate name) vs model `accepts`; (3) property oracle on the real code, independent of the
model: offered => accepted, accepted => offered, hard-coded not offered, type/default equal to
`inspect.signature` of the callable that binds the name at run time (found by tracing the call);
(4) replay of the open findings.
"""
from __future__ import annotations

import atexit
import importlib
import inspect
import json
import logging
import os
import re
import shutil
import sys
import tempfile

from ..lib.common import Ctx, MachineryError, repo_python_path

MANIFEST = {
    "engine": "E9-Resolver",
    "technique": "Lean 4 proof that the resolver's algorithm equals Python's keyword-binding semantics on a mini language of the documented "
                 "**kwargs forwarding patterns, for programs spread over modules (name resolution per defining module) + two-sided differential "
                 "correspondence (real resolver vs `resolve`, real interpreter vs `accepts`) on generated multi-module source files + the statements "
                 "of the transcribed functions regenerated from the source and pinned by tie theorems",
    "text": "Theorems in lean/Jap/Props/C13.lean prove, for every well-formed program (any hierarchy depth, any MRO linearisation given as input, "
            "any number of modules with their own global tables and constants: C13_exact_modules, whose two extra decidable hypotheses "
            "noForeignTwoArgSuper / noShadowedLocalImport are exactly the complements of the two by-name lookups the resolver does differently from "
            "Python, both transcribed in the model and refuted on witnesses), that the names offered by the model of _parameter_resolvers.py are "
            "exactly the names the model of Python's call binding accepts, that hard-coded arguments are not offered, that every offered parameter "
            "carries the type/default of a definition of the program, that the run-time binder of a name is a definition of the program and equals "
            "the offered parameter for the visited signature (C13_binder_own) and whenever all definitions of the name agree "
            "(C13_type_default_partial), that the globals of a module holding no program text are irrelevant and that the fuel bound suffices; the "
            "model is tied to the code by comparing it with get_signature_parameters/add_class_arguments and with the real interpreter (acceptance "
            "and the traced run-time binder) on generated packages of 1-3 modules written to disk, and by 31 tie_* theorems over the regenerated "
            "statements of the functions it transcribes (Gen/ResolverSites.lean).",
    "level_note": "Trusted: Lean kernel; axioms propext/Quot.sound/Classical.choice only; the generator/renderer of the mini language; the correspondence "
                  "harness (it reads the per-module global tables, like the MROs, off the imported modules). Not proved: type/default agreement for a "
                  "name defined with different signatures at several places of one call chain other than the visited signature (compared on every "
                  "generated program: model binder vs traced interpreter vs offered). Outside the model: patterns not in the grammar (*args "
                  "forwarding, method overriding, two super() calls in one body, dict(p=1, **kwargs) entries on the attribute path, attribute use "
                  "never exercised, `import a.b` packages, identifiers rebound after import, kwargs[n] = v, instances with __call__ and "
                  "functools.partial objects as callees, `d = dict(**kwargs); f(**d)` in a plain function — the resolver does not follow it), "
                  "stubs/pydantic/attrs resolvers, the assumptions fallback.",
}

FIND_GET = "C13-get-forward"
FIND_POPHARD = "C13-pop-hardcoded"
FIND_NOINIT = "C13-inherited-init-positional"
FIND_CRASH = "C13-conditional-first-crash"
FIND_NESTED = "C13-nested-pop-takes-callee-signature"
FIND_SUPER2 = "C13-two-arg-super-foreign-module"
FIND_LOCALIMP = "C13-local-import-shadowed-by-module-global"

NAMES = ["a", "b", "c", "d", "e", "f", "g", "h"]
KWNAMES = ["kwargs", "kw", "options"]       # names of the ** variable; they are also parameter names of other callables
PARAM_NAMES = NAMES + ["kwargs", "kw"]
# module-level constants of the rendered modules: truthy / falsy values of several kinds (None, 0, '' are constants too)
LIVE_TESTS = ["FLAG_T", "not FLAG_F", "FLAG_S", "not FLAG_N", "FLAG_1", "not FLAG_Z", "not FLAG_E"]
DEAD_TESTS = ["FLAG_F", "not FLAG_T", "FLAG_N", "not FLAG_S", "FLAG_Z", "not FLAG_1", "FLAG_E"]
FRESH = "zz_fresh"
TYPES = ["int", "str", "float", "bool", "Optional[int]", "List[int]"]
TYPE_DEFAULTS = {
    "int": [0, 1, 2, 7],
    "str": ["x", "y"],
    "float": [1.0, 2.5],
    "bool": [True, False],
    "Optional[int]": [None, 1],
    "List[int]": [None, [1, 2]],
    None: [0, 1, "x", None],
}
POP_DEFAULTS = [0, 1, 2, 7, "x", "y", True, False, None, 1.0, 2.5, []]
TYPE_ATOMS = {
    "int": ["int"], "str": ["str"], "float": ["float"], "bool": ["bool"],
    "Optional[int]": ["NoneType", "int"], "List[int]": ["List[int]"], None: [],
}
ATOM_VALUE = {"int": 1, "str": "s", "float": 1.5, "bool": True, "NoneType": None, "List[int]": [1]}


# ---------------------------------------------------------------- default values
def dval(v):
    """the model's view of a default value: token, `unique`'s hash class, str()"""
    if isinstance(v, (bool, int, float)):
        key = "h:%d" % hash(v)
    elif isinstance(v, str):
        key = "s:" + v
    elif v is None:
        key = "none"
    else:
        key = "j:" + json.dumps(v, separators=(",", ":"))
    return {"tok": tok(v), "key": key, "str": str(v)}


def tok(v):
    return "%s:%r" % (type(v).__name__, v)


# ---------------------------------------------------------------- generator
def gen_param(rng, name, required_ok, kind):
    ty = rng.choice(TYPES) if rng.random() < 0.9 else None
    if required_ok and rng.random() < 0.3 and ty is not None:
        d = None
    else:
        d = ["v", rng.choice(TYPE_DEFAULTS[ty])]
    return {"name": name, "ty": ty, "dflt": d, "kind": kind}


def gen_params(rng, nmax=3, avoid=()):
    n = rng.choice([0, 1, 1, 2, 2, 3][: nmax + 3])
    pool = [x for x in PARAM_NAMES if x not in avoid]
    names = rng.sample(pool, min(n, len(pool)))
    n_ko = 0
    if names and rng.random() < 0.3:
        n_ko = rng.randint(1, len(names))
    pk, ko = names[: len(names) - n_ko], names[len(names) - n_ko :]
    params = []
    required_ok = True
    for nm in pk:
        p = gen_param(rng, nm, required_ok, "pk")
        if p["dflt"] is not None:
            required_ok = False
        params.append(p)
    for nm in ko:
        params.append(gen_param(rng, nm, True, "ko"))
    return params


def own_named(c):
    return [p["name"] for p in c["params"]]


def lead_pos(c):
    return [p["name"] for p in c["params"] if p["kind"] == "pk"]


def gen_hard(rng, callee_c):
    """hard-coded positionals / keywords that the (statically expected) callee can take"""
    k, given = 0, []
    if callee_c is None:
        return 0, []
    pos = lead_pos(callee_c)
    if pos and rng.random() < 0.3:
        k = rng.randint(1, len(pos))
    rest = [n for n in own_named(callee_c) if n not in pos[:k]]
    if rest and rng.random() < 0.35:
        given = rng.sample(rest, rng.randint(1, min(2, len(rest))))
    return k, given


def static_init(entries, bases_of, idx):
    """the __init__ a class would use when instantiated by itself (generator-side guess for hard-coded arguments)"""
    seen, order = set(), []

    def walk(i):
        if i in seen:
            return
        seen.add(i)
        order.append(i)
        for b in bases_of[i]:
            walk(b)

    walk(idx)
    for i in order:
        if entries[i]["init"] is not None:
            return entries[i]["init"]
    return None


def gen_reads(rng, uses, own, p_get):
    for _ in range(rng.choice([0, 0, 1, 1, 2])):
        nm = rng.choice([x for x in PARAM_NAMES if x not in own] or [FRESH + "2"])
        kind = "get" if rng.random() < p_get else "pop"
        uses.append({"g": "a", "u": {kind: [nm, rng.choice(POP_DEFAULTS)]}})


def ancestors(bases_of, i):
    """the class and everything it inherits from (generator-side, depth first; only used to find visible classmethods)"""
    seen, order = set(), []

    def walk(k):
        if k in seen:
            return
        seen.add(k)
        order.append(k)
        for b in bases_of[k]:
            walk(b)

    walk(i)
    return order


def gen_forward(rng, entries, bases_of, self_idx, where, allow_attr=False):
    """one forwarding use (model JSON shape) or None"""
    cands = []
    fns = [i for i, e in enumerate(entries[:self_idx]) if e["kind"] == "fn"]
    clss = [i for i, e in enumerate(entries[:self_idx]) if e["kind"] == "cls"]
    # classmethods visible on an earlier class: (class asked, defining class, index)
    cms = [(sub, o, j) for sub in clss for o in ancestors(bases_of, sub) for j in range(len(entries[o]["cmeths"]))]
    if where == "init":
        cands += ["super"] * 8
        if entries[self_idx]["meths"]:
            cands += ["self"] * 2
        if allow_attr and (fns or clss):
            cands += ["attr"] * 3
    if where == "cmeth":
        cands += ["cls"] * 8
    if fns:
        cands += ["fn"] * (2 if where in ("init", "cmeth") else 6)
    if clss:
        cands += ["ctor"] * (1 if where in ("init", "cmeth") else 3)
    if cms:
        cands += ["cmethcall"] * (1 if where in ("init", "cmeth") else 3)
    if not cands:
        return None
    kind = rng.choice(cands)
    if kind == "super":
        bases = bases_of[self_idx]
        nxt = None
        for b in bases:
            nxt = static_init(entries, bases_of, b)
            if nxt is not None:
                break
        k, given = gen_hard(rng, nxt)
        frm = None
        if rng.random() < 0.1:
            frm = self_idx
        return {"super": {"frm": frm, "k": k, "given": given}}
    if kind == "self":
        j = rng.randrange(len(entries[self_idx]["meths"]))
        k, given = gen_hard(rng, entries[self_idx]["meths"][j])
        return {"call": {"t": ["self", j], "k": k, "given": given}}
    if kind == "cls":
        k, given = gen_hard(rng, static_init(entries, bases_of, self_idx))
        return {"call": {"t": ["cls"], "k": k, "given": given}}
    if kind == "cmethcall":
        sub, o, j = rng.choice(cms)
        k, given = gen_hard(rng, entries[o]["cmeths"][j])
        return {"call": {"t": ["cmeth", sub, o, j], "k": k, "given": given}}
    if kind == "attr":
        i = rng.choice(fns + clss)
        callee = entries[i]["c"] if entries[i]["kind"] == "fn" else static_init(entries, bases_of, i)
        k, given = gen_hard(rng, callee)
        return {"attr": {"t": ["entry", i], "k": k, "given": given, "via": rng.choice(["method", "property"]),
                         "how": rng.choice(["assign", "assign", "update"])}}
    if kind == "fn":
        i = rng.choice(fns)
        k, given = gen_hard(rng, entries[i]["c"])
        return {"call": {"t": ["entry", i], "k": k, "given": given}}
    i = rng.choice(clss)
    k, given = gen_hard(rng, static_init(entries, bases_of, i))
    return {"call": {"t": ["entry", i], "k": k, "given": given}}


def kwname_of(c):
    return c.get("kwname", "kwargs")


# ---------------------------------------------------------------- programs spread over modules
def pyname(e):
    """the identifier the entry is defined under in ITS module (entries of different modules may share one)"""
    return e.get("pyname", e["name"])


def mod_of(e):
    return e.get("mod", 0)


def n_mods(prog):
    return 1 + max([mod_of(e) for e in prog["entries"]] or [0])


def mod_rec(prog, m):
    ms = prog.get("mods") or []
    return ms[m] if m < len(ms) else {}


def flipped(prog, m):
    """module-level constants of module m have the opposite truth values (FLAG_T = False, ...)"""
    return bool(mod_rec(prog, m).get("flip"))


def style(prog, m, i):
    """how the text of module m reaches entry i defined elsewhere:
    'from'  `from lib import name`            'qual'  `import lib` + `lib.name(**kwargs)`
    'alias' `from lib import name as al<i>`   'local' `from lib import name` as a statement of the calling function's body"""
    r = mod_rec(prog, m)
    for st in ("qual", "alias", "local"):
        if i in (r.get(st) or []):
            return st
    return "from"


def qualified(prog, m, i):
    return style(prog, m, i) == "qual"


def ref(prog, m, i, modnames=None):
    """the expression by which text in module m names entry i"""
    e = prog["entries"][i]
    st = "from" if mod_of(e) == m else style(prog, m, i)
    if st == "qual":
        return "%s.%s" % (modnames[mod_of(e)] if modnames else "M%d" % mod_of(e), pyname(e))
    if st == "alias":
        return "al%d" % i
    return pyname(e)


def symref(prog, m, i):
    """the symbol of that expression for the model (`@M<k>.name`: bound by an import statement inside the function body)"""
    if mod_of(prog["entries"][i]) != m and style(prog, m, i) == "local":
        return "@M%d.%s" % (mod_of(prog["entries"][i]), pyname(prog["entries"][i]))
    return ref(prog, m, i)


def local_imports(prog, m, c, modnames):
    """import statements at the top of the body of a callable of module m"""
    out = []
    for _, i in call_refs(c):
        e = prog["entries"][i]
        if mod_of(e) != m and style(prog, m, i) == "local":
            line = "from %s import %s" % (modnames[mod_of(e)] if modnames else "M%d" % mod_of(e), pyname(e))
            if line not in out:
                out.append(line)
    return out


def entry_callables(e):
    if e["kind"] == "fn":
        return [e["c"]]
    return ([e["init"]] if e["init"] else []) + e["meths"] + e["cmeths"]


def call_refs(c):
    """entries named in the text of a callable: (how, entry)"""
    out = []
    for g in c["uses"] if c["varkw"] else []:
        u = g["u"]
        if "call" in u or "attr" in u:
            t = fwd_part(u)["t"]
            if t[0] == "entry":
                out.append(("call", t[1]))
            elif t[0] == "cmeth":
                out.append(("cmeth", t[1]))
    return out


def module_refs(prog, m):
    """entries defined elsewhere that the text of module m names: {entry: set of how ('base' | 'call' | 'cmeth')}"""
    out = {}
    for e in prog["entries"]:
        if mod_of(e) != m:
            continue
        hows = [("base", b) for b in e.get("bases", [])]
        for c in entry_callables(e):
            hows += call_refs(c)
        for how, i in hows:
            if mod_of(prog["entries"][i]) != m:
                out.setdefault(i, set()).add(how)
    return out


def namespace_ok(prog, allow_shadow=False):
    """every module binds each identifier once (own definitions, `from lib import name [as alias]`, and the names imported inside
    function bodies: a local import never shadows a module global); base classes are not written qualified / imported locally"""
    for m in range(n_mods(prog)):
        names = [pyname(e) for e in prog["entries"] if mod_of(e) == m]
        for i, hows in module_refs(prog, m).items():
            st = style(prog, m, i)
            if st == "qual":
                if hows - {"call"}:
                    return False
            elif st == "local":
                if hows - {"call", "cmeth"}:
                    return False
                if not allow_shadow:
                    names.append(pyname(prog["entries"][i]))
            elif st == "alias":
                names.append("al%d" % i)
            else:
                names.append(pyname(prog["entries"][i]))
        if len(set(names)) != len(names):
            return False
    return True


def binds(prog, m, i):
    """module m binds the identifier of entry i to entry i (defined there, or imported with `from`)"""
    return mod_of(prog["entries"][i]) == m or (i in module_refs(prog, m) and style(prog, m, i) == "from")


def spread_over_modules(rng, prog, knobs):
    """assign the entries to 1-3 modules (contiguous ranges: a module imports only from earlier ones), choose how a
    module names what it imports, flip the constants of some modules, and let some entries take the identifier of an
    entry of an earlier module that their own module does not import (same-named callables in different modules)"""
    es = prog["entries"]
    if len(es) < 2 or rng.random() >= knobs["p_multi"]:
        return prog
    nm = min(len(es), rng.choice([2, 2, 2, 3]))
    cuts = sorted(rng.sample(range(1, len(es)), nm - 1))
    for i, e in enumerate(es):
        e["mod"] = sum(1 for c in cuts if c <= i)
    prog["mods"] = [{"flip": rng.random() < 0.3, "qual": [], "alias": [], "local": []} for _ in range(nm)]
    for m in range(1, nm):
        for i, hows in sorted(module_refs(prog, m).items()):
            r = rng.random()
            if hows == {"call"} and r < 0.2:
                prog["mods"][m]["qual"].append(i)
            elif not (hows - {"call", "cmeth"}) and r < 0.4:
                prog["mods"][m]["local"].append(i)
            elif r > 0.85:
                prog["mods"][m]["alias"].append(i)
    for m in range(1, nm):
        # identifiers that text inherited into / called from this module resolves in ANOTHER module's globals
        inherited = set()
        for e in es:
            if mod_of(e) == m and e["kind"] == "cls":
                for b in ancestors({k: x.get("bases", []) for k, x in enumerate(es)}, es.index(e))[1:]:
                    for c in entry_callables(es[b]):
                        inherited.update(j for _, j in call_refs(c))
        for i, e in enumerate(es):
            if mod_of(e) != m or rng.random() >= knobs["p_samename"]:
                continue
            cands = [j for j, x in enumerate(es) if mod_of(x) < m]
            cands += [j for j in cands if j in inherited] * 4
            rng.shuffle(cands)
            for j in cands[:4]:
                old = e.get("pyname")
                e["pyname"] = pyname(es[j])
                if namespace_ok(prog):
                    break
                if old is None:
                    del e["pyname"]
                else:
                    e["pyname"] = old
    if not namespace_ok(prog):
        raise MachineryError("generator produced a module with a name bound twice")
    return prog


def gen_callable(rng, entries, bases_of, self_idx, where, knobs):
    kwname = rng.choice(["kwargs", "kwargs", "kwargs", "kw", "options"])
    params = gen_params(rng, avoid=(kwname,))
    varkw = rng.random() < (0.8 if where in ("init", "cmeth") else 0.6)
    c = {"params": params, "varkw": varkw, "uses": [], "kwname": kwname}
    if not varkw:
        return c
    own = own_named(c)
    uses = c["uses"]
    gen_reads(rng, uses, own, knobs["p_get"])
    r = rng.random()
    if r < knobs["p_unused"]:
        return c
    if r < knobs["p_unused"] + knobs["p_cond"]:
        nb = rng.choice([2, 2, 3])
        for b in range(nb):
            got = False
            if rng.random() < 0.3:
                nm = rng.choice([x for x in NAMES if x not in own] or [FRESH + "2"])
                uses.append({"g": {"branch": b}, "u": {"pop": [nm, rng.choice(POP_DEFAULTS)]}})
                got = True
            # at most one super call per body and it is the last forwarding call (stale MRO index otherwise)
            fw = gen_forward(rng, entries, bases_of, self_idx, where if b == nb - 1 else ("meth" if where == "init" else where))
            if fw is not None and (rng.random() < 0.85 or not got):
                if rng.random() < knobs["p_nested"]:
                    add_nested(rng, fw, own, knobs["p_get"])
                uses.append({"g": {"branch": b}, "u": fw})
                got = True
            if not got:  # every branch of the chain holds at least one use (an empty branch swallows kwargs)
                uses.append({"g": {"branch": b}, "u": {"pop": [FRESH + "3", 0]}})
        return c
    if r < knobs["p_unused"] + knobs["p_cond"] + knobs["p_const"]:
        live = rng.random() < 0.5
        fw1 = gen_forward(rng, entries, bases_of, self_idx, "meth" if where == "init" else where)
        fw2 = gen_forward(rng, entries, bases_of, self_idx, where)
        t = rng.randrange(len(LIVE_TESTS))
        if fw1 is not None:
            uses.append({"g": {"const": live, "test": t}, "u": fw1})
        if fw2 is not None:
            uses.append({"g": {"const": not live, "test": t}, "u": fw2})
        return c
    fw = gen_forward(rng, entries, bases_of, self_idx, where, allow_attr=True)
    if fw is not None:
        if rng.random() < knobs["p_nested"]:
            add_nested(rng, fw, own, knobs["p_get"])
        uses.append({"g": "a", "u": fw})
        add_noise(rng, c, fw, entries, bases_of, knobs)
    return c


def add_noise(rng, c, fw, entries, bases_of, knobs):
    """`kwargs.setdefault(n, v)` before the single forwarding call, for a name n the statically expected callee takes
    by keyword and the call does not hard-code (else the body could never run): neither consumes nor forwards, the model does not see them"""
    if rng.random() >= knobs.get("p_noise", 0) or "call" not in fw or fw["call"]["t"][0] != "entry":
        return
    i = fw["call"]["t"][1]
    callee = entries[i]["c"] if entries[i]["kind"] == "fn" else static_init(entries, bases_of, i)
    if callee is None:
        return
    h = fw["call"]
    ok = [p for n_, p in enumerate(callee["params"]) if not (p["kind"] == "pk" and n_ < h["k"]) and p["name"] not in h["given"] and p["ty"] is not None]
    if not ok:
        return
    p = rng.choice(ok)
    # (`kwargs[n] = v` is not generated: it DISCARDS the caller's value, so the name is accepted and offered but bound by nobody)
    c["noise"] = [["setdefault", p["name"], ATOM_VALUE[TYPE_ATOMS[p["ty"]][-1]]]]


def valid_bases(bases_of, idx_new, bases):
    """does Python accept this base list (consistent MRO)?  checked with throw-away classes"""
    made = {}
    try:
        for i in sorted(bases_of):
            made[i] = type("D%d" % i, tuple(made[b] for b in bases_of[i]) or (object,), {})
        type("D%d" % idx_new, tuple(made[b] for b in bases), {})
        return True
    except TypeError:
        return False


def gen_program(rng, knobs=None):
    """a random program of the mini language (harness form: the model JSON plus python names/values)"""
    knobs = dict({"p_get": 0.08, "p_unused": 0.04, "p_cond": 0.10, "p_const": 0.08, "p_noinit": 0.2, "p_nested": 0.3, "p_multi": 0.45, "p_samename": 0.35, "p_inst": 0.0, "p_noise": 0.12},
                 **(knobs or {}))
    n_cls = rng.choice([1, 2, 3, 3, 4, 4, 5, 6])
    n_fn = rng.choice([0, 0, 1, 2, 3])
    kinds = ["cls"] * n_cls + ["fn"] * n_fn
    rng.shuffle(kinds)
    entries, bases_of = [], {}
    for idx, kind in enumerate(kinds):
        if kind == "fn":
            e = {"kind": "fn", "name": "f%d" % idx, "c": None}
            entries.append(e)
            e["c"] = gen_callable(rng, entries, bases_of, idx, "fn", knobs)
            if not e["c"]["varkw"] and rng.random() < knobs["p_inst"]:
                # written as an instance of a class with __call__ (for the model: a function).  OFF by default (p_inst = 0): for some
                # signatures (e.g. an un-annotated keyword-only parameter) get_signature_parameters(instance) logs "'_C5' object has no
                # attribute '__name__'" and returns nothing — instances are not among the documented forwarding targets
                e["inst"] = True
            continue
        prev = [i for i in bases_of]
        bases = []
        if prev:
            r = rng.random()
            if r < 0.6:
                bases = [rng.choice(prev[-3:])] if rng.random() < 0.7 else [rng.choice(prev)]
            elif r < 0.9 and len(prev) >= 2:
                for _ in range(6):
                    cand = rng.sample(prev, rng.choice([2, 2, 3]) if len(prev) >= 3 else 2)
                    if valid_bases(bases_of, idx, cand):
                        bases = cand
                        break
        bases_of[idx] = bases
        e = {"kind": "cls", "name": "K%d" % idx, "bases": bases, "init": None, "meths": [], "cmeths": []}
        entries.append(e)
        if rng.random() < 0.25:
            e["meths"].append(gen_callable(rng, entries, bases_of, idx, "meth", knobs))
        if rng.random() >= knobs["p_noinit"] or not bases:
            e["init"] = gen_callable(rng, entries, bases_of, idx, "init", knobs)
        if rng.random() < 0.3:
            e["cmeths"].append(gen_callable(rng, entries, bases_of, idx, "cmeth", knobs))
    return spread_over_modules(rng, {"entries": entries}, knobs)


# ---------------------------------------------------------------- rendering to python source
def lit(v):
    return repr(v)


def render_sig(c, first):
    parts = [first] if first else []
    ko_started = False
    for p in c["params"]:
        if p["kind"] == "ko" and not ko_started:
            parts.append("*")
            ko_started = True
        s = p["name"]
        if p["ty"] is not None:
            s += ": " + p["ty"]
        if p["dflt"] is not None:
            s += (" = " if p["ty"] is not None else "=") + lit(p["dflt"][1])
        parts.append(s)
    if c["varkw"]:
        parts.append("**" + kwname_of(c))
    return ", ".join(parts)


def nested_of(h):
    """reads of kwargs written inside the argument list, in evaluation (= AST) order: positional slots, then keyword slots"""
    ns = h.get("nested") or []
    out = [x for i in range(h["k"]) for x in ns if x["slot"] == ["pos", i]]
    out += [x for g in h["given"] for x in ns if x["slot"] == ["kw", g]]
    return out


def render_read(x, kwn="kwargs"):
    e = "%s.%s(%r, %s)" % (kwn, x["kind"], x["name"], lit(x["dflt"]))
    return {"plain": e, "mul": "(%s * 4)" % e, "str": "str(%s)" % e, "list": "[%s]" % e}[x.get("wrap", "plain")]


def render_args(k, given, nested=None, kwn="kwargs"):
    slot = {tuple(x["slot"]): render_read(x, kwn) for x in (nested or [])}
    return ", ".join([slot.get(("pos", i), "1") for i in range(k)] + ["%s=%s" % (g, slot.get(("kw", g), "1")) for g in given] + ["**" + kwn])


def add_nested(rng, u, own, p_get):
    """fill some hard-coded slots of a forwarding call with kwargs.pop/get expressions"""
    h = fwd_part(u)
    slots = [["pos", i] for i in range(h["k"])] + [["kw", g] for g in h["given"]]
    if not slots or "attr" in u:
        return
    h["nested"] = []
    for sl in rng.sample(slots, rng.choice([1, 1, 2]) if len(slots) > 1 else 1):
        pool = [x for x in NAMES if x not in own] or [FRESH + "4"]
        nm = rng.choice(pool)
        if sl[0] == "kw" and sl[1] not in own and rng.random() < 0.3:
            nm = sl[1]  # the rename-free pass-through f(a=kwargs.pop('a', d), **kwargs)
        d = rng.choice(POP_DEFAULTS)
        wraps = ["plain", "plain", "str", "list"] + (["mul"] if d is not None else [])
        h["nested"].append({"slot": sl, "kind": "get" if rng.random() < p_get else "pop", "name": nm, "dflt": d, "wrap": rng.choice(wraps)})


def fwd_part(u):
    """the {k, given, ...} record of a forwarding use (super / call / attribute use)"""
    return u.get("super") or u.get("call") or u.get("attr")


def callee_expr(prog, t, m=0, modnames=None):
    if t[0] == "entry":
        return ref(prog, m, t[1], modnames)
    if t[0] == "cmeth":
        return "%s.mk%d_%d" % (ref(prog, m, t[1], modnames), t[2], t[3])
    raise MachineryError("no expression for target %r" % (t,))


def render_use(u, prog, self_idx, n, kwn="kwargs", modnames=None):
    m = mod_of(prog["entries"][self_idx])
    if "pop" in u:
        return "v%d = %s.pop(%r, %s)" % (n, kwn, u["pop"][0], lit(u["pop"][1]))
    if "get" in u:
        return "v%d = %s.get(%r, %s)" % (n, kwn, u["get"][0], lit(u["get"][1]))
    if "super" in u:
        s = u["super"]
        sup = "super()" if s["frm"] is None else "super(%s, self)" % ref(prog, m, s["frm"], modnames)
        return "%s.__init__(%s)" % (sup, render_args(s["k"], s["given"], s.get("nested"), kwn))
    if "attr" in u:
        # **kwargs kept in an attribute and forwarded by a method/property, which is exercised right away
        a = u["attr"]
        store = ("self._kw%d = %s" % (self_idx, kwn)) if a["how"] == "assign" else ("self._kw%d = dict()\nself._kw%d.update(**%s)" % (self_idx, self_idx, kwn))
        return store + ("\nself.use%d()" % self_idx if a["via"] == "method" else "\nv%d = self.use%d" % (n, self_idx))
    c = u["call"]
    t = c["t"]
    if t[0] in ("entry", "cmeth"):
        return "%s(%s)" % (callee_expr(prog, t, m, modnames), render_args(c["k"], c["given"], c.get("nested"), kwn))
    if t[0] == "self":
        return "self.m%d_%d(%s)" % (self_idx, t[1], render_args(c["k"], c["given"], c.get("nested"), kwn))
    return "return cls(%s)" % render_args(c["k"], c["given"], c.get("nested"), kwn)


def attr_use_of(c):
    for g in (c["uses"] if c and c["varkw"] else []):
        if "attr" in g["u"]:
            return g["u"]["attr"]
    return None


def render_body(c, prog, self_idx, tag, ind, modnames=None):
    kwn = kwname_of(c)
    flip = flipped(prog, mod_of(prog["entries"][self_idx]))
    out = [ind + ("_T(%r, locals(), %r)" % (tag, kwn) if c["varkw"] else "_T(%r, locals())" % tag)]
    out += [ind + l for l in local_imports(prog, mod_of(prog["entries"][self_idx]), c, modnames) if not attr_use_of(c)]
    for kind, nm, v in (c.get("noise") or []) if c["varkw"] else []:
        out.append(ind + ("%s.setdefault(%r, %s)" % (kwn, nm, lit(v)) if kind == "setdefault" else "%s[%r] = %s" % (kwn, nm, lit(v))))
    uses = c["uses"] if c["varkw"] else []
    i, n = 0, 0
    branch_ids = sorted({g["g"]["branch"] for g in uses if isinstance(g["g"], dict) and "branch" in g["g"]})
    while i < len(uses):
        g = uses[i]
        if g["g"] == "a":
            out.extend(ind + l for l in render_use(g["u"], prog, self_idx, n, kwn, modnames).split("\n"))
            i += 1
            n += 1
        elif "const" in g["g"]:
            live = g["g"]["const"]
            nxt = uses[i + 1] if i + 1 < len(uses) else None
            ti = g["g"].get("test", n + len(tag)) % len(LIVE_TESTS)
            test = LIVE_TESTS[ti] if live != flip else DEAD_TESTS[ti]  # (the truth values of a flipped module are the opposite ones)
            out.append(ind + "if %s:" % test)
            out.append(ind + "    " + render_use(g["u"], prog, self_idx, n, kwn, modnames))
            n += 1
            i += 1
            if nxt is not None and isinstance(nxt["g"], dict) and nxt["g"].get("const") == (not live):
                out.append(ind + "else:")
                out.append(ind + "    " + render_use(nxt["u"], prog, self_idx, n, kwn, modnames))
                n += 1
                i += 1
        else:
            # the one if/elif/else chain: all branch-guarded uses are contiguous, grouped by branch id
            for pos, b in enumerate(branch_ids):
                head = "if _SEL.get(%r, 0) == %d:" % (tag, b) if pos == 0 else ("else:" if pos == len(branch_ids) - 1 else "elif _SEL.get(%r, 0) == %d:" % (tag, b))
                out.append(ind + head)
                stm = [x for x in uses[i:] if isinstance(x["g"], dict) and x["g"].get("branch") == b]
                for x in stm:
                    out.append(ind + "    " + render_use(x["u"], prog, self_idx, n, kwn, modnames))
                    n += 1
                if not stm:
                    out.append(ind + "    pass")
            while i < len(uses) and isinstance(uses[i]["g"], dict) and "branch" in uses[i]["g"]:
                i += 1
    return out


FLAG_LINES = ["FLAG_T = True", "FLAG_F = False", "FLAG_N = None", "FLAG_Z = 0", "FLAG_E = ''", "FLAG_S = 'yes'", "FLAG_1 = 1"]
FLAG_LINES_FLIPPED = ["FLAG_T = False", "FLAG_F = True", "FLAG_N = 'n'", "FLAG_Z = 3", "FLAG_E = 'e'", "FLAG_S = ''", "FLAG_1 = 0"]


def render_module(prog, m, modnames):
    """source text of module m of the program"""
    out = ["from typing import List, Optional"]
    if m == 0:
        out += ["", "_SEL = {}", "_TRACE = []", "_SENT = ['probe']", "", "",
                "def _T(tag, loc, kwn=None):", "    kw = loc.get(kwn) if kwn else None",
                "    _TRACE.append((tag, None if kw is None else sorted(kw), sorted(k for k, v in loc.items() if v is _SENT),",
                "                   [] if kw is None else sorted(k for k, v in kw.items() if v is _SENT)))", "", ""]
    else:
        out.append("from %s import _SEL, _TRACE, _SENT, _T" % modnames[0])
        refs = module_refs(prog, m)
        for lib in sorted({mod_of(prog["entries"][i]) for i in refs if qualified(prog, m, i)}):
            out.append("import %s" % modnames[lib])
        for i in sorted(refs):
            st = style(prog, m, i)
            if st in ("from", "alias"):
                out.append("from %s import %s%s" % (modnames[mod_of(prog["entries"][i])], pyname(prog["entries"][i]), " as al%d" % i if st == "alias" else ""))
        out.append("")
    out += (FLAG_LINES_FLIPPED if flipped(prog, m) else FLAG_LINES) + ["", ""]
    for idx, e in enumerate(prog["entries"]):
        if mod_of(e) != m:
            continue
        if e["kind"] == "fn" and e.get("inst"):
            out.append("class _C%d:" % idx)
            out.append("    def __call__(%s):" % render_sig(e["c"], "self"))
            out.extend(render_body(e["c"], prog, idx, e["name"], "        ", modnames))
            out += ["", "", "%s = _C%d()" % (pyname(e), idx), "", ""]
            continue
        if e["kind"] == "fn":
            out.append("def %s(%s):" % (pyname(e), render_sig(e["c"], None)))
            out.extend(render_body(e["c"], prog, idx, e["name"], "    ", modnames))
            out += ["", ""]
            continue
        bases = ", ".join(ref(prog, m, b, modnames) for b in e["bases"])
        out.append("class %s%s:" % (pyname(e), "(%s)" % bases if bases else ""))
        empty = True
        if e["init"] is not None:
            out.append("    def __init__(%s):" % render_sig(e["init"], "self"))
            out.extend(render_body(e["init"], prog, idx, e["name"] + ".__init__", "        ", modnames))
            out.append("")
            empty = False
        for j, mm in enumerate(e["meths"]):
            out.append("    def m%d_%d(%s):" % (idx, j, render_sig(mm, "self")))
            out.extend(render_body(mm, prog, idx, "%s.m%d_%d" % (e["name"], idx, j), "        ", modnames))
            out.append("")
            empty = False
        for j, mm in enumerate(e["cmeths"]):
            out.append("    @classmethod")
            out.append("    def mk%d_%d(%s):" % (idx, j, render_sig(mm, "cls")))
            out.extend(render_body(mm, prog, idx, "%s.mk%d_%d" % (e["name"], idx, j), "        ", modnames))
            out.append("")
            empty = False
        au = attr_use_of(e["init"])
        if au is not None:
            if au["via"] == "property":
                out.append("    @property")
            out.append("    def use%d(self):" % idx)
            out.append("        _T(%r, locals())" % ("%s.use%d" % (e["name"], idx)))
            out.extend("        " + l for l in local_imports(prog, m, e["init"], modnames))
            out.append("        return %s(%s)" % (callee_expr(prog, au["t"], m, modnames), render_args(au["k"], au["given"], None, "self._kw%d" % idx)))
            out.append("")
        if empty:
            out.append("    pass")
            out.append("")
        out.append("")
    return "\n".join(out)


def render(prog, modnames=None):
    """the program text, all modules (for reports and replay files; module files are called M0, M1, ... there)"""
    nm = n_mods(prog)
    modnames = modnames or ["M%d" % m for m in range(nm)]
    if nm == 1:
        return render_module(prog, 0, modnames)
    return "\n".join("# ==================== module %s ====================\n%s" % (modnames[m], render_module(prog, m, modnames)) for m in range(nm))


# ---------------------------------------------------------------- temp package
_PKG = {"dir": None, "n": 0}
_BINDER = {"compared": 0}


def pkg_dir():
    if _PKG["dir"] is None:
        d = tempfile.mkdtemp(prefix="c13pkg_")
        _PKG["dir"] = d
        sys.path.insert(0, d)
        atexit.register(lambda: shutil.rmtree(d, ignore_errors=True))
    return _PKG["dir"]


class ModSet:
    """the imported modules of one program (module 0 owns the trace / branch-selection state, the others import it)"""

    def __init__(self, base, mods):
        self.__name__ = base
        self.mods = mods
        self._TRACE, self._SEL, self._SENT = mods[0]._TRACE, mods[0]._SEL, mods[0]._SENT


def load(prog):
    """write the program to real module files (one per module of the program) and import them"""
    d = pkg_dir()
    _PKG["n"] += 1
    base = "c13m_%d_%d" % (os.getpid(), _PKG["n"])
    modnames = ["%s_%d" % (base, m) if m else base for m in range(n_mods(prog))]
    for m, name in enumerate(modnames):
        with open(os.path.join(d, name + ".py"), "w") as f:
            f.write(render_module(prog, m, modnames))
    importlib.invalidate_caches()
    try:
        return ModSet(base, [importlib.import_module(name) for name in modnames])
    except Exception as ex:  # noqa: BLE001
        for name in modnames:
            sys.modules.pop(name, None)
        raise MachineryError("generated module does not import: %r\n%s" % (ex, render(prog)))


def unload(mod):
    for m in mod.mods:
        sys.modules.pop(m.__name__, None)
        try:
            os.unlink(m.__file__)
        except OSError:
            pass


def entry_obj(prog, mod, i):
    e = prog["entries"][i]
    return getattr(mod.mods[mod_of(e)], pyname(e))


def real_mro(prog, mod, idx):
    cls = entry_obj(prog, mod, idx)
    by_obj = {id(entry_obj(prog, mod, i)): i for i, e in enumerate(prog["entries"]) if e["kind"] == "cls"}
    return [by_obj[id(c)] for c in cls.__mro__[1:] if c is not object]


def real_globals(prog, mod, syms):
    """per module: which identifier (as written: `name` or `M<k>.name`) is bound to which entry — read off the imported modules"""
    by_obj = {id(entry_obj(prog, mod, i)): i for i in range(len(prog["entries"]))}
    out = []
    for m in range(n_mods(prog)):
        tbl = []
        for s, k in sorted(syms.items(), key=lambda x: x[1]):
            if s.startswith("@"):  # bound by an import statement in a function body, not by any module (`localImp` of the model)
                continue
            obj = mod.mods[m]
            for part in s.split("."):
                obj = getattr(obj, mod.mods[int(part[1:])].__name__ if re.fullmatch(r"M\d+", part) else part, None)
            if obj is not None and id(obj) in by_obj:
                tbl.append([k, by_obj[id(obj)]])
        out.append(tbl)
    return out


# ---------------------------------------------------------------- model JSON
def m_callable(c, vis=None, rf=None, flip=False):
    return {
        "params": [{"name": p["name"], "ty": TYPE_ATOMS[p["ty"]], "dflt": None if p["dflt"] is None else dval(p["dflt"][1]), "kind": p["kind"]}
                   for p in c["params"]],
        "varkw": c["varkw"],
        # a pop nested in an argument list is `popin` right after its call (AST-visit order); a nested get is a plain get there
        "uses": [{"g": m_guard(g["g"], flip), "u": v} for g in c["uses"] for v in m_uses(g["u"], vis, rf)],
    }


def m_guard(g, flip):
    """the source program says how the constant test reads in a module with the usual truth values (`link` applies the module's flip)"""
    if isinstance(g, dict) and "const" in g:
        return {"const": g["const"] != flip}
    return g


def m_uses(u, vis=None, rf=None):
    out = [m_use(u, vis, rf)]
    if not ("pop" in u or "get" in u):
        for x in nested_of(fwd_part(u)):
            out.append({("popin" if x["kind"] == "pop" else "get"): [x["name"], dval(x["dflt"])]})
    return out


def m_use(u, vis=None, rf=None):
    """targets that the text NAMES (`["entry", s]`, `["attr", s]`, `["cmeth", s, j]`) carry the symbol of the identifier written"""
    rf = rf or (lambda i: i)
    if "pop" in u:
        return {"pop": [u["pop"][0], dval(u["pop"][1])]}
    if "get" in u:
        return {"get": [u["get"][0], dval(u["get"][1])]}
    if "attr" in u:
        # the model's `Target.attrEntry`: same callee, but the call does not feed the shared `removed` set
        a = u["attr"]
        return {"call": {"t": ["attr", rf(a["t"][1])], "k": a["k"], "given": a["given"]}}
    if "call" in u and u["call"]["t"][0] == "cmeth":
        c = u["call"]
        sub, o, j = c["t"][1:]
        return {"call": {"t": ["cmeth", rf(sub), vis(sub).index((o, j))], "k": c["k"], "given": c["given"]}}
    if "super" in u:
        return {"super": {"frm": u["super"]["frm"], "k": u["super"]["k"], "given": u["super"]["given"]}}
    t = u["call"]["t"]
    return {"call": {"t": ["entry", rf(t[1])] if t[0] == "entry" else t, "k": u["call"]["k"], "given": u["call"]["given"]}}


def visible_cmeths(prog, mros, sub):
    """classmethods a class offers (attribute lookup along its MRO): [(defining class, index)]"""
    return [(o, j) for o in [sub] + mros[sub] for j in range(len(prog["entries"][o]["cmeths"]))]


def model_supported(prog):
    """every shape the generator emits has a constructor in the Lean model"""
    return True


def to_model(prog, mros, mod):
    """the model's view (`MProg` of Core/ResolverMod.lean): the text with SYMBOLS for the callables it names, the defining module
    of every entry, per module the global table (read off the imported modules) and its constant polarity; a class lists every
    classmethod it offers, inherited ones included, with the class that defines each (the lookup is an input, like the MRO)"""
    def vis(sub):
        return visible_cmeths(prog, mros, sub)

    syms = {}
    for e in prog["entries"]:  # the identifiers themselves (`__name__`s; what a module binds under them)
        syms.setdefault(pyname(e), len(syms))
    local_imp = {}

    def sym_for(m, i):
        s = symref(prog, m, i)
        k = syms.setdefault(s, len(syms))
        if s.startswith("@"):  # bound by an import statement inside the body: (library module, identifier)
            local_imp[k] = [mod_of(prog["entries"][i]), syms[pyname(prog["entries"][i])]]
        return k

    def mc(c, m):
        return m_callable(c, vis, lambda i: sym_for(m, i), flipped(prog, m))

    es, cm_def = [], []
    for i, e in enumerate(prog["entries"]):
        m = mod_of(e)
        if e["kind"] == "fn":
            es.append({"fn": mc(e["c"], m)})
            cm_def.append([])
        else:
            es.append({"cls": {"init": None if e["init"] is None else mc(e["init"], m), "mro": mros[i],
                               "meths": [mc(x, m) for x in e["meths"]],
                               "cmeths": [mc(prog["entries"][o]["cmeths"][j], mod_of(prog["entries"][o])) for o, j in vis(i)]}})
            cm_def.append([o for o, _ in vis(i)])
    tables = real_globals(prog, mod, syms)
    return {"entries": es, "modOf": [mod_of(e) for e in prog["entries"]], "cmDef": cm_def,
            "nameSym": [syms[pyname(e)] for e in prog["entries"]], "localImp": [[k, v] for k, v in sorted(local_imp.items())],
            "mods": [{"globals": tables[m], "flip": flipped(prog, m)} for m in range(n_mods(prog))]}


def model_query(prog, mros, q):
    if q[0] == "entry":
        return q
    return ["cmeth", q[1], visible_cmeths(prog, mros, q[1]).index((q[2], q[3]))]


def queries_of(prog, mros):
    """every function, every class, every classmethod on every class that offers it (also by inheritance)"""
    qs = []
    for i, e in enumerate(prog["entries"]):
        qs.append(["entry", i])
        if e["kind"] == "cls":
            for o, j in visible_cmeths(prog, mros, i):
                qs.append(["cmeth", i, o, j])
    return qs


def top_callable(prog, q):
    """the callable whose body the resolver visits first for a query (None: class without own __init__)"""
    e = prog["entries"][q[1]]
    if q[0] == "cmeth":
        return prog["entries"][q[2]]["cmeths"][q[3]]
    return e["c"] if e["kind"] == "fn" else e["init"]


def universe(prog):
    ns = set([FRESH])

    def of(c):
        for p in c["params"]:
            ns.add(p["name"])
        for g in c["uses"]:
            u = g["u"]
            if "pop" in u:
                ns.add(u["pop"][0])
            elif "get" in u:
                ns.add(u["get"][0])
            else:
                ns.update(fwd_part(u)["given"])
                ns.update(x["name"] for x in nested_of(fwd_part(u)))

    for e in prog["entries"]:
        if e["kind"] == "fn":
            of(e["c"])
        else:
            for c in ([e["init"]] if e["init"] else []) + e["meths"] + e["cmeths"]:
                of(c)
    return sorted(ns)


# ---------------------------------------------------------------- real resolver
class _ListHandler(logging.Handler):
    def __init__(self):
        super().__init__(level=logging.DEBUG)
        self.msgs = []

    def emit(self, record):
        try:
            self.msgs.append(record.getMessage())
        except Exception:  # noqa: BLE001
            self.msgs.append(str(record.msg))


def atoms_of(ann):
    import typing

    if ann is inspect.Parameter.empty:
        return []
    if typing.get_origin(ann) is typing.Union:
        out = set()
        for a in typing.get_args(ann):
            out.update(atoms_of(a))
        return sorted(out)
    if isinstance(ann, type):
        return [ann.__name__]
    return [str(ann).replace("typing.", "")]


def dflt_tok(d):
    if d is inspect.Parameter.empty:
        return None
    if type(d).__name__ == "ConditionalDefault":
        return "cond:" + str(d)
    if type(d).__name__ == "UnknownDefault":
        return "unknown:" + str(d)
    return tok(d)


def target_of(prog, mod, q):
    obj = entry_obj(prog, mod, q[1])
    if q[0] == "entry":
        return obj, None
    return obj, "mk%d_%d" % (q[2], q[3])


def real_resolve(prog, mod, q):
    """(params as canonical tuples, AST resolver crashed with the tuple-origin AttributeError, raw ParamData list)"""
    from jsonargparse._parameter_resolvers import get_signature_parameters

    obj, meth = target_of(prog, mod, q)
    lg = logging.getLogger("c13.%s" % mod.__name__)
    lg.setLevel(logging.DEBUG)
    lg.propagate = False
    h = _ListHandler()
    lg.handlers = [h]
    ps = get_signature_parameters(obj, meth, logger=lg)
    out = []
    for p in ps:
        kind = {"POSITIONAL_OR_KEYWORD": "pk", "KEYWORD_ONLY": "ko"}.get(p.kind.name if p.kind is not None else "", str(p.kind))
        out.append({"name": p.name, "ty": atoms_of(p.annotation), "dflt": dflt_tok(p.default), "kind": kind})
    crashed = any("has no attribute 'startswith'" in m for m in h.msgs)
    failed = [m for m in h.msgs if "failed:" in m]
    return out, crashed, failed


def model_params(res):
    out = []
    for p in res["params"]:
        d = p["dflt"]
        if d is None:
            t = None
        elif "tok" in d:
            t = d["tok"]
        else:
            t = "cond:Conditional<ast-resolver> " + d["cond"]
        out.append({"name": p["name"], "ty": sorted(p["ty"]), "dflt": t, "kind": p["kind"]})
    return out


# ---------------------------------------------------------------- real interpreter
REJECT_RE = re.compile(r"unexpected keyword argument|multiple values for|takes no arguments|takes exactly one argument|takes no keyword arguments")
MISSING_RE = re.compile(r"missing \d+ required (?:positional|keyword-only) arguments?: (.*)$")


def tagged_callables(prog):
    out = []
    for idx, e in enumerate(prog["entries"]):
        if e["kind"] == "fn":
            out.append((e["name"], e["c"]))
        else:
            if e["init"]:
                out.append((e["name"] + ".__init__", e["init"]))
            out.extend(("%s.m%d_%d" % (e["name"], idx, j), m) for j, m in enumerate(e["meths"]))
            out.extend(("%s.mk%d_%d" % (e["name"], idx, j), m) for j, m in enumerate(e["cmeths"]))
    return out


def selections(prog, cap=36):
    """assignments {callable tag: branch id} of the if-chains, every callable independently; (list, complete?)"""
    import itertools

    axes = []
    for tag, c in tagged_callables(prog):
        ids = sorted({g["g"]["branch"] for g in c["uses"] if c["varkw"] and isinstance(g["g"], dict) and "branch" in g["g"]})
        if len(ids) > 1:
            axes.append([(tag, i) for i in ids])
    total = 1
    for a in axes:
        total *= len(a)
    if total <= cap:
        return [dict(combo) for combo in itertools.product(*axes)], True
    out = []
    for k in range(cap):  # deterministic spread
        out.append({a[0][0]: a[(k // (1 + n)) % len(a)][1] if n else a[k % len(a)][1] for n, a in enumerate(axes)})
    return out, False


def all_callables(prog):
    out = []
    for e in prog["entries"]:
        if e["kind"] == "fn":
            out.append(e["c"])
        else:
            out.extend(([e["init"]] if e["init"] else []) + e["meths"] + e["cmeths"])
    return out


def call_target(prog, mod, q, kwargs):
    obj, meth = target_of(prog, mod, q)
    del mod._TRACE[:]
    if meth:
        return getattr(obj, meth)(**kwargs)
    return obj(**kwargs)


def classify(prog, mod, q, kwargs):
    """'ok' | 'reject' (unexpected keyword / multiple values / object() takes no arguments) | ('missing', names) | ('other', msg)"""
    try:
        call_target(prog, mod, q, kwargs)
        return "ok"
    except TypeError as ex:
        msg = str(ex)
        if REJECT_RE.search(msg):
            return "reject"
        m = MISSING_RE.search(msg)
        if m:
            return ("missing", re.findall(r"'(\w+)'", m.group(1)))
        return ("other", msg)
    except RecursionError:
        return ("other", "recursion")


def find_base(prog, mod, q):
    """smallest set of required arguments found by asking the interpreter; None = not instantiable"""
    base = {}
    for _ in range(12):
        r = classify(prog, mod, q, base)
        if r == "ok":
            return base
        if isinstance(r, tuple) and r[0] == "missing":
            for n in r[1]:
                base[n] = 1
            continue
        return None
    return None


def interp(prog, mod, q, names):
    """per selection of the if-chains: base arguments and the accepted names.  Returns
    {"complete": bool, "sels": [None | {"sel":…, "base":[...], "acc":{name:bool|None}, "trace":{name:[(tag, kwargs keys)]}}]}"""
    sels, complete = selections(prog)
    out = []
    for sel in sels:
        mod._SEL.clear()
        mod._SEL.update(sel)
        base = find_base(prog, mod, q)
        if base is None:
            out.append(None)
            continue
        acc, traces = {}, {}
        for n in names:
            if n in base:
                acc[n] = True
                call_target(prog, mod, q, dict(base, **{n: mod._SENT}))
                traces[n] = list(mod._TRACE)
                continue
            r = classify(prog, mod, q, dict(base, **{n: mod._SENT}))
            acc[n] = r == "ok"
            if r == "ok":
                traces[n] = list(mod._TRACE)
            elif r != "reject":
                acc[n] = None  # an error of another kind: not an observation about n
        out.append({"sel": sel, "base": sorted(base), "acc": acc, "trace": traces})
    mod._SEL.clear()
    return {"complete": complete, "sels": out}


def interp_accepts(obs, n):
    """accepted under some selection; None when that cannot be decided by the calls made"""
    vals = [o["acc"].get(n) for o in obs["sels"] if o is not None]
    if any(v is True for v in vals):
        return True
    if not vals or not obs["complete"] or any(v is None for v in vals) or any(o is None for o in obs["sels"]):
        return None  # a branch that cannot be executed at all (e.g. its callee misses a required argument) says nothing
    return False


# ---------------------------------------------------------------- static facts about the program text (for finding signatures)
def expand_nested(u):
    """a forwarding use followed by the reads nested in its argument list, as pseudo pop/get uses (AST-visit order)"""
    if "pop" in u or "get" in u:
        return [u]
    return [u] + [{x["kind"]: [x["name"], x["dflt"]], "nested": True} for x in nested_of(fwd_part(u))]


def live_uses(c):
    if not c["varkw"]:
        return []
    return [v for g in c["uses"] if not (isinstance(g["g"], dict) and g["g"].get("const") is False) for v in expand_nested(g["u"])]


def is_forward(u):
    return "super" in u or "call" in u or "attr" in u


def fwd_given(u):
    return fwd_part(u)["given"]


def reach(prog, mros, q):
    """callables statically reachable from a query: list of (tag, callable, as_root_class_idx or None)"""
    seen, out = set(), []

    def visit_callable(tag, c, owner):
        if (tag, owner) in seen:
            return
        seen.add((tag, owner))
        out.append((tag, c, owner))
        for u in live_uses(c):
            t = fwd_part(u)["t"] if ("call" in u or "attr" in u) else None
            if t is None:
                continue
            if t[0] == "entry":
                visit_entry(t[1])
            elif t[0] == "self":
                e = prog["entries"][owner]
                visit_callable("%s.m%d_%d" % (e["name"], owner, t[1]), e["meths"][t[1]], owner)
            elif t[0] == "cmeth":
                visit_callable("%s.mk%d_%d" % (prog["entries"][t[2]]["name"], t[2], t[3]), prog["entries"][t[2]]["cmeths"][t[3]], t[1])
            else:
                visit_entry(owner)

    def visit_entry(i):
        e = prog["entries"][i]
        if e["kind"] == "fn":
            visit_callable(e["name"], e["c"], None)
            return
        if ("root", i) not in seen:
            seen.add(("root", i))
            out.append((("root", i), None, i))
        for k in [i] + mros[i]:
            ek = prog["entries"][k]
            if ek["init"] is not None:
                visit_callable(ek["name"] + ".__init__", ek["init"], k)

    if q[0] == "entry":
        visit_entry(q[1])
    else:
        e = prog["entries"][q[2]]
        visit_callable("%s.mk%d_%d" % (e["name"], q[2], q[3]), e["cmeths"][q[3]], q[1])
    return out


def sig_get_forward(prog, mros, q, n):
    for _, c, _ in reach(prog, mros, q):
        if c is None:
            continue
        us = live_uses(c)
        if any("get" in u and u["get"][0] == n for u in us) and any(is_forward(u) for u in us):
            return True
    return False


def sig_pop_hardcoded(prog, mros, q, n):
    for _, c, _ in reach(prog, mros, q):
        if c is None:
            continue
        us = live_uses(c)
        fw = [u for u in us if is_forward(u)]
        if any(n in fwd_given(u) for u in fw) and (len(fw) > 1 or any(("pop" in u and u["pop"][0] == n) or ("get" in u and u["get"][0] == n) for u in us)):
            return True
    return False


def sig_noinit_positional(prog, mros, q):
    for tag, c, i in reach(prog, mros, q):
        if c is not None or prog["entries"][i]["init"] is not None:
            continue
        for k in mros[i]:
            d = prog["entries"][k]["init"]
            if d is not None:
                for u in live_uses(d):
                    if "super" in u and u["super"]["k"] > len(d["params"]):
                        return True
                break
    return False


def sig_super2_foreign(prog, mros, q):
    """a class WITHOUT own __init__ (asked, or built by a forwarding call) inherits an __init__ that forwards with
    `super(X, self)`, and the module of that class does not bind the identifier X to the class X: the resolver looks X up
    by name in the module of the class it was asked for (`ast_is_supported_super_call`: `inspect.getmodule(classes[idx])`)"""
    for tag, c, i in reach(prog, mros, q):
        if c is not None or prog["entries"][i]["init"] is not None:
            continue
        for k in mros[i]:
            d = prog["entries"][k]["init"]
            if d is not None:
                for u in live_uses(d):
                    if "super" in u and u["super"]["frm"] is not None and not binds(prog, mod_of(prog["entries"][i]), u["super"]["frm"]):
                        return True
                break
    return False


def sig_local_import_shadowed(prog, mros, q):
    """a reachable callable imports its callee INSIDE its body (`from lib import f`) while its module also binds the identifier f
    globally to another object: Python calls the imported one, `get_node_component` tries `hasattr(module, 'f')` first"""
    by_name = {e["name"]: e for e in prog["entries"]}
    for tag, c, _ in reach(prog, mros, q):
        if c is None or not isinstance(tag, str):
            continue
        m = mod_of(by_name[tag.split(".")[0]])
        for _, i in call_refs(c):
            e = prog["entries"][i]
            if mod_of(e) != m and style(prog, m, i) == "local":
                bound = [x for x in prog["entries"] if mod_of(x) == m and pyname(x) == pyname(e)]
                bound += [prog["entries"][j] for j in module_refs(prog, m) if j != i and style(prog, m, j) == "from" and pyname(prog["entries"][j]) == pyname(e)]
                if bound:
                    return True
    return False


def outside_model(prog, mros, q):
    """queries on which the resolver's by-name lookups differ from Python's (open findings; transcribed by `linkS` of the model,
    excluded from C13_exact_modules by `noForeignTwoArgSuper` / `noShadowedLocalImport`; counted in the evidence)"""
    return sig_super2_foreign(prog, mros, q) or sig_local_import_shadowed(prog, mros, q)


def func_of(prog, mod, tag):
    parts = tag.split(".")
    obj = entry_obj(prog, mod, [e["name"] for e in prog["entries"]].index(parts[0]))
    for part in parts[1:]:
        obj = inspect.getattr_static(obj, part) if inspect.isclass(obj) else getattr(obj, part)
    if isinstance(obj, classmethod):
        obj = obj.__func__
    return obj


def callable_of(prog, tag):
    for t, c in tagged_callables(prog):
        if t == tag:
            return c
    return None


def executed_uses(c, tag, sel):
    """the uses (nested reads expanded) that run when the if-chain of `tag` takes the branch chosen by `sel`"""
    if not c["varkw"]:
        return []
    ids = sorted({g["g"]["branch"] for g in c["uses"] if isinstance(g["g"], dict) and "branch" in g["g"]})
    chosen = sel.get(tag, 0)
    taken = (chosen if chosen in ids[:-1] else ids[-1]) if ids else None
    out = []
    for g in c["uses"]:
        gd = g["g"]
        if gd == "a" or (isinstance(gd, dict) and (gd.get("const") is True or ("branch" in gd and gd["branch"] == taken))):
            out.extend(expand_nested(g["u"]))
    return out


def origin_of(prog, mod, n, trace, sel=None):
    """who binds the probed argument `n` in this traced call: expected (atoms, default token) or None (swallowed).
    The binder is the first callable that receives `n` BY KEYWORD: a callable that pops `n` (as a statement or inside
    the argument list of its forwarding call) consumes it — what the callee then holds under that name came through
    an explicit argument, and the definition the user's value answers to is the pop."""
    holder = None

    def read_in(tag, kinds):
        for u in executed_uses(callable_of(prog, tag), tag, sel or {}):
            for kind in kinds:
                if kind in u and u[kind][0] == n:
                    return {"by": tag + ":" + kind, "ty": [], "dflt": tok(u[kind][1]), "nested": bool(u.get("nested"))}
        return None

    for tag, _kw, bound, kwsent in trace:
        if n in kwsent:
            holder = tag
            if callable_of(prog, tag) is not None:
                popped = read_in(tag, ("pop",))
                if popped is not None:
                    return popped  # consumed here; whatever travels on under that name is an explicit argument
            continue
        if n in bound:
            p = inspect.signature(func_of(prog, mod, tag)).parameters[n]
            return {"by": tag, "ty": atoms_of(p.annotation), "dflt": dflt_tok(p.default)}
    if holder is None or callable_of(prog, holder) is None:
        return None
    return read_in(holder, ("get",))


# ---------------------------------------------------------------- the property on the real code
def judge(prog, mod, mros, q, names=None):
    """evaluate C13 on the real resolver + real interpreter for one query.
    Returns list of deviations {"kind", "name", "finding": id or None, "detail"}; and stats"""
    names = names or universe(prog)
    real, crashed, _failed = real_resolve(prog, mod, q)
    offered = [p["name"] for p in real]
    obs = interp(prog, mod, q, names)
    devs = []
    stats = {"instantiable": any(o is not None for o in obs["sels"]), "offered": len(offered), "crashed": crashed}
    if not stats["instantiable"]:
        return devs, stats, real

    def classify_missing(n):
        if crashed:
            return FIND_CRASH
        if sig_pop_hardcoded(prog, mros, q, n):
            return FIND_POPHARD
        if sig_noinit_positional(prog, mros, q):
            return FIND_NOINIT
        if sig_super2_foreign(prog, mros, q):
            return FIND_SUPER2
        if sig_local_import_shadowed(prog, mros, q):
            return FIND_LOCALIMP
        return None

    def classify_spurious(n):
        if sig_get_forward(prog, mros, q, n):
            return FIND_GET
        if crashed:
            return FIND_CRASH
        if sig_local_import_shadowed(prog, mros, q):
            return FIND_LOCALIMP
        return None

    for n in names:
        ia = interp_accepts(obs, n)
        if n in offered and ia is False:
            devs.append({"kind": "offered-not-accepted", "name": n, "finding": classify_spurious(n),
                         "detail": "passing %s= raises unexpected keyword / multiple values in every branch" % n})
        if n not in offered and n != FRESH:
            strict = any(o is not None and o["acc"].get(n) is True and o["acc"].get(FRESH) is False for o in obs["sels"])
            if strict:
                devs.append({"kind": "accepted-not-offered", "name": n, "finding": classify_missing(n),
                             "detail": "the interpreter accepts %s= (and rejects an unknown name) but it is not offered" % n})
    # a keyword hard-coded by every forwarding call of the asked callable itself
    top = top_callable(prog, q)
    if top is not None:
        fw = [u for u in live_uses(top) if is_forward(u)]
        read = {u[k][0] for u in live_uses(top) for k in ("pop", "get") if k in u}
        if fw:
            for n in set.intersection(*[set(fwd_given(u)) for u in fw]):
                # (theorem C13_hardcoded_not_offered: hard-coded by every forwarding call, not read by a pop/get, not an own parameter)
                if n not in own_named(top) and n not in read and n in offered:
                    devs.append({"kind": "hard-coded-offered", "name": n, "finding": FIND_CRASH if crashed else None,
                                 "detail": "%s is hard-coded in the forwarding call and still offered" % n})
    # all offered together
    conditional = any((p["dflt"] or "").startswith("cond:") for p in real)
    bad_names = {d["name"] for d in devs}
    if not conditional and not bad_names:
        for o in obs["sels"]:
            if o is None or not all(o["acc"].get(n) is True for n in offered):
                continue
            mod._SEL.clear()
            mod._SEL.update(o["sel"])
            r = classify(prog, mod, q, {n: 1 for n in set(offered) | set(o["base"])})
            mod._SEL.clear()
            if r != "ok":
                devs.append({"kind": "all-offered-fails", "name": "*", "finding": FIND_CRASH if crashed else None,
                             "detail": "calling with every offered parameter: %r" % (r,)})
            break
    # type / default of the binding signature (a branch that cannot be executed hides its origins: nothing to compare then)
    all_branches_run = obs["complete"] and all(o is not None for o in obs["sels"])
    for p in real:
        n = p["name"]
        if (p["dflt"] or "").startswith("cond:") or n in bad_names or not all_branches_run:
            continue
        origins = []
        for o in obs["sels"]:
            if o is not None and n in o["trace"]:
                og = origin_of(prog, mod, n, o["trace"][n], o["sel"])
                if og is not None:
                    origins.append(og)
        if origins and not any(og["ty"] == p["ty"] and og["dflt"] == p["dflt"] for og in origins):
            f = FIND_GET if sig_get_forward(prog, mros, q, n) else (FIND_CRASH if crashed else None)
            if f is None and sig_local_import_shadowed(prog, mros, q):
                f = FIND_LOCALIMP
            if f is None and all(og.get("nested") for og in origins):
                f = FIND_NESTED  # bound by a pop nested in an argument list, offered with the callee's signature of the same name
            devs.append({"kind": "type-default-differs", "name": n, "finding": f,
                         "detail": "offered %s/%s, bound at run time by %s with %s/%s" % (p["ty"], p["dflt"], origins[0]["by"], origins[0]["ty"], origins[0]["dflt"])})
    return devs, stats, real


# ---------------------------------------------------------------- parser surface
def value_for(atoms):
    for a in atoms:
        if a != "NoneType" and a in ATOM_VALUE:
            return ATOM_VALUE[a]
    return 1


def parser_surface(prog, mod, q):
    """names added by add_class_arguments / add_function_arguments / add_method_arguments (+ class_from_function for classmethods)"""
    from jsonargparse import ArgumentParser, class_from_function

    obj, meth = target_of(prog, mod, q)
    parser = ArgumentParser(exit_on_error=False)
    if meth:
        added = parser.add_method_arguments(obj, meth, "k", fail_untyped=False)
        _PKG["n"] += 1
        wname = "_W%d_%s_%s" % (_PKG["n"], obj.__name__, meth)  # class_from_function registers the class in the calling module
        try:
            wrapped = class_from_function(getattr(obj, meth), obj, name=wname)
            added2 = ArgumentParser(exit_on_error=False).add_class_arguments(wrapped, "k", fail_untyped=False)
        finally:
            globals().pop(wname, None)
        if added2 != added:
            return parser, ["<class_from_function>"] + [a[2:] for a in added2]
    elif inspect.isclass(obj):
        added = parser.add_class_arguments(obj, "k", fail_untyped=False)
    else:
        added = parser.add_function_arguments(obj, "k", fail_untyped=False)
    return parser, [a[2:] for a in added]


def parser_instantiate(prog, mod, q, parser, real):
    """parse a config holding every offered (non-conditional) parameter and instantiate; returns error text or None"""
    cfg = {p["name"]: value_for(p["ty"]) for p in real if not (p["dflt"] or "").startswith("cond:")}
    ns = parser.parse_object({"k": cfg})
    del mod._TRACE[:]
    try:
        parser.instantiate_classes(ns)
    except TypeError as ex:
        return str(ex)
    return None


# ---------------------------------------------------------------- shrinking
def clone(x):
    return json.loads(json.dumps(x))


def callables_paths(prog):
    out = []
    for i, e in enumerate(prog["entries"]):
        if e["kind"] == "fn":
            out.append((i, "c", None))
        else:
            if e["init"] is not None:
                out.append((i, "init", None))
            out.extend((i, "meths", j) for j in range(len(e["meths"])))
            out.extend((i, "cmeths", j) for j in range(len(e["cmeths"])))
    return out


def get_callable(prog, path):
    i, k, j = path
    c = prog["entries"][i][k]
    return c if j is None else c[j]


def shrink_prog(prog, q, still_bad, budget=150):
    """greedy: cut entries after the asked one, then drop uses / params / hard-coded arguments"""
    cur = clone(prog)
    cut = clone(cur)
    cut["entries"] = cut["entries"][: q[1] + 1]
    try:
        if still_bad(cut):
            cur = cut
    except Exception:  # noqa: BLE001
        pass
    changed = True
    while changed and budget > 0:
        changed = False
        for path in callables_paths(cur):
            c = get_callable(cur, path)
            cands = []
            for ui in range(len(c["uses"])):
                cands.append(("use", ui))
            for pi in range(len(c["params"])):
                cands.append(("param", pi))
            for ui, g in enumerate(c["uses"]):
                u = g["u"]
                if is_forward(u):
                    h = fwd_part(u)
                    for ni in range(len(h.get("nested") or [])):
                        cands.append(("nested", ui, ni))
                    if h["k"]:
                        cands.append(("k", ui))
                    for gi in range(len(h["given"])):
                        cands.append(("given", ui, gi))
            for cand in cands:
                trial = clone(cur)
                tc = get_callable(trial, path)
                if cand[0] == "use":
                    del tc["uses"][cand[1]]
                elif cand[0] == "param":
                    del tc["params"][cand[1]]
                elif cand[0] == "nested":
                    del fwd_part(tc["uses"][cand[1]]["u"])["nested"][cand[2]]
                elif cand[0] == "k":
                    hh = fwd_part(tc["uses"][cand[1]]["u"])
                    hh["k"] = 0
                    hh["nested"] = [x for x in (hh.get("nested") or []) if x["slot"][0] != "pos"]
                else:
                    hh = fwd_part(tc["uses"][cand[1]]["u"])
                    gone = hh["given"][cand[2]]
                    del hh["given"][cand[2]]
                    hh["nested"] = [x for x in (hh.get("nested") or []) if x["slot"] != ["kw", gone]]
                budget -= 1
                try:
                    ok = still_bad(trial)
                except Exception:  # noqa: BLE001
                    ok = False
                if ok:
                    cur = trial
                    changed = True
                    break
                if budget <= 0:
                    break
            if changed or budget <= 0:
                break
    return cur


# ---------------------------------------------------------------- the check
def prepare(prog):
    mod = load(prog)
    mros = {i: real_mro(prog, mod, i) for i, e in enumerate(prog["entries"]) if e["kind"] == "cls"}
    return mod, mros


def shape_key(prog, q):
    return json.dumps({"p": prog, "q": q}, sort_keys=True)


def features(prog, mros):
    f = set()
    f.add("modules-%d" % n_mods(prog))
    if any(flipped(prog, m) for m in range(n_mods(prog))):
        f.add("module-with-flipped-constants")
    if any(mod_rec(prog, m).get("qual") for m in range(n_mods(prog))):
        f.add("qualified-call lib.f(**kwargs)")
    if any(mod_rec(prog, m).get("alias") for m in range(n_mods(prog))):
        f.add("from lib import f as alias")
    if any(mod_rec(prog, m).get("local") for m in range(n_mods(prog))):
        f.add("import inside the function body")
    pn = [pyname(e) for e in prog["entries"]]
    if len(set(pn)) != len(pn):
        f.add("same identifier in two modules")
    for i, e in enumerate(prog["entries"]):
        if e["kind"] == "cls":
            inh = [k for k in mros[i] if mod_of(prog["entries"][k]) != mod_of(e)]
            if inh:
                f.add("base class in another module")
                definer = next((k for k in [i] + mros[i] if prog["entries"][k]["init"] is not None), None)
                if definer is not None and definer != i and mod_of(prog["entries"][definer]) != mod_of(e):
                    f.add("inherited __init__ defined in another module")
                    if call_refs(prog["entries"][definer]["init"]):
                        f.add("inherited __init__ of another module forwards to a callable named there")
                        if any(pn.count(pyname(prog["entries"][j])) > 1 for _, j in call_refs(prog["entries"][definer]["init"])):
                            f.add("... whose identifier also exists in another module")
                if any(mod_of(prog["entries"][o]) != mod_of(e) for o, _ in visible_cmeths(prog, mros, i)):
                    f.add("inherited classmethod defined in another module")
    for i, e in enumerate(prog["entries"]):
        if e["kind"] == "cls":
            f.add("depth%d" % min(len(mros[i]) + 1, 6))
            if len(e["bases"]) > 1:
                f.add("multiple-inheritance")
                anc = [set(mros[b]) | {b} for b in e["bases"]]
                if any(anc[x] & anc[y] for x in range(len(anc)) for y in range(x + 1, len(anc))):
                    f.add("diamond")
            if e["init"] is None and e["bases"]:
                f.add("no-own-init")
            if any(o != i for o, _ in visible_cmeths(prog, mros, i)):
                f.add("inherited-classmethod")
    if any(e.get("inst") for e in prog["entries"]):
        f.add("instance with __call__ as callee")
    for tag, c in tagged_callables(prog):
        for kind, _, _ in c.get("noise") or []:
            f.add("kwargs.%s before the forwarding call" % ("setdefault(n, v)" if kind == "setdefault" else "[n] = v"))
        if any(p["kind"] == "ko" for p in c["params"]):
            f.add("keyword-only")
        if any(p["dflt"] is None for p in c["params"]):
            f.add("required")
        if c["varkw"] and not any(is_forward(u) for u in live_uses(c)):
            f.add("kwargs-unused")
        for g in (c["uses"] if c["varkw"] else []):
            u = g["u"]
            if isinstance(g["g"], dict):
                f.add("const-cond" if "const" in g["g"] else "cond")
            if "pop" in u:
                f.add("pop")
            elif "get" in u:
                f.add("get")
            else:
                h = fwd_part(u)
                f.add("super" if "super" in u else ("attr-use-" + u["attr"]["via"] if "attr" in u else "call-" + u["call"]["t"][0]))
                if "call" in u and u["call"]["t"][0] == "cmeth" and u["call"]["t"][1] != u["call"]["t"][2]:
                    f.add("call-inherited-classmethod")
                if "super" in u and u["super"]["frm"] is not None:
                    f.add("super(X,self)")
                for x in nested_of(h):
                    f.add("nested-%s-%s" % (x["kind"], x["slot"][0]))
                if h["k"]:
                    f.add("hard-coded-positional")
                if h["given"]:
                    f.add("hard-coded-keyword")
    return f


def model_run(ctx, items):
    """items: list of (prog, mros, queries, names, loaded modules) -> driver results (None per program the model cannot express;
    None altogether when the model does not build)"""
    idxs = [k for k, it in enumerate(items) if model_supported(it[0])]
    lines = [{"prog": to_model(items[k][0], items[k][1], items[k][4]),
              "queries": [{"q": model_query(items[k][0], items[k][1], q), "names": items[k][3]} for q in items[k][2]]} for k in idxs]
    out = [None] * len(items)
    if not lines:
        return out
    try:
        res = ctx.driver("Resolver", lines)
    except MachineryError as ex:
        if ctx.lean_ok:
            raise
        ctx.tie_break("correspondence E9 not runnable (model does not build)", str(ex))
        return None
    for k, r in zip(idxs, res):
        out[k] = r
    return out


def corr_disagreements(prog, mod, mros, q, names, res, obs=None):
    """compare one query: real resolver vs model `resolve`, real interpreter vs model `accepts`"""
    out = []
    real, crashed, failed = real_resolve(prog, mod, q)
    if (res["out"] == "crash") != crashed:
        out.append({"side": "resolve", "what": "AST-resolver AttributeError fallback: real %s, model %s" % (crashed, res["out"]), "real": real, "model": res["out"]})
    elif res["out"] == "ok":
        mp = model_params(res)
        if mp != real or failed:
            out.append({"side": "resolve", "what": "offered parameters differ", "real": real, "model": mp, "log": failed[:2]})
    elif res["out"] == "nofuel":
        out.append({"side": "resolve", "what": "model ran out of fuel", "real": real, "model": "nofuel"})
    obs = obs or interp(prog, mod, q, names)
    for n, ma in zip(names, res["accepts"]):
        ia = interp_accepts(obs, n)
        if ia is not None and ia != ma:
            out.append({"side": "accepts", "what": "interpreter %s, model %s for %s=" % (ia, ma, n), "name": n})
    # the definition that binds the name at run time: traced interpreter vs model `binder` (programs without an if-chain:
    # one execution per name)
    if "binder" in res and obs["complete"] and len(obs["sels"]) == 1 and obs["sels"][0] is not None:
        o = obs["sels"][0]
        for n, mb in zip(names, res["binder"]):
            if n not in o["trace"] or o["acc"].get(n) is not True:
                continue
            og = origin_of(prog, mod, n, o["trace"][n], o["sel"])
            real_b = None if og is None or og["by"].endswith(":get") else (sorted(og["ty"]), og["dflt"])
            _BINDER["compared"] += 1
            model_b = None if mb is None else (sorted(mb["ty"]), None if mb["dflt"] is None else mb["dflt"].get("tok"))
            if real_b != model_b:
                out.append({"side": "binder", "what": "run-time binder of %s=: interpreter %r (%s), model %r" % (n, real_b, og and og["by"], model_b), "name": n})
    return out


def exhaustive_family(thorough):
    """every two/three-class program over a small alphabet: parent (a: int = 0, b: str = 'x') with or without a
    forwarding **kwargs, child with own parameters, one read of kwargs, super() with hard-coded arguments,
    optionally a grandchild without own __init__"""
    import itertools

    def P(name, ty, d, kind="pk"):
        return {"name": name, "ty": ty, "dflt": ["v", d], "kind": kind}

    parents = [
        {"params": [P("a", "int", 0), P("b", "str", "x")], "varkw": False, "uses": []},
        {"params": [P("a", "int", 0), P("b", "str", "x")], "varkw": True, "uses": [{"g": "a", "u": {"super": {"frm": None, "k": 0, "given": []}}}]},
    ]
    owns = [[], [P("a", "str", "own")], [P("c", "int", 1)], [P("c", "int", 1, "ko"), P("a", "float", 1.5, "ko")]]
    reads = [None, ("pop", "a", 0), ("pop", "a", 7), ("pop", "b", "x"), ("pop", "z", 1), ("get", "a", 0), ("get", "z", 1)]
    ks = [0, 1, 2] if thorough else [0, 1]
    givens = [[], ["a"], ["b"], ["a", "b"]]
    out = []
    for par, own, rd, k, gv, grandchild in itertools.product(parents[: 2 if thorough else 1], owns, reads, ks, givens, [False, True]):
        if any(g in ["a", "b"][:k] for g in gv):
            continue  # would be "multiple values" whatever the caller passes
        uses = []
        if rd is not None:
            uses.append({"g": "a", "u": {rd[0]: [rd[1], rd[2]]}})
        uses.append({"g": "a", "u": {"super": {"frm": None, "k": k, "given": gv}}})
        entries = [
            {"kind": "cls", "name": "K0", "bases": [], "init": clone(par), "meths": [], "cmeths": []},
            {"kind": "cls", "name": "K1", "bases": [0], "init": {"params": clone(own), "varkw": True, "uses": uses}, "meths": [], "cmeths": []},
        ]
        if grandchild:
            entries.append({"kind": "cls", "name": "K2", "bases": [1], "init": None, "meths": [], "cmeths": []})
        out.append({"entries": entries})
    return out


def extension_family(thorough):
    """deterministic programs for the two patterns the Lean model does not express (oracle only):
    **kwargs kept in an attribute and forwarded by a method/property with hard-coded arguments and pops,
    and classmethod factories `cls(**kwargs)` reached through subclasses / forwarding functions"""
    import itertools

    def P(name, ty, d="REQ", kind="pk"):
        return {"name": name, "ty": ty, "dflt": None if d == "REQ" else ["v", d], "kind": kind}

    def U(u):
        return {"g": "a", "u": u}

    out = []
    f0 = {"kind": "fn", "name": "f0", "c": {"params": [P("a", "int", 0), P("b", "str", "x"), P("c", "float", 1.0), P("d", "bool", True, "ko")], "varkw": False, "uses": []}}
    reads = [None, ("pop", "b", "x"), ("pop", "z", 1), ("pop", "c", 2.5)]
    for rd, k, gv, via, how, sub in itertools.product(reads, [0, 1, 2], [[], ["c"], ["d"], ["c", "d"]], ["method", "property"],
                                                      ["assign", "update"] if thorough else ["assign"], [False, True]):
        if any(g in ["a", "b", "c"][:k] for g in gv):
            continue
        uses = ([U({rd[0]: [rd[1], rd[2]]})] if rd else []) + [U({"attr": {"t": ["entry", 0], "k": k, "given": gv, "via": via, "how": how}})]
        entries = [clone(f0), {"kind": "cls", "name": "K1", "bases": [], "init": {"params": [P("e", "int", 1)], "varkw": True, "uses": uses}, "meths": [], "cmeths": []}]
        if sub:
            entries.append({"kind": "cls", "name": "K2", "bases": [1], "init": {"params": [P("g", "int", 0)], "varkw": True,
                                                                            "uses": [U({"super": {"frm": None, "k": 0, "given": []}})]}, "meths": [], "cmeths": []})
        out.append({"entries": entries})
    # classmethod factories through subclasses
    for own, k, gv, sub_init, with_fn in itertools.product([[P("q", "str"), P("r", "int", 1)], [P("r", "int", 1)], []], [0, 1], [[], ["h"]],
                                                           ["own", "none", "hard"], [False, True]):
        base_init = {"params": [P("h", "int", 8), P("p", "float", 0.0)], "varkw": False, "uses": []}
        cm = {"params": clone(own), "varkw": True, "uses": [U({"call": {"t": ["cls"], "k": k, "given": gv}})]}
        entries = [{"kind": "cls", "name": "K0", "bases": [], "init": base_init, "meths": [], "cmeths": [cm]}]
        if sub_init == "none":
            init = None
        elif sub_init == "own":
            init = {"params": [P("l", "int", 2)], "varkw": True, "uses": [U({"super": {"frm": None, "k": 0, "given": []}})]}
        else:
            if k:
                continue
            init = {"params": [P("l", "int", 2)], "varkw": True, "uses": [U({"super": {"frm": None, "k": 0, "given": ["p"]}})]}
        entries.append({"kind": "cls", "name": "K1", "bases": [0], "init": init, "meths": [], "cmeths": []})
        entries.append({"kind": "cls", "name": "K2", "bases": [1], "init": None, "meths": [], "cmeths": []})
        if with_fn:
            entries.append({"kind": "fn", "name": "f3", "c": {"params": [P("t", "str", "t")], "varkw": True,
                                                             "uses": [U({"call": {"t": ["cmeth", 1, 0, 0], "k": 1 if own and own[0]["dflt"] is None else 0, "given": []}})]}})
        out.append({"entries": entries})
    return out


def module_family(thorough):
    """deterministic programs spread over two modules: a library module (a function f0, a class K1 that forwards **kwargs to
    f0 from its __init__ / a classmethod / a method using a stored attribute / under a constant conditional) and a user module
    (a subclass K3 with or without own __init__, optionally a DIFFERENT callable that is also called f0, a function building K3),
    each module with either polarity of its constants"""
    import itertools

    def P(name, ty, d="REQ", kind="pk"):
        return {"name": name, "ty": ty, "dflt": None if d == "REQ" else ["v", d], "kind": kind}

    def U(u, g="a"):
        return {"g": g, "u": u}

    out = []
    hows = ["init", "cmeth", "attr", "const", "meth"]
    for how, sub_init, decoy, k, gv, flips, qual in itertools.product(
            hows, ["none", "own"], [None, "fn", "cls"], [0, 1], [[], ["c"]], [(False, False), (True, False), (False, True)] if thorough else [(False, False), (False, True)],
            [None, "qual", "local", "alias"] if thorough else [None, "local"]):
        f0 = {"kind": "fn", "name": "f0", "mod": 0, "c": {"params": [P("a", "int", 0), P("b", "str", "x"), P("c", "float", 1.0)], "varkw": False, "uses": []}}
        fw = {"call": {"t": ["entry", 0], "k": k, "given": gv}}
        k1 = {"kind": "cls", "name": "K1", "mod": 0, "bases": [], "init": {"params": [P("e", "int", 1)], "varkw": True, "uses": []}, "meths": [], "cmeths": []}
        if how == "init":
            k1["init"]["uses"] = [U({"pop": ["z", 1]}), U(fw)]
        elif how == "const":
            k1["init"]["uses"] = [U(fw, {"const": True, "test": 0}), U({"pop": ["y", 2]}, {"const": False, "test": 0})]
        elif how == "attr":
            k1["init"]["uses"] = [U({"attr": {"t": ["entry", 0], "k": k, "given": gv, "via": "method", "how": "assign"}})]
        elif how == "meth":
            k1["meths"] = [{"params": [P("m", "int", 2)], "varkw": True, "uses": [U(fw)]}]
            k1["init"]["uses"] = [U({"call": {"t": ["self", 0], "k": 0, "given": []}})]
        else:
            k1["init"] = {"params": [P("e", "int", 1)], "varkw": False, "uses": []}
            k1["cmeths"] = [{"params": [P("q", "str", "q")], "varkw": True, "uses": [U(fw)]}]
        entries = [f0, k1]
        if decoy == "fn":
            entries.append({"kind": "fn", "name": "f2", "pyname": "f0", "mod": 1,
                            "c": {"params": [P("z", "int", 5), P("a", "str", "s"), P("w", "bool", True)], "varkw": False, "uses": []}})
        elif decoy == "cls":
            entries.append({"kind": "cls", "name": "K2", "pyname": "f0", "mod": 1, "bases": [],
                            "init": {"params": [P("w", "bool", True), P("a", "str", "s")], "varkw": False, "uses": []}, "meths": [], "cmeths": []})
        init = None if sub_init == "none" else {"params": [P("g", "int", 0)], "varkw": True, "uses": [U({"super": {"frm": None, "k": 0, "given": []}})]}
        i3 = len(entries)
        entries.append({"kind": "cls", "name": "K3", "mod": 1, "bases": [1], "init": init, "meths": [], "cmeths": []})
        user = [U({"call": {"t": ["entry", i3], "k": 0, "given": []}})]
        if decoy is not None and how != "cmeth":
            user = [U({"pop": ["w", True]})] + user
        entries.append({"kind": "fn", "name": "f4", "mod": 1, "c": {"params": [P("t", "str", "t")], "varkw": True, "uses": user}})
        if qual:
            # the user module also calls the library function itself: `M0.f0(**kwargs)` / imported in the body / under an alias
            entries.append({"kind": "fn", "name": "f5", "mod": 1, "c": {"params": [P("u", "int", 3)], "varkw": True,
                                                                        "uses": [U({"call": {"t": ["entry", 0], "k": k, "given": gv}})]}})
        user_mod = {"flip": flips[1], "qual": [], "alias": [], "local": []}
        if qual:
            user_mod[qual].append(0)
        prog = {"entries": entries, "mods": [{"flip": flips[0], "qual": []}, user_mod]}
        if not namespace_ok(prog, allow_shadow=True):
            continue
        # (an import inside the body next to a module global of the same identifier — open finding
        #  C13-local-import-shadowed-by-module-global — is part of this family only; the random generator never writes it)
        out.append(prog)
    return out


class _Tally:
    def __init__(self):
        self.n_dis = self.n_queries = self.n_crash = self.n_uninst = self.n_parser = self.n_wf_queries = self.n_wf_progs = self.n_progs = self.n_syntactic = self.n_oracle_only = self.n_outside = 0


def process(ctx, progs, T, parser_every, is_corpus=False):
    """correspondence + oracle + parser surface for a batch of (program, origin)"""
    items, loaded = [], []
    for prog, origin in progs:
        mod, mros = prepare(prog)
        names = universe(prog)
        qs = queries_of(prog, mros)
        items.append((prog, mros, qs, names, mod))
        loaded.append((prog, origin, mod, mros, qs, names))
    results = model_run(ctx, items)
    for idx, (prog, origin, mod, mros, qs, names) in enumerate(loaded):
        T.n_progs += 1
        for ft in features(prog, mros):
            ctx.hist("features", ft)
        ctx.hist("entries", len(prog["entries"]))
        res_p = results[idx] if results is not None else None
        if res_p is None:
            T.n_oracle_only += 1
        if res_p is not None:
            if not results[idx]["acyclic"]:
                ctx.tie_break("generated program is not acyclic for the model (generator and model disagree on the ordering rules)", render(prog)[:1500])
            T.n_wf_progs += 1 if results[idx]["wf"] else 0
        if origin == "generated":
            src = render(prog)
            ctx.sample({"source": src[src.index("\n\n\n", 300):][:1200]}, cap=3)
        for qi, q in enumerate(qs):
            T.n_queries += 1
            ctx.count(1 + len(names))
            devs, stats, real = judge(prog, mod, mros, q, names)
            if stats["crashed"]:
                T.n_crash += 1
            if not stats["instantiable"]:
                T.n_uninst += 1
            e = prog["entries"][q[1]]
            topc = top_callable(prog, q)
            if topc is not None and topc["varkw"] and len(real) > len(topc["params"]):
                ctx.nontrivial(shape_key(prog, q))
            # ---- correspondence
            if res_p is not None:
                dis = corr_disagreements(prog, mod, mros, q, names, results[idx]["results"][qi])
                if dis:
                    T.n_dis += 1
                    if T.n_dis <= 3:
                        def still(p2, q=q):
                            m2, mr2 = prepare(p2)
                            try:
                                ns2 = universe(p2)
                                r2 = ctx.driver("Resolver", [{"prog": to_model(p2, mr2, m2), "queries": [{"q": model_query(p2, mr2, q), "names": ns2}]}])
                                return bool(corr_disagreements(p2, m2, mr2, q, ns2, r2[0]["results"][0]))
                            finally:
                                unload(m2)
                        try:
                            small = shrink_prog(prog, q, still, budget=40)
                        except Exception:  # noqa: BLE001
                            small = prog
                        ctx.tie_break("correspondence E9 (Resolver model vs jsonargparse._parameter_resolvers / the interpreter) disagrees: " + dis[0]["what"],
                                      json.dumps({"q": q, "first": dis[0], "source": render(small)}, default=repr)[:1900])
                        ctx.violation("model and code disagree (%s): %s" % (dis[0]["side"], dis[0]["what"]),
                                      {"kind": "corr", "prog": small, "q": q, "source": render(small)}, found_input=False)
            # ---- property oracle
            # hypotheses of C13_exact_modules: WfProg of the linked program, the resolver's two by-name lookups agree with Python's
            in_theorem = res_p is not None and res_p["wf"] and res_p.get("agree", True) and res_p["results"][qi]["out"] == "ok"
            if outside_model(prog, mros, q):
                T.n_outside += 1
            if in_theorem:
                T.n_wf_queries += 1
            if in_theorem and results[idx]["noclash"]:
                T.n_syntactic += 1
                # C13_no_crash / C13_keeps_sig_strict say: no fallback, no Conditional parameter, no repeated name
                if stats["crashed"] or any((p["dflt"] or "").startswith("cond:") for p in real) or len({p["name"] for p in real}) != len(real):
                    ctx.violation("a program inside WfProg and noPopClash: the real resolver fell back or produced a Conditional/duplicate parameter",
                                  {"kind": "oracle", "origin": origin, "prog": prog, "q": q, "source": render(prog), "inside_theorem_hypotheses": True,
                                   "deviation": {"kind": "strict-signature", "real": real}})
            for d in devs:
                # (what C13_exact / C13_hardcoded_not_offered decide; which of several agreeing definitions is shown is not a theorem)
                covered = in_theorem and d["kind"] != "type-default-differs"
                if d["finding"] and ctx.is_open(d["finding"]) and not covered:
                    ctx.known(d["finding"], "%s: %s (e.g. %s of a %s program)" % (d["kind"], d["detail"], "/".join(map(str, q)), origin))
                    continue

                def still_o(p2, q=q, d=d):
                    m2, mr2 = prepare(p2)
                    try:
                        dv, _, _ = judge(p2, m2, mr2, q)
                        return any(x["kind"] == d["kind"] and not (x["finding"] and ctx.is_open(x["finding"])) for x in dv)
                    finally:
                        unload(m2)
                small = prog
                if not covered and len(ctx.violations) < 5:
                    try:
                        small = shrink_prog(prog, q, still_o)
                    except Exception:  # noqa: BLE001
                        small = prog
                ctx.violation("C13 fails on the real resolver%s: %s — %s" % (" for a program inside the hypotheses of C13_exact" if covered else "", d["kind"], d["detail"]),
                              {"kind": "oracle", "origin": origin, "prog": small, "q": q, "deviation": d,
                               "source": render(small), "inside_theorem_hypotheses": covered})
            # ---- parser surface (a share of the queries)
            if is_corpus or (idx + qi) % parser_every == 0:
                T.n_parser += 1
                try:
                    parser, added = parser_surface(prog, mod, q)
                except Exception as ex:  # noqa: BLE001
                    added, parser = None, None
                    ctx.hist("parser-surface", "add_*_arguments raised %s" % type(ex).__name__)
                if added is not None:
                    if added != [p["name"] for p in real]:
                        ctx.violation("add_*_arguments adds other names than get_signature_parameters returns",
                                      {"kind": "parser", "prog": prog, "q": q, "added": added, "resolved": [p["name"] for p in real], "source": render(prog)})
                    elif q[0] == "entry" and e["kind"] == "cls" and stats["instantiable"] and not devs and not stats["crashed"]:
                        conditional = any((p["dflt"] or "").startswith("cond:") for p in real)
                        has_cond = any(isinstance(g["g"], dict) and "branch" in g["g"] for _, c in tagged_callables(prog) for g in c["uses"])
                        if not conditional and not has_cond:
                            try:
                                err = parser_instantiate(prog, mod, q, parser, real)
                            except Exception as ex:  # noqa: BLE001
                                err = None
                                ctx.hist("parser-surface", "parse/instantiate raised %s" % type(ex).__name__)
                            ctx.hist("parser-surface", "instantiated" if err is None else "instantiate TypeError")
                            if err is not None and REJECT_RE.search(err):
                                ctx.violation("instantiate_classes with every offered parameter raises: %s" % err[:200],
                                              {"kind": "parser-instantiate", "prog": prog, "q": q, "error": err, "source": render(prog)})
        unload(mod)


def run(ctx: Ctx):
    repo_python_path()
    ctx.rule = ("programs of the mini language spread over 1-3 modules (real files; `from lib import name` or `import lib` + `lib.f(**kwargs)`; the same "
                "identifier may be bound to different callables in different modules; module constants with either polarity) (1-6 classes in hierarchies of depth 1-5 with single/multiple inheritance and diamonds, 0-3 functions, "
                "instance methods, classmethods (asked on every class that offers them, also by inheritance); bodies with kwargs.pop/get, super().__init__/"
                "super(X,self), calls of functions/classes/self methods/cls/Sub.classmethod, **kwargs stored in an attribute and forwarded by a method/property, "
                "hard-coded positional and keyword arguments, constant and non-constant conditionals; parameters with shadowing names, six annotations, "
                "defaults, required and keyword-only) written to real module files; every class/function/classmethod is asked: real resolver vs model "
                "`resolve`, real interpreter (one call per candidate name and branch selection) vs model `accepts`, and the property itself on the real "
                "pair; non-trivial = query whose callable takes **kwargs and offers at least one parameter through it; distinct by program+query JSON")
    ctx.assumptions = [
        "modules: entries are assigned to contiguous ranges (a module imports only from earlier ones); a module binds what it defines and what its "
        "text names; per-module global tables and the defining class of every inherited classmethod are read off the imported modules (inputs of "
        "`link`, like the MROs); an identifier that is not bound is never called (NameError programs are not generated)",
        "`super(X, self)` is written for X = the class being defined only; the resolver's search for X BY NAME in the module of the class asked for "
        "is transcribed (`superPairs` / `Prog.superMap` of `linkS`; open finding C13-two-arg-super-foreign-module), the harness supplies the "
        "`__name__` symbol of every entry",
        "import styles per (module, imported entry): `from lib import f`, `from lib import f as al<i>`, `import lib` + `lib.f(**kwargs)` (plain calls only), "
        "`from lib import f` as first statement of the calling body (calls and Cls.factory calls only; never next to a module global of the same "
        "identifier in random programs — that corner, open finding C13-local-import-shadowed-by-module-global, is transcribed by `MProg.lookup true` and "
        "generated by the two-module family and the corpus)",
        "`kwargs.setdefault(n, v)` before the single forwarding call (n a keyword the expected callee takes and the call does not hard-code) is written "
        "by the renderer only: it neither consumes nor forwards, the model has no statement for it",
        "run-time binder: the traced interpreter's first consumer of the probed name (origin_of) vs the model's `binder`, on programs without an "
        "if-chain; a `kwargs.get` is nobody's binder",
        "the generator's renderer is the meaning of the mini language (one python statement per Use)",
        "method and classmethod names are unique per hierarchy (no overriding), at most one super() call per body and it is the last forwarding call",
        "attribute use: `self._kwN = kwargs` (or dict() + update(**kwargs)) is forwarded by ONE method/property of the same class to a function/class, "
        "and __init__ exercises that member right after storing (so the interpreter's verdict is observable at construction); one such attribute per class; "
        "in the model this is `Target.attrEntry` (same callee, does not feed the shared removed set) and C13_exact covers it",
        "reads nested in an argument list: `**kwargs` is always written last in the call, so Python evaluates the nested pops before unpacking it "
        "(the model's `runUses` states this order: `Use.popIn` entries follow their call in AST-visit order and are consumed before it binds); "
        "a nested kwargs.get is a plain get after the call; nested reads are not generated on the attribute path (the resolver does not look there)",
        "type/default oracle: the definition a name answers to is its FIRST consumer on the traced call (a pop — statement or nested — or the first "
        "signature that binds it by keyword); which of several agreeing definitions the resolver shows first is only judged there "
        "(open finding C13-nested-pop-takes-callee-signature), it is not a theorem",
        "inherited classmethods: the model's class lists every classmethod the class OFFERS (own and inherited; the attribute lookup is an input "
        "computed from the real MRO, like the MRO itself); class_from_function(Sub.factory) is compared at the parser surface only",
        "a branch of an if-chain that cannot be executed at all (its callee misses a required argument) is not an observation about acceptance",
        "`unique`'s hash classes of default values are recomputed by the harness (bool/int/float by hash, str, None, JSON of lists)",
        "C13_exact carries the explicit hypothesis that group_parameters does not raise (resolveOut ≠ crash); the excluded class is the open finding C13-conditional-first-crash",
    ]
    ctx.lean_build(extractors=["resolver_sites"])

    from ..lib import corpus as corpus_mod

    T = _Tally()
    parser_every = ctx.budget(3, 2)
    process(ctx, [(c["prog"], "corpus:" + c.get("name", "?")) for c in corpus_mod.load(ctx.prop)], T, parser_every, is_corpus=True)
    fam = exhaustive_family(ctx.thorough)
    ctx.extra["exhaustive_two_class_family"] = len(fam)
    for i in range(0, len(fam), 400):
        process(ctx, [(p, "exhaustive-family") for p in fam[i:i + 400]], T, 7)
    ext = extension_family(ctx.thorough)
    ctx.extra["attribute_use_and_inherited_classmethod_family"] = len(ext)
    for i in range(0, len(ext), 400):
        process(ctx, [(p, "extension-family") for p in ext[i:i + 400]], T, 2)
    mfam = module_family(ctx.thorough)
    ctx.extra["two_module_family"] = len(mfam)
    for i in range(0, len(mfam), 400):
        process(ctx, [(p, "module-family") for p in mfam[i:i + 400]], T, 5)
    done = 0
    while True:
        n_random = ctx.budget(700, 9000) * (2 if ctx.search_boost > 1 else 1)  # a broken tie widens the search
        if done >= n_random:
            break
        batch = []
        for k in range(done, min(done + 400, n_random)):
            knobs = None
            if k % 5 == 4:  # a share of programs entirely inside the theorem's hypotheses
                knobs = {"p_get": 0.0, "p_cond": 0.0, "p_unused": 0.0}
            batch.append((gen_program(ctx.rng, knobs), "generated"))
        process(ctx, batch, T, parser_every)
        done += len(batch)

    # --- replay of the catalogued findings --------------------------------
    for f in ctx.open_findings():
        w = f["witness"]
        mod, mros = prepare(w["prog"])
        try:
            devs, _, _ = judge(w["prog"], mod, mros, w["q"])
        finally:
            unload(mod)
        if any(d["finding"] == f["id"] for d in devs):
            ctx.known(f["id"], f["description"])
        else:
            ctx.stale_findings.append(f["id"])
    ctx.extra["programs"] = T.n_progs
    ctx.extra["programs_oracle_only"] = T.n_oracle_only
    ctx.extra["programs_satisfying_WfProg"] = T.n_wf_progs
    ctx.extra["queries"] = T.n_queries
    ctx.extra["queries_inside_C13_exact_hypotheses"] = T.n_wf_queries
    ctx.extra["queries_inside_WfProg_and_noPopClash"] = T.n_syntactic
    ctx.extra["queries_outside_model_by_name_lookups"] = T.n_outside
    ctx.extra["queries_where_ast_resolver_fell_back"] = T.n_crash
    ctx.extra["queries_not_instantiable"] = T.n_uninst
    ctx.extra["parser_surface_checked"] = T.n_parser
    ctx.extra["correspondence_disagreements"] = T.n_dis
    ctx.extra["runtime_binder_comparisons"] = _BINDER["compared"]


def replay(ctx: Ctx, body):
    repo_python_path()
    r = body["replay"]
    prog, q = r["prog"], r["q"]
    print(render(prog))
    mod, mros = prepare(prog)
    names = universe(prog)
    real, crashed, failed = real_resolve(prog, mod, q)
    print("query:", q)
    print("offered by get_signature_parameters:", [(p["name"], p["ty"], p["dflt"]) for p in real], "(AST resolver fell back)" if crashed else "")
    obs = interp(prog, mod, q, names)
    print("accepted by the interpreter:", {n: interp_accepts(obs, n) for n in names})
    if r.get("kind") == "corr":
        res = ctx.driver("Resolver", [{"prog": to_model(prog, mros, mod), "queries": [{"q": model_query(prog, mros, q), "names": names}]}])[0]["results"][0]
        dis = corr_disagreements(prog, mod, mros, q, names, res, obs)
        print("model:", res["out"], [(p["name"], p["ty"], p["dflt"]) for p in model_params(res)], dict(zip(names, res["accepts"])))
        print("disagreements:", dis)
        return 1 if dis else 0
    if r.get("kind") == "parser":
        _, added = parser_surface(prog, mod, q)
        print("added:", added)
        return 1 if added != [p["name"] for p in real] else 0
    if r.get("kind") == "parser-instantiate":
        parser, _ = parser_surface(prog, mod, q)
        err = parser_instantiate(prog, mod, q, parser, real)
        print("instantiate:", err)
        return 1 if err else 0
    devs, _, _ = judge(prog, mod, mros, q, names)
    print("deviations:", devs)
    if (r.get("deviation") or {}).get("kind") == "strict-signature":
        bad = crashed or any((p["dflt"] or "").startswith("cond:") for p in real) or len({p["name"] for p in real}) != len(real)
        return 1 if bad else 0
    if r.get("inside_theorem_hypotheses"):
        return 1 if devs else 0
    return 1 if any(not (d["finding"] and ctx.is_open(d["finding"])) for d in devs) else 0

"""C06 — unknown keys are never silently ignored; required keys are enforced.

Pipeline: (1) regenerate Gen/LenientBrackets + build Props/C06 (theorems over the model
lean/Jap/Core/Validate.lean: all parser spec trees of any depth, all configurations);
(2) correspondence: generated parsers containing every node kind (typed leaves, groups in the
four declaration styles, class-typed arguments with per-class parsers, lists of dataclasses /
classes, subcommands), built as REAL parsers from classes written into a temp module, are
compared with the model on a valid configuration and on every single-fault mutation of it
(accept/reject + which key the error names) and on their action tables;
(3) property oracle on the real code, independent of the model: every mutated configuration
(one foreign key inserted at a position of the tree / one required key removed or nulled) must
be rejected through every channel {object, config text, config file, argv, environment} with an
ArgumentError that mentions the offending key; every unmutated one accepted;
parse_known_args called from outside must raise.
"""
from __future__ import annotations

import atexit
import copy
import importlib
import json
import os
import re
import shutil
import sys
import tempfile
import warnings

from ..lib.common import Ctx, MachineryError, repo_python_path

MANIFEST = {
    "engine": "Validate",
    "technique": "Lean 4 proof over a spec-tree model of validate (check_values + check_required + per-class parsers of init_args / list items "
                 "+ subcommand selection) + regenerated lenient-bracket table + differential correspondence on generated real parsers "
                 "(action table, verdicts, argv option table) + mutation oracle over all tree positions and eight channels "
                 "+ history oracle (one parser object, hundreds of parses; the same input on a new parser object) "
                 "+ model of _positional_optionals (posLoop) with token-conservation theorems, regenerated source statements and a spy-based correspondence",
    "text": "Theorems in lean/Jap/Props/C06.lean prove, for all parser spec trees of any depth, all loaders and all configurations: "
            "(C06_no_unknown_partial) in an accepted configuration no key path that carries a leaf is undefined at its position (top level, groups, "
            "selected subcommand section, init_args of the selected class, list items); (C06_names_key_partial) ONE foreign key with a leaf inserted "
            "at ANY defined mapping position makes validate fail with the unknown-key error positioned at exactly that key; (C06_required, "
            "C06_required_subcommand) every required key / required subcommand of every parser level of an accepted configuration is set; "
            "(C06_required_nulled / C06_required_removed) nulling / removing ONE required key at any position yields the required-key error "
            "positioned at that key; (C06_append_only_list, C06_plus_key_not_consumed) a key ending in '+' is consumed as an append key ONLY when its base "
            "is a list-typed argument of the level (ActionTypeHint.apply_appends), any other one is a foreign key covered by C06_names_key_partial; "
            "(C06_meta_key_source, C06_dunder_is_foreign) only the three names in meta_keys are filtered out of the key list check_values iterates (is_meta_key is a "
            "membership test, tied to the source): a key spelled __comment__ is a foreign key; the three names written by the user are accepted "
            "(C06_meta_key_counterexample, open finding C06-meta-key-foreign); "
            "(C06_argv_leftover) a command-line option outside the parser's option table is the error; (C06_no_lenient, incl. the frame index stack()[1] of the parse_known_args guard) "
            "the regenerated table of lenient_check brackets, the guards of validate/_parse_common/parse_known_args/parse_args are as audited. "
            "parse_known_args is probed from an external caller and from user code called back by the package (custom type function, __init__ run by instantiate_classes, "
            "function run by CLI(), link compute_fn): refused everywhere. "
            "(C06_no_unknown_optdc, C06_required_optdc, C06_optdc_is_parser) arguments typed Optional[Dataclass] (Node.optGroup: one ActionTypeHint whose mapping value "
            "is validated by the per-class parser of the dataclass) are in the spec trees: no-unknown and required hold through such values to any depth (reachO); "
            "a mapping without leaves given for such an argument is invisible (C06_optdc_empty_counterexample, open finding C06-optdc-empty-mapping). "
            "(C06_tokens_conserved, C06_tokens_one_action_each, C06_leftover_accept_iff, C06_too_many_tokens, C06_tokens_in_order, C06_tokens_off, "
            "C06_tokens_missing_positional) for the loop of _positional_optionals (parse_optionals_as_positionals) and the leftover step of parse_args, for all action lists and "
            "token lists: assigned tokens ++ reported rest = the leftover tokens (none dropped or duplicated), each optional takes at most one token in order of "
            "addition, a command line passes only if every token was handed to an action, more tokens than optionals is rejected with every surplus token in the "
            "reported rest; (C06_leftover_source) the statements of _positional_optionals, get_optionals_as_positionals_actions, supports_optionals_as_positionals, the "
            "leftover step of parse_args, the dataclass branch of adapt_typehints (previous value passed in a NEW dict) and the closures check_required / check_values "
            "are as transcribed (regenerated on every run). History: every case parses the valid configuration and all mutations on ONE parser object; afterwards the valid "
            "configuration is parsed again through every channel (same verdict and values as on the new parser) and a sample of inputs is repeated on a new parser object. "
            "The full statements are false on the faithful model for four narrow classes, each a counterexample theorem and an open finding "
            "(leafless foreign mapping, non-selected subcommand section, dict_kwargs, scalar at a group key). The model is tied to the code on "
            "every run by comparing its action table (flatten) with the real parser's, its validate/parseArgv verdicts and named keys with the "
            "real parse methods on generated parsers built from classes written to a temp module, and by the regenerated bracket table.",
    "level_note": "Trusted: Lean kernel; axioms propext/Quot.sound/Classical.choice only; the generator/harness; the YAML loader as a parameter; "
                  "argparse's option matching (abbreviations are avoided by the generator). Base classes of class-typed arguments are abstract "
                  "(no implicit class_path). Mutation theorems assume noClash (no subcommand named like an argument of its level). The order in "
                  "which several simultaneous faults are reported is not modelled (single-fault mutations; accept/reject only otherwise). "
                  "Inside nested per-class parsers a leafless foreign key in a list item is refused by the code (set_defaults) and accepted by the model. "
                  "A mapping without leaves given for an Optional[Dataclass] argument is invisible in the model everywhere; inside init_args / list items the code reports "
                  "the missing field (stricter; accepted difference). "
                  "Mutation theorems (names_key / required_nulled / required_removed) do not walk through Optional[Dataclass] values (child = data there; covered by the "
                  "correspondence and the oracle). Which tokens argparse leaves over (parse_known_args) is not modelled: posLoop starts from the leftover list the real "
                  "parser hands to _positional_optionals (spied). "
                  "Append keys `k+` are modelled for lists of plain values; for lists of dataclasses / class instances and inside list items they are outside "
                  "(the code refuses or crashes there: stricter, not leniency).",
}

FOREIGN = "zz9"
F_LEAFLESS = "C06-leafless-foreign"
F_UNSELECTED = "C06-unselected-section"
F_DICTKW = "C06-dict-kwargs"
F_SCALARGROUP = "C06-scalar-for-group"
F_CPONLY = "C06-classpath-sibling-misnamed"
F_METAKEY = "C06-meta-key-foreign"
F_OPTEMPTY = "C06-optdc-empty-mapping"
DUNDER = ["__comment__", "__pth__", "__zz9__"]                 # spelled like metadata, NOT in meta_keys: foreign keys like any other
META = ["__path__", "__default_config__", "__orig__"]      # jsonargparse._namespace.meta_keys

NAMES = ["alpha", "beta", "gamma", "delta", "eps", "zeta", "eta", "theta", "iota", "kappa", "lam", "mu", "nu", "xi", "omi", "rho",
         "sigma", "tau", "ups", "phi", "chi", "psi", "omega", "aleph", "beth", "gimel", "dalet", "vav"]
SUBNAMES = ["fit", "run", "tst"]

# ---------------------------------------------------------------- temp package for generated classes
_TMP = None
_COUNTER = [0]


def gen_dir():
    global _TMP
    if _TMP is None:
        _TMP = tempfile.mkdtemp(prefix="c06gen_")
        sys.path.insert(0, _TMP)
        atexit.register(shutil.rmtree, _TMP, True)
    return _TMP


class PKey(str):
    """a key segment of a tree position that crosses into a per-class parser WITHOUT a segment of its own: the key of an
    `Optional[Dataclass]` argument (the mapping stored there is validated by the parser of the dataclass).  It navigates like the
    plain string and is written to JSON as the plain string."""


def inner(path):
    """the position lies inside a per-class parser: below `init_args`, a list item or an Optional[Dataclass] value"""
    return any(isinstance(x, (int, PKey)) or x == "init_args" for x in path)


def inner_item(path):
    """... inside a list item or an Optional[Dataclass] value: validated with the value itself as `default` (set_defaults is stricter there)"""
    return any(isinstance(x, (int, PKey)) for x in path)


# ---------------------------------------------------------------- spec generation
def has_req(node):
    k = node["k"]
    if k in ("leaf", "class", "list", "optdc"):
        return bool(node["req"])
    if k == "group":
        return any(has_req(n) for _, n in node["fields"])
    return False


def gen_leaf(rng, allow_req=True):
    ty = rng.choice(["int", "int", "str", "bool", "float", "optInt", "listInt"])
    req = allow_req and ty != "optInt" and rng.random() < 0.45
    node = {"k": "leaf", "ty": ty, "req": req}
    if not req:
        node["def"] = {
            "int": rng.choice([0, 3, -2]), "str": rng.choice(["s0", "w"]), "bool": rng.choice([False, True]),
            "float": rng.choice([1.5, -0.25]), "optInt": rng.choice([None, 4]), "listInt": rng.choice([[], [1, 2]]),
        }[ty]
    return node


class SpecGen:
    def __init__(self, rng, maxd=3):
        self.rng = rng
        self.maxd = maxd
        self.ncls = 0

    def cls(self, stem):
        self.ncls += 1
        return "%s%d" % (stem, self.ncls)

    def fields(self, ctx, depth, nmin=1, nmax=4, avoid=()):
        """`avoid`: names used by the ancestor parsers of a subcommand parser (open finding C06-shadowed-class-arg:
        an argument of a subcommand is validated against the value of the same-named argument of its ancestors)"""
        rng = self.rng
        names = rng.sample([n for n in NAMES if n not in avoid], rng.randint(nmin, nmax))
        out = []
        for name in names:
            r = rng.random()
            if depth >= self.maxd or r < 0.45:
                node = gen_leaf(rng)
            elif r < 0.65:
                node = self.group(ctx, depth)
            elif r < 0.80:
                node = self.classarg(depth, ctx)
            elif r < 0.89:
                node = self.optdc(depth, ctx)
            else:
                node = self.listof(depth)
            out.append([name, node])
        # parameters without default first (dataclass / signature order); same order for every style
        out.sort(key=lambda kv: 0 if has_req(kv[1]) else 1)
        if ctx == "parser" and depth < self.maxd and rng.random() < 0.5:
            out.append([rng.choice(["subcommand", "cmd"]), self.sub(depth, set(avoid) | set(names))])
        return out

    def group(self, ctx, depth):
        rng = self.rng
        if ctx == "parser":
            style = rng.choice(["dotted", "dataclass", "class", "inner"])
        elif ctx == "dotted":
            style = "dotted"
        elif ctx == "inner":
            style = rng.choice(["dataclass", "class", "inner"])      # an embedded parser may hold class groups and embed another parser
        else:
            style = "dataclass"
        inner_ctx = {"dotted": "dotted", "inner": "inner", "dataclass": "sig", "class": "sig"}[style]
        node = {"k": "group", "style": style, "whole": style != "dotted", "fields": self.fields(inner_ctx, depth + 1, 1, 3)}
        if style in ("dataclass", "class"):
            node["cls"] = self.cls("DC" if style == "dataclass" else "PG")
        return node

    def classarg(self, depth, ctx="sig"):
        """`concrete`: the base type is itself instantiable (first entry of `classes`): a value may omit class_path.
        `via` = "subclass_group": declared with add_subclass_arguments(Base, key, required=...) - the requirement then lives in
        parser.required_args only (no action flag); possible where the container is a parser (top level, subcommand, embedded parser)"""
        rng = self.rng
        base = self.cls("Base")
        classes = []
        concrete = rng.random() < 0.5
        if concrete:
            classes.append([base, self.fields("sig", depth + 1, 0, 2)])
        for _ in range(rng.randint(1, 2)):
            classes.append([self.cls("Sub"), self.fields("sig", depth + 1, 0, 3)])
        node = {"k": "class", "req": rng.random() < (0.6 if ctx == "inner" else 0.4), "base": base, "classes": classes, "concrete": concrete}
        if ctx in ("parser", "inner") and rng.random() < (0.7 if ctx == "inner" else 0.35):
            node["via"] = "subclass_group"
        return node

    def optdc(self, depth, ctx):
        """an argument typed `Optional[Dataclass]`: ONE ActionTypeHint (no group); a mapping given for it is validated by the per-class parser
        of the dataclass.  In a signature (`ctx` sig) the parameter is `Optional[DC] = None` (an Optional parameter is never required);
        declared with add_argument it may be required."""
        rng = self.rng
        # (every check of such a value builds a per-class parser: mostly flat dataclasses, sometimes nested ones, to keep the run time)
        fields = self.fields("sig", depth + 1 if rng.random() < 0.25 else self.maxd, 1, 3)
        if not any(n["k"] == "leaf" and n["req"] for _, n in fields):
            # a mapping WITHOUT leaves given for the argument is invisible (open finding C06-optdc-empty-mapping): every generated value
            # holds at least this leaf
            used = {n for n, _ in fields}
            fields.insert(0, [rng.choice([n for n in NAMES if n not in used]), {"k": "leaf", "ty": rng.choice(["int", "str"]), "req": True}])
        return {"k": "optdc", "req": ctx != "sig" and rng.random() < 0.3, "cls": self.cls("OD"), "fields": fields}

    def listof(self, depth):
        rng = self.rng
        r = rng.random()
        if depth >= self.maxd or r < 0.3:
            item = {"k": "leaf", "ty": rng.choice(["int", "str"]), "req": True}
        elif r < 0.7:
            item = {"k": "group", "style": "dataclass", "whole": True, "fields": self.fields("sig", depth + 1, 1, 3), "cls": self.cls("DC")}
        else:
            item = self.classarg(depth + 1)
            item["req"] = True
        return {"k": "list", "req": rng.random() < 0.3, "item": item}

    def sub(self, depth, avoid):
        rng = self.rng
        names = rng.sample(SUBNAMES, rng.randint(1, 3))
        return {"k": "sub", "req": rng.random() < 0.6, "choices": [[n, self.fields("parser", depth + 1, 1, 3, avoid)] for n in names]}


# ---------------------------------------------------------------- python source of the classes
def ty_expr(node):
    k = node["k"]
    if k == "leaf":
        return {"int": "int", "str": "str", "bool": "bool", "float": "float", "optInt": "Optional[int]", "listInt": "List[int]",
                "optListInt": "Optional[List[int]]", "optDictStrInt": "Optional[Dict[str, int]]", "optTupleIntStr": "Optional[Tuple[int, str]]",
                "optLitAB": "Optional[Literal['a', 'b']]"}[node["ty"]]
    if k == "group":
        return node["cls"]
    if k == "class":
        return node["base"] if node["req"] else "Optional[%s]" % node["base"]
    if k == "optdc":
        return "Optional[%s]" % node["cls"]
    if k == "list":
        it = node["item"]
        e = "List[%s]" % (it["base"] if it["k"] == "class" else ty_expr(it))
        return e if node["req"] else "Optional[%s]" % e
    raise MachineryError("no type for " + k)


def emit_classes(fields, out):
    """classes needed by a field list, dependencies first"""
    for _, node in fields:
        emit_node(node, out)


def emit_node(node, out):
    k = node["k"]
    if k == "group":
        emit_classes(node["fields"], out)
        if node["style"] == "dataclass":
            lines = ["@dataclass", "class %s:" % node["cls"]]
            for name, n in node["fields"]:
                lines.append("    %s: %s%s" % (name, ty_expr(n), default_code(n, True)))
            out.append("\n".join(lines))
        elif node["style"] == "class":
            out.append(plain_class(node["cls"], None, node["fields"]))
    elif k == "class":
        if node.get("concrete"):
            emit_classes(node["classes"][0][1], out)
            out.append(plain_class(node["base"], None, node["classes"][0][1]) + "\n    def run(self):\n        pass")
        else:
            out.append("class %s(abc.ABC):\n    @abc.abstractmethod\n    def run(self):\n        pass" % node["base"])
        for cname, cfs in node["classes"]:
            if cname == node["base"]:
                continue
            emit_classes(cfs, out)
            out.append(plain_class(cname, node["base"], cfs))
    elif k == "list":
        emit_node(node["item"], out)
    elif k == "optdc":
        emit_classes(node["fields"], out)
        lines = ["@dataclass", "class %s:" % node["cls"]]
        for name, n in node["fields"]:
            lines.append("    %s: %s%s" % (name, ty_expr(n), default_code(n, True)))
        out.append("\n".join(lines))
    elif k == "sub":
        for _, cfs in node["choices"]:
            emit_classes(cfs, out)


def plain_class(cname, base, fields):
    params = "".join(", %s: %s%s" % (name, ty_expr(n), default_code(n, False)) for name, n in fields)
    body = "    def __init__(self%s):\n        pass" % params
    if base:
        body += "\n    def run(self):\n        pass"
    return "class %s%s:\n%s" % (cname, "(%s)" % base if base else "", body)


def default_code(node, in_dataclass):
    k = node["k"]
    if k == "leaf":
        if node["req"]:
            return ""
        d = node["def"]
        if isinstance(d, (list, dict)):
            if node["ty"] == "optTupleIntStr":
                d = tuple(d)
            return " = field(default_factory=lambda: %r)" % (d,) if in_dataclass else " = %r" % (d,)
        return " = %r" % (d,)
    if k == "group":
        if has_req(node):
            return ""
        return " = field(default_factory=%s)" % node["cls"] if in_dataclass else " = %s()" % node["cls"]
    return "" if node["req"] else " = None"


def write_module(fields):
    out = []
    emit_classes(fields, out)
    _COUNTER[0] += 1
    modname = "c06m_%d_%d" % (os.getpid(), _COUNTER[0])
    src = "import abc\nfrom dataclasses import dataclass, field\nfrom typing import Dict, List, Literal, Optional, Tuple\n\n\n" + "\n\n\n".join(out) + "\n"
    with open(os.path.join(gen_dir(), modname + ".py"), "w") as f:
        f.write(src)
    importlib.invalidate_caches()
    return importlib.import_module(modname), src


# ---------------------------------------------------------------- the real parser
def py_type(node, mod):
    from typing import Dict, List, Literal, Optional, Tuple

    k = node["k"]
    if k == "leaf":
        return {"int": int, "str": str, "bool": bool, "float": float, "optInt": Optional[int], "listInt": List[int],
                "optListInt": Optional[List[int]], "optDictStrInt": Optional[Dict[str, int]], "optTupleIntStr": Optional[Tuple[int, str]],
                "optLitAB": Optional[Literal["a", "b"]]}[node["ty"]]
    if k == "group":
        return getattr(mod, node["cls"])
    if k == "class":
        b = getattr(mod, node["base"])
        return b if node["req"] else Optional[b]
    if k == "optdc":
        return Optional[getattr(mod, node["cls"])]
    if k == "list":
        it = node["item"]
        t = List[getattr(mod, it["base"]) if it["k"] == "class" else py_type(it, mod)]
        return t if node["req"] else Optional[t]
    raise MachineryError("no type for " + k)


def add_fields(parser, fields, mod, prefix=""):
    from jsonargparse import ActionParser, ArgumentParser

    for name, node in fields:
        k = node["k"]
        opt = "--" + prefix + name
        if k == "leaf":
            if node["req"]:
                parser.add_argument(opt, type=py_type(node, mod), required=True)
            else:
                parser.add_argument(opt, type=py_type(node, mod), default=copy.deepcopy(node["def"]))
        elif k == "class" and node.get("via") == "subclass_group":
            parser.add_subclass_arguments(getattr(mod, node["base"]), prefix + name, required=bool(node["req"]))
        elif k in ("class", "list", "optdc"):
            if node["req"]:
                parser.add_argument(opt, type=py_type(node, mod), required=True)
            else:
                parser.add_argument(opt, type=py_type(node, mod), default=None)
        elif k == "group":
            st = node["style"]
            if st == "dotted":
                add_fields(parser, node["fields"], mod, prefix + name + ".")
            elif st == "dataclass":
                parser.add_argument(opt, type=getattr(mod, node["cls"]))
            elif st == "class":
                parser.add_class_arguments(getattr(mod, node["cls"]), prefix + name)
            elif st == "inner":
                inner = ArgumentParser(exit_on_error=False)
                add_fields(inner, node["fields"], mod)
                parser.add_argument(opt, action=ActionParser(parser=inner))
        elif k == "sub":
            sc = parser.add_subcommands(required=node["req"], dest=name)
            for cname, cfs in node["choices"]:
                sp = ArgumentParser(exit_on_error=False)
                sc.add_subcommand(cname, sp)      # level order: attach first, then populate
                add_fields(sp, cfs, mod)


def build_parser(fields, mod):
    from jsonargparse import ActionConfigFile, ArgumentParser

    p = ArgumentParser(exit_on_error=False, env_prefix="APP", default_env=False)
    p.add_argument("--cfg", action=ActionConfigFile)
    add_fields(p, fields, mod)
    return p


# ---------------------------------------------------------------- valid configurations
def leaf_value(rng, ty):
    return {
        "int": lambda: rng.choice([1, 7, -4, 0]), "str": lambda: rng.choice(["w", "hello", "v1"]), "bool": lambda: rng.choice([True, False]),
        "float": lambda: rng.choice([2.5, -1.25, 3]), "optInt": lambda: rng.choice([5, None]), "listInt": lambda: rng.choice([[], [3], [1, 2]]),
    }[ty]()


def sub_of(fields):
    for name, node in fields:
        if node["k"] == "sub":
            return name, node
    return None


def leafless(v):
    return isinstance(v, dict) and all(leafless(x) for x in v.values())


def gen_config(rng, fields, modname):
    cfg = {}
    for name, node in fields:
        k = node["k"]
        if k == "leaf":
            if node["req"] or rng.random() < 0.5:
                cfg[name] = leaf_value(rng, node["ty"])
            elif rng.random() < 0.1:
                cfg[name] = None
        elif k == "group":
            if has_req(node) or rng.random() < 0.6:
                cfg[name] = gen_config(rng, node["fields"], modname)
        elif k == "class":
            if node["req"] or rng.random() < 0.6:
                cfg[name] = gen_class_value(rng, node, modname)
            elif rng.random() < 0.1:
                cfg[name] = None
        elif k == "optdc":
            if node["req"] or rng.random() < 0.85:
                cfg[name] = gen_config(rng, node["fields"], modname)
            elif rng.random() < 0.15:
                cfg[name] = None
        elif k == "list":
            if node["req"] or rng.random() < 0.6:
                cfg[name] = [gen_item(rng, node["item"], modname) for _ in range(rng.randint(0, 2))]
        elif k == "sub":
            if node["req"] or rng.random() < 0.8:
                cname, cfs = rng.choice(node["choices"])
                sect = gen_config(rng, cfs, modname)
                explicit = leafless(sect) or rng.random() < 0.7
                if explicit:
                    cfg[name] = cname
                if not leafless(sect) or (any(has_req(n) for _, n in cfs)) or rng.random() < 0.5:
                    cfg[cname] = sect
    return cfg


def gen_class_value(rng, node, modname):
    cname, cfs = rng.choice(node["classes"])
    path = modname + "." + cname
    anyreq = any(has_req(n) for _, n in cfs)
    if node.get("concrete") and cname == node["base"] and rng.random() < 0.6:
        # the class is implied by the (concrete) base type: no class_path
        ia = gen_config(rng, cfs, modname)
        if ia and not leafless(ia) and not ({"class_path", "init_args", "dict_kwargs"} & set(ia)) and rng.random() < 0.3:
            return ia                       # the mapping itself is the init_args
        return {"init_args": ia}
    if not anyreq and rng.random() < 0.15:
        return path
    if not anyreq and rng.random() < 0.15:
        return {"class_path": path}
    return {"class_path": path, "init_args": gen_config(rng, cfs, modname)}


def gen_item(rng, item, modname):
    if item["k"] == "leaf":
        return leaf_value(rng, item["ty"])
    if item["k"] == "group":
        return gen_config(rng, item["fields"], modname)
    return gen_class_value(rng, item, modname)


# ---------------------------------------------------------------- positions of the configuration tree
def selected(fields, kvs):
    s = sub_of(fields)
    if s is None:
        return None
    dest, node = s
    v = kvs.get(dest)
    if isinstance(v, str):
        return v
    if v is None:
        for cname, _ in node["choices"]:
            if isinstance(kvs.get(cname), dict) and not leafless(kvs.get(cname)):
                return cname
    return None


def sections_present(fields, kvs):
    """every selected subcommand (recursively) has its section in the configuration"""
    s = sub_of(fields)
    if s is None or not isinstance(kvs, dict):
        return True
    sel = selected(fields, kvs)
    if sel is None:
        return True
    cfs = dict((c, f) for c, f in s[1]["choices"]).get(sel)
    if cfs is None or not isinstance(kvs.get(sel), dict) or leafless(kvs.get(sel)):
        return False
    return sections_present(cfs, kvs[sel])


def class_fields(node, modname, path):
    if path is None and node.get("concrete"):
        return node["classes"][0][1]          # implicit class_path of a concrete base type
    for cname, cfs in node["classes"]:
        if path == modname + "." + cname:
            return cfs
    return None


def positions(fields, kvs, modname, path=(), nsect=0):
    """yields (kind, path, extra):
       ('foreign', path-of-dict, cls) cls in normal|classdict|dict_kwargs|unselected
       ('required', path-of-key, number of subcommand sections the path runs through)
       ('branch', path-of-key, [required keys below])   remove a whole group / section holding required keys
       ('group', path-of-key, allopt)                    a group key (scalar-for-group probe)
       ('nosub', path-of-level, dest)                    required subcommand: remove dest and every section"""
    path = list(path)
    yield ("foreign", path, "normal")
    s = sub_of(fields)
    sel = selected(fields, kvs)
    fmap = dict((n, nd) for n, nd in fields)
    for k, v in kvs.items():
        node = fmap.get(k)
        if node is None:
            if s and k == sel and isinstance(v, dict):
                cfs = dict((c, f) for c, f in s[1]["choices"]).get(k)
                if cfs is not None:
                    yield from positions(cfs, v, modname, path + [k], nsect + 1)
                    req_below = [p for kind, p, ns in positions(cfs, v, modname, path + [k], nsect + 1)
                                 if kind == "required" and ns == nsect + 1 and not inner(p[len(path):])]
                    # a required subcommand of the section's own parser is also "a required key below"
                    req_below += [p + [d] for kind, p, d in positions(cfs, v, modname, path + [k], nsect + 1) if kind == "nosub" and p == path + [k]]
                    if req_below and isinstance(kvs.get(s[0]), str):
                        yield ("branch", path + [k], req_below)
            continue
        kind = node["k"]
        if kind == "leaf":
            if node["req"]:
                yield ("required", path + [k], nsect)
        elif kind == "group":
            if isinstance(v, dict):
                yield from positions(node["fields"], v, modname, path + [k], nsect)
                req_below = [p for kd, p, _ in positions(node["fields"], v, modname, path + [k], nsect) if kd == "required" and not inner(p[len(path):])]
                if req_below:
                    # inside a per-class parser (init_args, list item) a null / non-mapping at a nested dataclass key raises AttributeError
                    # (open finding C06-item-nested-dataclass-nonmapping): only removal is generated there
                    yield ("branch" if not inner(path) else "branch-remove-only", path + [k], req_below)
                if not inner(path):
                    yield ("group", path + [k], not has_req(node))
        elif kind == "class":
            if node["req"]:
                yield ("required", path + [k], nsect)
            yield from class_positions(node, v, modname, path + [k])
        elif kind == "optdc":
            if node["req"]:
                yield ("required", path + [k], nsect)
            if isinstance(v, dict):
                # the fields of the dataclass: positions of its own parser (keys relative to it)
                yield from positions(node["fields"], v, modname, path + [PKey(k)], 99)
        elif kind == "list":
            if node["req"]:
                yield ("required", path + [k], nsect)
            if isinstance(v, list):
                it = node["item"]
                for i, x in enumerate(v):
                    if it["k"] == "group" and isinstance(x, dict):
                        yield from positions(it["fields"], x, modname, path + [k, i], nsect)
                    elif it["k"] == "class":
                        yield from class_positions(it, x, modname, path + [k, i])
    if s:
        others = [c for c, _ in s[1]["choices"] if c != sel and c not in kvs]
        if sel is not None and others and isinstance(kvs.get(s[0]), str):
            yield ("foreign", path + [others[0]], "unselected")
        if s[1]["req"] and sel is not None:
            yield ("nosub", path, s[0])


def class_positions(node, v, modname, path):
    if not isinstance(v, dict):
        return
    cfs = class_fields(node, modname, v.get("class_path"))
    if cfs is None:
        return
    if not ({"class_path", "init_args", "dict_kwargs"} & set(v)):
        yield ("foreign", path, "bareinit")     # no class_path and no init_args: the mapping itself is the init_args of the base
        return
    if node.get("concrete") and "class_path" in v and not ({"init_args", "dict_kwargs"} & set(v)):
        # concrete base type, only class_path given: with a foreign key added the code takes the WHOLE mapping for the init_args of the base
        # and reports 'class_path' as the unexpected key (open finding C06-classpath-sibling-misnamed)
        yield ("foreign", path, "classdict-cponly")
    else:
        yield ("foreign", path, "classdict")    # next to class_path / init_args (a specification with or without class_path)
    if "dict_kwargs" not in v:
        yield ("foreign", path + ["dict_kwargs"], "dict_kwargs")
    if isinstance(v.get("init_args"), dict):
        yield from positions(cfs, v["init_args"], modname, path + ["init_args"], 99)


def get_at(tree, path):
    cur = tree
    for s in path:
        cur = cur[s]
    return cur


def mutate(cfg, mut):
    """apply one mutation to a deep copy"""
    out = copy.deepcopy(cfg)
    kind = mut["kind"]
    path = mut["path"]
    if kind in ("foreign", "append"):
        cur = out
        for i, s in enumerate(path):
            if isinstance(cur, dict) and s not in cur:
                cur[s] = {}          # dict_kwargs / non-selected section created by the mutation
            cur = cur[s]
        cur[mut["key"]] = copy.deepcopy(mut["value"])
    elif kind in ("remove", "remove-branch"):
        del get_at(out, path[:-1])[path[-1]]
    elif kind == "null":
        get_at(out, path[:-1])[path[-1]] = None
    elif kind == "scalar-group":
        get_at(out, path[:-1])[path[-1]] = mut["value"]
    elif kind == "nosub":
        lvl = get_at(out, path)
        lvl.pop(mut["dest"], None)
        for c in mut["choices"]:
            lvl.pop(c, None)
    else:
        raise MachineryError("unknown mutation " + kind)
    return out


FOREIGN_VALUES = [1, "w", None, [1], {"q": 1}, {"q": {"r": 2}, "s": 3}]
LEAFLESS_VALUES = [{}, {"q": {}}]


def mutations_of(rng, fields, cfg, modname, full):
    """single-fault mutations of a valid configuration; `full`: every position x several values"""
    muts = []
    for kind, path, extra in positions(fields, cfg, modname):
        if kind == "foreign":
            vals = FOREIGN_VALUES if full else [rng.choice(FOREIGN_VALUES)]
            for v in vals:
                muts.append({"kind": "foreign", "path": path, "key": FOREIGN, "value": v, "cls": extra})
            if extra == "normal" and (full or rng.random() < 0.3):
                muts.append({"kind": "foreign", "path": path, "key": FOREIGN, "value": rng.choice(LEAFLESS_VALUES), "cls": "leafless"})
            # typos of the DEFINED sibling keys: truncations (proper string prefixes: `epoch` for `epochs`) and extensions (`epochs2`, `epochs_`)
            if extra in ("normal", "classdict", "classdict-cponly", "bareinit"):
                for name, variant in typo_names(rng, sibling_names(fields, cfg, modname, path, extra), full):
                    muts.append({"kind": "foreign", "path": path, "key": name, "value": copy.deepcopy(rng.choice([1, "w", [1], None, 2.5])),
                                 "cls": extra, "variant": variant})
            # keys spelled `__...__`: only the three names in meta_keys are filtered out of the key list check_values iterates (is_meta_key is a
            # membership test); `__comment__`, a mistyped `__pth__` are foreign keys at every position
            for name in (DUNDER if full else [rng.choice(DUNDER)]):
                if full or rng.random() < 0.6:
                    muts.append({"kind": "foreign", "path": path, "key": name, "value": copy.deepcopy(rng.choice([1, "w", [1], {"q": 1}, "tuned on 2024-03-01"])),
                                 "cls": extra, "variant": "dunder"})
            # the three meta keys themselves, written by the user with a plain value: invisible to validation (open finding C06-meta-key-foreign);
            # (inside a list item set_defaults refuses them: left out)
            if extra == "normal" and not inner_item(path) and (full or rng.random() < 0.25):
                muts.append({"kind": "foreign", "path": path, "key": rng.choice(META), "value": rng.choice([1, "w"]), "cls": extra, "variant": "meta"})
            # keys ending in "+" (append keys): `apply_appends` consumes `k+` ONLY for a list-typed argument `k`; every other key ending in "+"
            # - an unrelated name, a misspelt list key, "+" on an argument that is not a list - stays a foreign key
            muts.extend(plus_mutations(rng, fields, cfg, modname, path, extra, full))
        elif kind == "required":
            muts.append({"kind": "remove", "path": path})
            muts.append({"kind": "null", "path": path})
        elif kind == "branch":
            muts.append({"kind": "remove-branch", "path": path, "below": extra})
            muts.append({"kind": "null", "path": path, "below": extra})
        elif kind == "branch-remove-only":
            muts.append({"kind": "remove-branch", "path": path, "below": extra})
        elif kind == "group":
            if extra:
                muts.append({"kind": "scalar-group", "path": path, "value": rng.choice([3, [1], True])})
        elif kind == "nosub":
            s = sub_of(level_fields(fields, cfg, modname, path))
            muts.append({"kind": "nosub", "path": path, "dest": extra, "choices": [c for c, _ in s[1]["choices"]]})
    # removing the last leaf of the mapping given for an Optional[Dataclass] argument leaves a mapping without leaves, which is invisible
    for m in muts:
        if m["kind"] in ("remove", "remove-branch") and any(isinstance(x, PKey) for x in m["path"][:-1]):
            last = max(i for i, x in enumerate(m["path"][:-1]) if isinstance(x, PKey))
            try:
                if any(leafless(get_at(mutate(cfg, m), m["path"][:i + 1])) for i, x in enumerate(m["path"][:last + 1]) if isinstance(x, PKey)):
                    m["emptied"] = True
            except (KeyError, IndexError, TypeError):
                pass
    # a mutation must not change which subcommands are selected on the way to its position (implicit selection by section):
    # otherwise it is a different configuration, not a single fault
    return [m for m in muts if sections_still_selected(fields, mutate(cfg, m), modname, m["path"][:-1] if m.get("cls") == "unselected" else m["path"])]


PLUS_VALUES = [1, "w", [1], [2, 3], 2.5, None, {"q": 1}]


def appendable_node(node):
    """list-typed argument whose elements are plain values (what the model's `appendable` covers)"""
    return (node["k"] == "leaf" and node["ty"] == "listInt") or (node["k"] == "list" and node["item"]["k"] == "leaf")


def list_node(node):
    return (node["k"] == "leaf" and node["ty"] == "listInt") or node["k"] == "list"


def plus_mutations(rng, fields, cfg, modname, path, cls, full):
    out = []

    def foreign(key, variant, value=None):
        out.append({"kind": "foreign", "path": path, "key": key, "value": copy.deepcopy(rng.choice(PLUS_VALUES) if value is None else value),
                    "cls": cls, "variant": variant})

    if full or rng.random() < 0.5:
        foreign(FOREIGN + "+", "plus-foreign")
    if cls in ("classdict", "classdict-cponly"):
        if full or rng.random() < 0.3:
            foreign(rng.choice(["class_path+", "dict_kwargs+", "init_args+"]), "plus-nonlist", rng.choice([1, "w", [1]]))
        return out
    if cls not in ("normal", "bareinit"):
        return out
    try:
        lf = level_fields(fields, cfg, modname, path)
    except Exception:  # noqa: BLE001
        return out
    if lf is None:
        return out
    names = sibling_names(fields, cfg, modname, path, cls)
    lists = [n for n, nd in lf if list_node(nd)]
    nonlist = [n for n, nd in lf if not list_node(nd)]
    s = sub_of(lf)
    if s:
        nonlist += [c for c, _ in s[1]["choices"]]
    try:
        here = get_at(cfg, path)
    except Exception:  # noqa: BLE001
        here = None
    pick = nonlist if full else (rng.sample(nonlist, min(2, len(nonlist))) if nonlist else [])
    for n in pick:
        if n + "+" not in names:
            foreign(n + "+", "plus-nonlist")
    for t, _ in typo_names(rng, lists, full):
        if t not in names and t + "+" not in names:
            foreign(t + "+", "plus-typo", rng.choice([[1], 3, [2, 3]]))
    # (inside an item of a list of dataclasses the item is validated with itself as `default` and set_defaults refuses `k+`
    #  - 'No action for key "qs+" to set its default' - so a legitimate append is REJECTED there: stricter, not this property; left out)
    if isinstance(here, dict) and not inner_item(path):
        for n, nd in lf:
            # the legitimate append: accepted (the required check reads the base key: only when it is present or not required)
            if appendable_node(nd) and n + "+" not in here and (n in here or not nd["req"]) and (full or rng.random() < 0.5):
                ity = "int" if nd["k"] == "leaf" else nd["item"]["ty"]
                if ity in ("optInt", "listInt"):
                    continue
                item = leaf_value(rng, ity)
                out.append({"kind": "append", "path": path, "key": n + "+", "value": rng.choice([item, [item], [item, item]]), "cls": cls, "variant": "append"})
    return out


def sibling_names(fields, cfg, modname, path, cls):
    """the keys defined at a mapping position (arguments, groups, the subcommand key and names; the three keys of a class specification)"""
    if cls in ("classdict", "classdict-cponly"):
        return ["class_path", "init_args", "dict_kwargs"]
    try:
        lf = level_fields(fields, cfg, modname, path)
    except Exception:  # noqa: BLE001
        return []
    if lf is None:
        return []
    names = [n for n, _ in lf]
    s = sub_of(lf)
    if s:
        names += [c for c, _ in s[1]["choices"]]
    return names


def typo_names(rng, names, full):
    """(foreign name, variant) pairs derived from defined names: proper prefixes and extensions that are not themselves defined"""
    out = []
    pool = list(names) if full else (rng.sample(names, min(2, len(names))) if names else [])
    for n in pool:
        cands = []
        if len(n) >= 2:
            cands.append((n[:-1], "truncated"))
        if "_" in n.strip("_"):
            cands.append((n.split("_")[0], "truncated"))
        if len(n) >= 4:
            cands.append((n[: len(n) // 2], "truncated"))
        cands.append((n + rng.choice(["2", "_", "s"]), "extension"))
        for t, v in cands:
            if t and t not in names and (t, v) not in out and not t.endswith("+"):
                out.append((t, v))
    if not full:
        tr = [x for x in out if x[1] == "truncated"]
        ex = [x for x in out if x[1] == "extension"]
        out = (rng.sample(tr, min(2, len(tr))) if tr else []) + (rng.sample(ex, 1) if ex else [])
    return out


def sections_still_selected(fields, cfg, modname, path):
    """every subcommand section the path runs through is (still) the selected subcommand of its level"""
    cur_f, cur_v = fields, cfg
    i = 0
    try:
        while i < len(path):
            k = path[i]
            if cur_f is None or not isinstance(cur_v, dict):
                return True
            fmap = dict((n, nd) for n, nd in cur_f)
            node = fmap.get(k)
            if node is None:
                s = sub_of(cur_f)
                if s is None or k not in dict((c, f) for c, f in s[1]["choices"]):
                    return True          # the foreign / removed key itself
                if selected(cur_f, cur_v) != k:
                    return False
                cur_f = dict((c, f) for c, f in s[1]["choices"])[k]
                cur_v = cur_v.get(k)
                i += 1
            elif node["k"] in ("group", "optdc"):
                cur_f, cur_v = node["fields"], cur_v.get(k)
                i += 1
            elif node["k"] == "class":
                cur_v = cur_v.get(k)
                if not isinstance(cur_v, dict):
                    return True
                cur_f = class_fields(node, modname, cur_v.get("class_path"))
                cur_v = cur_v.get("init_args", {})
                i += 2
            elif node["k"] == "list":
                it = node["item"]
                if i + 1 >= len(path):
                    return True
                cur_v = cur_v.get(k)[path[i + 1]]
                i += 2
                if it["k"] == "group":
                    cur_f = it["fields"]
                elif it["k"] == "class":
                    if not isinstance(cur_v, dict):
                        return True
                    cur_f = class_fields(it, modname, cur_v.get("class_path"))
                    cur_v = cur_v.get("init_args", {})
                    i += 1
                else:
                    return True
            else:
                return True
    except (KeyError, IndexError, TypeError, AttributeError):
        return False
    return True


def level_fields(fields, cfg, modname, path):
    """the field list in force at a dict position (follows groups, selected sections, init_args, list items)"""
    cur_f, cur_v = fields, cfg
    i = 0
    while i < len(path):
        k = path[i]
        fmap = dict((n, nd) for n, nd in cur_f)
        node = fmap.get(k)
        if node is None:
            s = sub_of(cur_f)
            cur_f = dict((c, f) for c, f in s[1]["choices"])[k]
            cur_v = cur_v[k]
            i += 1
            continue
        if node["k"] in ("group", "optdc"):
            cur_f, cur_v = node["fields"], cur_v[k]
            i += 1
        elif node["k"] == "class":
            cur_v = cur_v[k]
            cur_f = class_fields(node, modname, cur_v.get("class_path"))
            i += 2  # skip init_args
            cur_v = cur_v.get("init_args", {})
        elif node["k"] == "list":
            it = node["item"]
            cur_v = cur_v[k][path[i + 1]]
            i += 2
            if it["k"] == "group":
                cur_f = it["fields"]
            else:
                cur_f = class_fields(it, modname, cur_v.get("class_path"))
                i += 1
                cur_v = cur_v.get("init_args", {})
        else:
            raise MachineryError("path through a leaf")
    return cur_f


# ---------------------------------------------------------------- channels
def jtxt(v):
    return json.dumps(v)


def leaf_txt(v):
    return v if isinstance(v, str) else json.dumps(v)


class Inexpressible(Exception):
    pass


def argv_opts(argv, fields):
    """[level, option key] of every option of a rendered command line: the level changes at each subcommand token"""
    out = []
    level = ""
    cur = fields
    for a in argv:
        if a.startswith("--"):
            out.append([level, a[2:].split("=")[0]])
        else:
            s = sub_of(cur)
            level += a + ":"
            cur = dict((c, f) for c, f in s[1]["choices"])[a] if s and a in dict((c, f) for c, f in s[1]["choices"]) else []
    return out


def render_argv(rng, fields, kvs, prefix=""):
    """the configuration as command-line arguments of the parser built from `fields`"""
    args = []
    s = sub_of(fields)
    fmap = dict((n, nd) for n, nd in fields)
    choices = dict((c, f) for c, f in s[1]["choices"]) if s else {}
    for k, v in kvs.items():
        node = fmap.get(k)
        opt = "--" + prefix + k
        if node is None:
            if k in choices:
                continue
            if any(n.startswith(k) for n in fmap) or any(("print_config".startswith(k), "help".startswith(k), "cfg".startswith(k))):
                raise Inexpressible()      # `--epoch=1` IS `--epochs=1` for argparse (abbreviation): not a foreign key on a command line
            args.append("%s=%s" % (opt, leaf_txt(v) if not isinstance(v, (dict, list)) else jtxt(v)))
            continue
        kind = node["k"]
        if v is None and kind in ("leaf", "class", "list", "optdc") and not (kind == "leaf" and node["ty"] == "optInt"):
            continue          # `--k=null` is a type error for a non-Optional argument on the command line: leave it out
        if kind == "leaf":
            args.append("%s=%s" % (opt, leaf_txt(v)))
        elif kind == "group":
            if isinstance(v, dict):
                direct_foreign = any(x not in dict(node["fields"]) for x in v)
                if node["whole"] and ((direct_foreign and rng.random() < 0.5) or rng.random() < 0.15):
                    args.append("%s=%s" % (opt, jtxt(v)))
                else:
                    args.extend(render_argv(rng, node["fields"], v, prefix + k + "."))
            elif node["whole"]:
                args.append("%s=%s" % (opt, leaf_txt(v)))
            else:
                raise Inexpressible()
        elif kind == "class":
            cls_params = None
            if isinstance(v, dict) and isinstance(v.get("class_path"), str):
                cls_params = dict((c, [n for n, _ in f]) for c, f in node["classes"]).get(v["class_path"].rsplit(".", 1)[-1])
            known_only = cls_params is not None and isinstance(v.get("init_args", {}), dict) and all(p in cls_params or p.endswith("+") for p in v.get("init_args", {}))
            # (a foreign init_args key given as `--m.init_args.epoch=1` would be an abbreviation for the per-class parser: whole JSON then)
            if isinstance(v, dict) and set(v) <= {"class_path", "init_args"} and isinstance(v.get("class_path"), str) and known_only and rng.random() < 0.6:
                args.append("%s=%s" % (opt, v["class_path"]))
                for p, pv in v.get("init_args", {}).items():
                    mid = ".init_args." if rng.random() < 0.5 else "."
                    args.append("%s%s%s=%s" % (opt, mid, p, leaf_txt(pv) if not isinstance(pv, (dict, list)) else jtxt(pv)))
            else:
                args.append("%s=%s" % (opt, leaf_txt(v) if not isinstance(v, (dict, list)) else jtxt(v)))
        elif kind == "optdc":
            plain = isinstance(v, dict) and all(x in dict(node["fields"]) and not isinstance(y, (dict, list)) and y is not None for x, y in v.items())
            if plain and v and rng.random() < 0.4:
                # `--opt.field=value` is routed to the argument (parse_argv_item), one field at a time
                for x, y in v.items():
                    args.append("%s.%s=%s" % (opt, x, leaf_txt(y)))
            else:
                args.append("%s=%s" % (opt, leaf_txt(v) if not isinstance(v, (dict, list)) else jtxt(v)))
        elif kind == "list":
            if isinstance(v, list) and len(v) >= 1 and rng.random() < 0.5:
                args.append("%s=%s" % (opt, jtxt(v[:1])))
                for x in v[1:]:
                    args.append("%s+=%s" % (opt, leaf_txt(x) if not isinstance(x, (dict, list)) else jtxt(x)))
            else:
                args.append("%s=%s" % (opt, jtxt(v)))
        elif kind == "sub":
            pass
    if s:
        sel = selected(fields, kvs)
        for c in choices:
            if c in kvs and c != sel:
                raise Inexpressible()   # a non-selected section cannot be written on a command line
        if sel is not None:
            if sel not in choices:
                raise Inexpressible()
            sect = kvs.get(sel)
            args.append(sel)
            args.extend(render_argv(rng, choices[sel], sect if isinstance(sect, dict) else {}, ""))
        elif isinstance(kvs.get(s[0]), str):
            raise Inexpressible()
    return args


def render_env(rng, parser, fields, kvs, out, prefix=""):
    """the configuration as environment variables (individual variables; groups with a whole-group option sometimes as JSON)"""
    from jsonargparse._actions import _find_action
    from jsonargparse._formatters import get_env_var

    s = sub_of(fields)
    fmap = dict((n, nd) for n, nd in fields)
    choices = dict((c, f) for c, f in s[1]["choices"]) if s else {}

    def var(dest):
        a = _find_action(parser, dest)
        if a is None:
            raise Inexpressible()
        return get_env_var(parser, a)

    for k, v in kvs.items():
        node = fmap.get(k)
        dest = prefix + k
        if node is None:
            if k in choices:
                continue
            raise Inexpressible()      # a variable for an undefined key is simply never read
        kind = node["k"]
        if v is None and kind in ("leaf", "class", "list", "optdc") and not (kind == "leaf" and node["ty"] == "optInt"):
            continue
        if kind == "leaf":
            out[var(dest)] = leaf_txt(v)
        elif kind == "group":
            if isinstance(v, dict):
                direct_foreign = any(x not in dict(node["fields"]) for x in v)
                if node["whole"] and (direct_foreign or rng.random() < 0.15):
                    out[var(dest)] = jtxt(v)
                else:
                    render_env(rng, parser, node["fields"], v, out, dest + ".")
            elif node["whole"]:
                out[var(dest)] = leaf_txt(v)
            else:
                raise Inexpressible()
        elif kind in ("class", "list", "optdc"):
            out[var(dest)] = leaf_txt(v) if not isinstance(v, (dict, list)) else jtxt(v)
    if s:
        sel = selected(fields, kvs)
        for c in choices:
            if c in kvs and c != sel:
                raise Inexpressible()
        if sel is not None:
            if sel not in choices:
                raise Inexpressible()
            out[var(s[0])] = sel
            sect = kvs.get(sel)
            subparser = parser._subcommands_action._name_parser_map[sel]
            render_env(rng, subparser, choices[sel], sect if isinstance(sect, dict) else {}, out, "")
        elif isinstance(kvs.get(s[0]), str):
            raise Inexpressible()
    return out


def snapshot(ns):
    return canon(ns.as_dict())


def canon(v):
    if isinstance(v, float):
        return {"f": repr(v)}
    if isinstance(v, dict):
        return {k: canon(x) for k, x in v.items()}
    if isinstance(v, (list, tuple)):
        return [canon(x) for x in v]
    if v is None or isinstance(v, (bool, int, str)):
        return v
    return {"o": type(v).__name__}


def run_real(fn):
    """('ok', snapshot) | ('err', message) | ('exc', type name, message)"""
    from argparse import ArgumentError

    with warnings.catch_warnings():
        warnings.simplefilter("ignore")
        try:
            r = fn()
            return ("ok", snapshot(r))
        except ArgumentError as ex:
            return ("err", str(ex))
        except SystemExit as ex:
            return ("exc", "SystemExit", str(ex))
        except Exception as ex:  # noqa: BLE001 - the class is the observation
            return ("exc", type(ex).__name__, str(ex)[:300])


CHANNELS = ["object", "json", "yaml", "file", "argv", "env", "envcfg", "object_nodef"]


def run_channel(rng, channel, parser, fields, cfg, tmpdir):
    """run one configuration through one channel of the REAL parser; None when the channel cannot express it"""
    import yaml

    if channel == "object":
        obj = copy.deepcopy(cfg)
        return run_real(lambda: parser.parse_object(obj))
    if channel == "object_nodef":
        # without the defaults the sections of subcommands are not completed: required keys of the selected subcommand
        # are enforced by the recursion of check_required alone
        obj = copy.deepcopy(cfg)
        return run_real(lambda: parser.parse_object(obj, defaults=False))
    if channel == "json":
        return run_real(lambda: parser.parse_string(json.dumps(cfg)))
    if channel == "yaml":
        return run_real(lambda: parser.parse_string(yaml.safe_dump(cfg)))
    if channel == "file":
        path = os.path.join(tmpdir, "c.yaml")
        with open(path, "w") as f:
            f.write(yaml.safe_dump(cfg))
        if rng.random() < 0.5:
            return run_real(lambda: parser.parse_path(path))
        return run_real(lambda: parser.parse_args(["--cfg", path]))
    if channel == "argv":
        try:
            argv = render_argv(rng, fields, cfg)
        except Inexpressible:
            return None
        if any(a.split("=")[0] in ("--cfg", "--print_config", "--help") for a in argv):
            return None
        return run_real(lambda: parser.parse_args(argv)) + (argv,)
    if channel == "env":
        try:
            env = render_env(rng, parser, fields, cfg, {})
        except Inexpressible:
            return None
        return run_real(lambda: parser.parse_env(env)) + (env,)
    if channel == "envcfg":
        env = {"APP_CFG": json.dumps(cfg)}
        return run_real(lambda: parser.parse_env(env))
    raise MachineryError("unknown channel " + channel)


# ---------------------------------------------------------------- "the error names the key"
def delimited(msg, text):
    return re.search(r"(?<![A-Za-z0-9_])" + re.escape(text) + r"(?![A-Za-z0-9_])", msg) is not None


def mentions(msg, segs):
    """does the message name the dotted key `segs` (plain, or in the group / subcommand two-part form)?"""
    if segs and isinstance(segs[-1], str) and segs[-1].endswith("+") and len(segs[-1]) > 1 and mentions(msg, list(segs[:-1]) + [segs[-1][:-1]]):
        return True           # `calbacks+` named as `calbacks`: the same key
    dotted = ".".join(segs)
    if delimited(msg, dotted) or re.search(r"(?<![A-Za-z0-9_])" + re.escape(dotted) + r"\.", msg):
        return True
    for i in range(1, len(segs)):
        if "'%s' does not accept nested key '%s" % (".".join(segs[:i]), ".".join(segs[i:])) in msg:
            return True
    return False


def mentions_suffix(msg, segs):
    """some suffix of the dotted key (ending at the key itself) is named: sub-parsers report keys relative to themselves"""
    return any(mentions(msg, segs[i:]) for i in range(len(segs)))


def parser_relative(path):
    """the suffix of a tree position that lies inside the innermost parser (after the last init_args / list index)"""
    out = []
    for s in path:
        if isinstance(s, int) or s == "init_args":
            out = []
        elif isinstance(s, PKey):
            out = []          # the key of an Optional[Dataclass] argument: what follows is relative to the parser of the dataclass
        else:
            out.append(s)
    return out


# ---------------------------------------------------------------- model wire format
def wire_val(v):
    if isinstance(v, bool) or v is None or isinstance(v, (int, str)):
        return v
    if isinstance(v, float):
        return {"f": repr(v)}
    if isinstance(v, (list, tuple)):
        return [wire_val(x) for x in v]
    if isinstance(v, dict):
        return {"d": [[k, wire_val(x)] for k, x in v.items()]}
    raise MachineryError("no wire form for %r" % (v,))


def wire_fields(fields, modname):
    return [[n, wire_node(nd, modname)] for n, nd in fields]


def wire_node(node, modname):
    k = node["k"]
    if k == "leaf":
        out = {"k": "leaf", "ty": node["ty"], "req": node["req"]}
        if "def" in node:
            out["def"] = wire_val(node["def"])
        return out
    if k == "group":
        return {"k": "group", "whole": node["whole"], "fields": wire_fields(node["fields"], modname)}
    if k == "class":
        return {"k": "class", "req": node["req"], "imp": (modname + "." + node["base"]) if node.get("concrete") else None,
                "classes": [[modname + "." + c, wire_fields(f, modname)] for c, f in node["classes"]]}
    if k == "list":
        return {"k": "list", "req": node["req"], "item": wire_node(node["item"], modname)}
    if k == "optdc":
        return {"k": "optdc", "req": node["req"], "fields": wire_fields(node["fields"], modname)}
    if k == "sub":
        return {"k": "sub", "req": node["req"], "choices": [[c, wire_fields(f, modname)] for c, f in node["choices"]]}
    raise MachineryError("bad node")


def rename_mod(v, old, new):
    """configurations stored in corpus / replay files name classes by a placeholder module"""
    if isinstance(v, str):
        return v.replace(old + ".", new + ".") if v.startswith(old + ".") else v
    if isinstance(v, dict):
        return {k: rename_mod(x, old, new) for k, x in v.items()}
    if isinstance(v, list):
        return [rename_mod(x, old, new) for x in v]
    return v


MODPH = "GENMOD"


# ---------------------------------------------------------------- a case = parser + valid cfg + mutations
class Case:
    def __init__(self, fields, cfg_ph, origin):
        """fields: spec; cfg_ph: valid configuration with the placeholder module name"""
        self.fields = fields
        self.origin = origin
        self.mod, self.src = write_module(fields)
        self.modname = self.mod.__name__
        self.cfg = rename_mod(cfg_ph, MODPH, self.modname)
        self.parser = build_parser(fields, self.mod)
        self.wire = wire_fields(fields, self.modname)

    def ph(self, v):
        return rename_mod(v, self.modname, MODPH)


def new_case(rng, maxd):
    g = SpecGen(rng, maxd)
    fields = g.fields("parser", 0, 2, 5)
    if rng.random() < 0.3:
        # a signature-derived group (dataclass-typed argument / class arguments under a key) with an Optional[Dataclass] parameter: the one place
        # where an ActionTypeHint of the LONG-LIVED parser carries the `sub_add_kwargs` of its signature - what an earlier parse leaves on the
        # action is seen by every later parse of the same parser object
        used = {n for n, _ in fields}
        names = rng.sample([n for n in NAMES if n not in used], 3)
        style = rng.choice(["dataclass", "class"])
        inner_fields = [[names[1], gen_leaf(rng)], [names[2], g.optdc(1, "sig")]]
        inner_fields.sort(key=lambda kv: 0 if has_req(kv[1]) else 1)
        node = {"k": "group", "style": style, "whole": True, "fields": inner_fields, "cls": g.cls("DC" if style == "dataclass" else "PG")}
        at = len(fields) - 1 if fields and fields[-1][1]["k"] == "sub" else len(fields)
        fields.insert(at, [names[0], node])
        fields[:at + 1] = sorted(fields[:at + 1], key=lambda kv: 0 if has_req(kv[1]) else 1)
    cfg = gen_config(rng, fields, MODPH)
    return Case(fields, cfg, "generated")


# ---------------------------------------------------------------- expected verdict of the oracle (from the property alone)
def oracle_judge(mut, res):
    """None = fine; else a description of the deviation.  `res` is a run_real result."""
    kind = mut["kind"] if mut else None
    if mut is None:
        if res[0] != "ok":
            return "a valid configuration is rejected: %s" % (res[1:3],)
        return None
    if kind == "append":
        if res[0] != "ok":
            return "a legitimate append key (list-typed argument) is rejected: %s" % (res[1:3],)
        return None
    if res[0] == "ok":
        return "accepted"
    if res[0] == "exc":
        return "rejected with %s instead of ArgumentError: %s" % (res[1], res[2])
    msg = res[1]
    if kind == "foreign":
        rel = parser_relative(mut["path"] + [mut["key"]])
        if not mentions_suffix(msg, rel):
            return "the error does not name the foreign key %s: %r" % (".".join(rel), msg[:300])
        return None
    if kind in ("remove", "null") and "below" not in mut:
        rel = parser_relative(mut["path"])
        if not mentions_suffix(msg, rel):
            return "the error does not name the required key %s: %r" % (".".join(rel), msg[:300])
        return None
    if kind in ("remove-branch", "null"):
        rel = ".".join(parser_relative(mut["path"]))
        if not any(re.search(r"(?<![A-Za-z0-9_.])" + re.escape(".".join(parser_relative(mut["path"])[i:])) + r"(\.[A-Za-z]|(?![A-Za-z0-9_]))", msg)
                   for i in range(len(parser_relative(mut["path"])))):
            if not any(mentions_suffix(msg, parser_relative(p)) for p in mut["below"]):
                return "the error names no key below %s: %r" % (rel, msg[:300])
        return None
    if kind == "nosub":
        if not delimited(msg, mut["dest"]):
            return "the error does not name the subcommand key %s: %r" % (mut["dest"], msg[:300])
        return None
    return None


def finding_of(mut):
    """the open finding class a mutation falls into (by its signature alone), or None"""
    if mut is None:
        return None
    if mut.get("emptied"):
        return F_OPTEMPTY
    if mut["kind"] == "foreign":
        if leafless(mut["value"]):
            return F_LEAFLESS
        if mut.get("cls") == "unselected":
            return F_UNSELECTED
        if mut.get("cls") == "dict_kwargs":
            return F_DICTKW
        if mut.get("cls") == "classdict-cponly":
            return F_CPONLY
        if mut.get("variant") == "meta":
            return F_METAKEY
    if mut["kind"] == "scalar-group":
        return F_SCALARGROUP
    return None


# ---------------------------------------------------------------- correspondence with the model
def model_lines(case, cfgs):
    lines = [{"op": "spec", "fields": case.wire, "load": []}]
    for c in cfgs:
        lines.append({"op": "validate", "cfg": wire_val(c)})
    return lines


def compare_model(mut, mres, res):
    """model verdict vs real (object channel) verdict; None = agree"""
    if mres.get("r") == "ok":
        if res[0] != "ok":
            if mut is not None and mut["kind"] == "foreign" and leafless(mut["value"]) and res[0] == "err" and inner_item(mut["path"]) \
                    and mentions_suffix(res[1], parser_relative(mut["path"] + [mut["key"]])):
                # inside a list item that is validated with its own previous value as `default`, set_defaults refuses the key
                # ("No action for key ... to set its default") even when it holds no leaf: the code is stricter than the model there
                return None
            if mut is not None and mut.get("emptied") and res[0] == "err" and mentions_suffix(res[1], parser_relative(mut["path"])):
                # an Optional[Dataclass] value emptied by the removal, INSIDE the value of a class-typed argument (init_args) or a list item: there the
                # mapping is not turned into a namespace first, `{}` reaches the parser of the dataclass and the missing field is reported - the code is
                # stricter than the model (which treats a mapping without leaves as invisible everywhere)
                return None
            return "model accepts, code rejects: %s" % (res[1:3],)
        return None
    if mres.get("r") != "err":
        return "driver answer %r" % (mres,)
    if res[0] == "ok":
        return "model rejects (%s %s), code accepts" % (mres.get("kind"), mres.get("rel"))
    if res[0] == "exc":
        return "model rejects (%s %s), code raises %s" % (mres.get("kind"), mres.get("rel"), res[1])
    if mut is not None and (mut["kind"] == "remove-branch" or "below" in mut):
        return None        # several faults at once: the order of reports is not modelled
    if mut is not None and mut.get("cls") == "classdict-cponly":
        return None        # rejected by both; the code names 'class_path' instead (open finding), the model names the foreign key
    if mres["kind"] in ("unknown", "required", "nosub"):
        segs = mres["rel"].split(".") if mres["rel"] else []
        segs = parser_relative([s for s in segs])
        if mres["kind"] == "nosub":
            if not delimited(res[1], segs[-1]):
                return "model names subcommand key %s, code says %r" % (mres["rel"], res[1][:300])
        elif not mentions(res[1], segs):
            if mut is not None and mut["kind"] == "foreign" and mres["kind"] == "unknown" and mentions_suffix(res[1], parser_relative(mut["path"] + [mut["key"]])):
                return None      # the foreign key itself is named, without the path to its first leaf (set_defaults of a list item)
            return "model names %s key %s, code says %r" % (mres["kind"], mres["rel"], res[1][:300])
    return None


def table_of_real(parser, prefix=""):
    """(dest, sorted option strings, kind) of every action + the required set, recursively through subcommands"""
    from jsonargparse._actions import _ActionConfigLoad, _ActionSubCommands, filter_default_actions

    out = []
    for a in filter_default_actions(parser._actions):
        if a.dest in ("cfg", "help") or a.dest.endswith(".help"):
            continue
        if isinstance(a, _ActionSubCommands):
            out.append([prefix + a.dest, [], "sub", a.dest in parser.required_args])
            for c, sp in a._name_parser_map.items():
                out.extend(table_of_real(sp, prefix + c + ":"))
        else:
            kind = "whole" if isinstance(a, _ActionConfigLoad) else "arg"
            out.append([prefix + a.dest, sorted(a.option_strings), kind, a.dest in parser.required_args])
    return sorted(out)


def table_of_spec(fields, prefix="", dotted=""):
    """the same table computed from the spec by the rules the model's `flatten` uses"""
    out = []
    for name, node in fields:
        k = node["k"]
        dest = dotted + name
        if k == "leaf":
            opts = ["--" + dest] + (["--" + dest + "+"] if node["ty"] in ("listInt", "optListInt") else [])
            out.append([prefix + dest, sorted(opts), "arg", bool(node["req"])])
        elif k in ("class", "optdc"):
            out.append([prefix + dest, ["--" + dest], "arg", bool(node["req"])])
        elif k == "list":
            out.append([prefix + dest, sorted(["--" + dest, "--" + dest + "+"]), "arg", bool(node["req"])])
        elif k == "group":
            if node["whole"]:
                out.append([prefix + dest, ["--" + dest], "whole", False])
            out.extend(table_of_spec(node["fields"], prefix, dest + "."))
        elif k == "sub":
            out.append([prefix + dest, [], "sub", bool(node["req"])])
            for c, cfs in node["choices"]:
                out.extend(table_of_spec(cfs, prefix + c + ":", ""))
    return sorted(out)


# ---------------------------------------------------------------- the check
def branch_probes(parser, level=""):
    """[(level, key, _is_branch_key(parser, key))] for keys around the destinations of every parser level: their dotted prefixes,
    truncations by one character (no "." boundary), extensions, the destinations themselves"""
    from jsonargparse._actions import _ActionSubCommands, _is_branch_key, filter_default_actions

    out = []
    dests, choices = [], {}
    for a in filter_default_actions(parser._actions):
        if isinstance(a, _ActionSubCommands):
            choices = dict(a._name_parser_map)
        if a.dest not in ("cfg", "help") and not a.dest.endswith(".help"):
            dests.append(a.dest)
    keys = []
    for d in dests:
        parts = d.split(".")
        for i in range(1, len(parts) + 1):
            k = ".".join(parts[:i])
            keys += [k, k[:-1], k + "2", k + "_"]
    seen = set()
    for k in keys:
        if not k or k in seen or k.endswith(".") or k.split(".")[0] in choices:
            continue
        seen.add(k)
        out.append((level, k, bool(_is_branch_key(parser, k))))
    for c, sp in choices.items():
        out.extend(branch_probes(sp, level + c + ":"))
    return out


def model_batch(ctx: Ctx, batch):
    """one driver run for a batch of cases: per case [spec, table, validate x configurations]; returns per case (table, verdicts)"""
    lines, spans = [], []
    for case, muts, cfgs in batch:
        start = len(lines)
        lines.append({"op": "spec", "fields": case.wire, "load": []})
        lines.append({"op": "table"})
        case.probes = branch_probes(case.parser)
        lines.append({"op": "branch", "keys": [[l, k] for l, k, _ in case.probes]})
        for c in cfgs:
            lines.append({"op": "validate", "cfg": wire_val(c)})
        spans.append((start, len(lines)))
    try:
        out = ctx.driver("Validate", lines)
    except MachineryError as ex:
        if ctx.lean_ok:
            raise
        ctx.tie_break("correspondence Validate not runnable (model does not build)", str(ex)[:500])
        return [(None, [None] * len(cfgs)) for _, _, cfgs in batch]
    for (case, _, _), (a, b) in zip(batch, spans):
        # `_is_branch_key` of the real parser vs the model's string-level rule (the "." boundary)
        ctx.count(len(case.probes))
        bad = [(l, k, r, m) for (l, k, r), m in zip(case.probes, out[a + 2]) if r != m]
        if bad:
            ctx.tie_break("correspondence Validate (isBranchKey vs _is_branch_key) disagrees: key %r at level %r: code %s, model %s" % (bad[0][1], bad[0][0], bad[0][2], bad[0][3]),
                          json.dumps({"disagreements": bad[:10], "spec": case.ph(case.fields)}, default=repr)[:1800])
    return [(out[a + 1], out[a + 3:b]) for a, b in spans]


def process_case(ctx: Ctx, case: Case, muts, cfgs, mt, model, channels_per_mut, tmpdir, stats):
    """returns the argv renderings to be compared with the model's argv channel"""
    rng = ctx.rng
    # --- the parser the harness built is the parser the spec describes: the real action table vs the MODEL's `flatten`
    rt, st = table_of_real(case.parser), table_of_spec(case.fields)
    if mt is not None:
        st = sorted([d, sorted("--" + o for o in opts), kind, req] for d, opts, kind, req in mt)
    ctx.count()
    if rt != st:
        diff = [x for x in rt if x not in st][:3], [x for x in st if x not in rt][:3]
        ctx.tie_break("action table of the real parser differs from the model's table (dests / option strings / required set)",
                      json.dumps({"real_only": diff[0], "model_only": diff[1], "spec": case.ph(case.fields)}, default=repr)[:1800])
        # keep going: the mutations below look for a concrete input on which the difference shows
    all_muts = [None] + muts
    argv_cases = []
    first, history = {}, []
    fresh_p = 0.5 if ctx.search_boost > 1 else ctx.budget(0.07, 0.2)
    for mut, cfg, mres in zip(all_muts, cfgs, model):
        fid = finding_of(mut)
        # ---- object channel: model correspondence + oracle
        chans = ["object"] + (rng.sample(CHANNELS[1:], min(channels_per_mut, len(CHANNELS) - 1)) if channels_per_mut else [])
        if mut is None:
            chans = list(CHANNELS)
        elif mut["kind"] in ("remove", "null", "remove-branch", "nosub") and "object_nodef" not in chans:
            # without the defaults nothing completes the configuration: a required key made missing is caught by check_required (and its
            # recursion into sections / per-class parsers) alone - always looked at for these mutations
            chans.append("object_nodef")
        for ch in chans:
            if ch == "object_nodef" and mut is not None and (mut.get("cls") == "unselected" or mut["kind"] == "scalar-group"
                                                              or (mut["kind"] == "null" and "below" in mut)):
                continue      # without defaults a lone non-selected section is kept and validated: not the finding class
            if ch == "object_nodef" and not (mut is not None and mut["kind"] == "remove-branch") and not sections_present(case.fields, cfg):
                continue      # defaults=False and a named subcommand without section: AttributeError in get_subcommands (C03/C17 territory)
            res = run_channel(rng, ch, case.parser, case.fields, cfg, tmpdir)
            if res is None:
                stats["inexpressible"] += 1
                continue
            if mut is None:
                first[ch] = (cfg, res)
            elif rng.random() < fresh_p:
                check_fresh(ctx, case, mut, ch, cfg, res, history, tmpdir, stats)
            history.append([mut, ch])
            ctx.count()
            ctx.hist("channel", ch)
            ctx.hist("mutation", (mut["kind"] + ("/" + mut["cls"] if mut.get("cls") else "") + ("/" + mut["variant"] if mut.get("variant") else "")) if mut else "valid")
            replay = {"kind": "oracle", "spec": case.fields, "cfg": case.ph(case.cfg), "mut": case.ph(mut) if mut else None, "channel": ch,
                      "input": case.ph(list(res[2:])) if len(res) > 2 and ch in ("argv", "env") else None}
            if ch in ("object", "object_nodef") and mres is not None:
                d = compare_model(mut, mres, res)
                if d is not None:
                    ctx.tie_break("correspondence Validate (model vs parse_object) disagrees: " + d[:200],
                                  json.dumps({"mut": case.ph(mut) if mut else None, "model": mres, "real": [str(x)[:400] for x in res[:3]], "cfg": case.ph(cfg), "spec": case.ph(case.fields)}, default=repr)[:1900])
                    stats["disagree"] += 1
                    if os.environ.get("C06_DEBUG"):
                        with open(os.environ["C06_DEBUG"], "a") as f:
                            f.write(json.dumps({"d": d, "mut": case.ph(mut) if mut else None, "model": mres, "real": list(res[:3]), "cfg": case.ph(cfg), "base": case.ph(case.cfg), "spec": case.ph(case.fields)}, default=repr) + "\n")
            if ch == "argv" and mres is not None and len(res) > 2 and not (mut is not None and mut["kind"] == "scalar-group"):
                argv_cases.append((mut, cfg, res))      # (`--g=3` is loaded as a config by the whole-group option: a different input)
            dev = oracle_judge(mut, res)
            if dev is None:
                if mut is not None:
                    ctx.nontrivial(json.dumps([case.ph(case.fields), case.ph(mut), ch], sort_keys=True, default=repr))
                continue
            if fid is not None and ctx.is_open(fid) and (fid == F_OPTEMPTY or (dev == "accepted" if fid != F_CPONLY else dev.startswith("the error does not name"))):
                ctx.known(fid, known_text(fid, mut))
                continue
            what = ("valid configuration: " if mut is None else "mutation %s at %s: " % (mut["kind"], ".".join(map(str, mut["path"])))) + dev
            ctx.violation("[%s] %s" % (ch, what), replay)
            stats["violations"] += 1
    check_history(ctx, case, first, history, tmpdir, stats)
    return argv_cases


def check_argv_model(ctx, pending, stats):
    """the model's argv channel (option table + validate) vs the real parse_args on the rendered command lines;
    `pending`: [(case, [(mut, cfg, result)])], one driver run for all"""
    lines, owners = [], []
    for case, argv_cases in pending:
        if not argv_cases:
            continue
        lines.append({"op": "spec", "fields": case.wire, "load": []})
        owners.append(None)
        for mut, cfg, res in argv_cases:
            lines.append({"op": "argv", "opts": argv_opts(res[2], case.fields), "cfg": wire_val(cfg)})
            owners.append((case, mut, cfg, res))
    if not lines:
        return
    try:
        out = ctx.driver("Validate", lines)
    except MachineryError:
        if ctx.lean_ok:
            raise
        return
    for own, m in zip(owners, out):
        if own is None:
            continue
        case, mut, cfg, res = own
        ctx.count()
        d = None
        if m.get("r") == "ok" and res[0] != "ok":
            # `--k=null` for a non-Optional argument is a type error on the command line only; nulls are not rendered
            d = "model (argv) accepts, code rejects: %s" % (str(res[1])[:200],)
            if mut is not None and mut["kind"] == "foreign" and leafless(mut["value"]) and res[0] == "err" and inner_item(mut["path"]) \
                    and mentions_suffix(res[1], parser_relative(mut["path"] + [mut["key"]])):
                d = None      # set_defaults of a nested list item refuses the leafless key: the code is stricter than the model (see compare_model)
            if mut is not None and mut.get("emptied") and res[0] == "err" and mentions_suffix(res[1], parser_relative(mut["path"])):
                d = None      # an emptied Optional[Dataclass] value inside init_args / a list item: reported by the code (see compare_model)
        elif m.get("r") == "err" and res[0] == "ok":
            d = "model (argv) rejects (%s %s), code accepts" % (m.get("kind"), m.get("rel", m.get("arg")))
        elif m.get("r") == "err" and m.get("kind") == "unrecognized" and res[0] == "err" and not (
                ("Unrecognized arguments" in res[1] or "invalid choice" in res[1]) and ("--" + m.get("arg", "")) in res[1]):
            # (an option whose text contains a space is taken by argparse as a positional: "invalid choice" when a subcommand is expected)
            d = "model says unrecognized argument %s, code says %r" % (m.get("arg"), res[1][:200])
        elif m.get("r") == "err" and m.get("kind") != "unrecognized" and res[0] == "err" and "Unrecognized arguments" in res[1]:
            d = "code says %r, the model's table knows every option" % (res[1][:200],)
        if d is not None:
            stats["disagree"] += 1
            ctx.tie_break("correspondence Validate (parseArgv vs parse_args) disagrees: " + d[:200],
                          json.dumps({"argv": case.ph(res[2]), "mut": case.ph(mut) if mut else None, "model": m, "cfg": case.ph(cfg), "spec": case.ph(case.fields)}, default=repr)[:1900])


def known_text(fid, mut):
    return {
        F_LEAFLESS: "a foreign key whose value is a mapping without leaves (e.g. zz9: {}) is accepted and dropped",
        F_UNSELECTED: "keys inside the section of a non-selected subcommand are discarded without validation",
        F_DICTKW: "keys under dict_kwargs of a class specification are accepted for a class without **kwargs",
        F_SCALARGROUP: "a non-mapping value at a group key whose fields are all optional is accepted (DESIGN section 7 row 8)",
        F_METAKEY: "a key named __path__ / __default_config__ / __orig__ written by the user (plain value) is accepted at any level: is_meta_key filters it out of get_sorted_keys",
        F_OPTEMPTY: "a mapping without leaves given for an Optional[Dataclass] argument ({} after the only given field is removed) is invisible: accepted with the argument "
                    "left at None although the dataclass has required fields (a required argument is reported as missing itself, the field is not named)",
        F_CPONLY: "concrete base type: {class_path: C, <foreign key>} is rejected with \"Key 'class_path' is not expected\" - the foreign key is not named",
    }[fid]


def check_known_args(ctx: Ctx, case: Case):
    """parse_known_args called from outside jsonargparse must refuse"""
    ctx.count()
    try:
        case.parser.parse_known_args(["--" + FOREIGN + "=1"])
    except NotImplementedError:
        return
    except BaseException as ex:  # noqa: BLE001
        ctx.violation("parse_known_args raised %s instead of refusing" % type(ex).__name__, {"kind": "known_args", "spec": case.fields})
        return
    ctx.violation("parse_known_args accepted an external call (leftover arguments are returned, not rejected)", {"kind": "known_args", "spec": case.fields})


def known_args_callbacks():
    """parse_known_args called by user code that jsonargparse itself calls back: a custom `type=` function, a class __init__ run by
    instantiate_classes, a function dispatched by CLI(), a link compute_fn.  In each the call sits DIRECTLY in the called-back function, whose caller is
    a frame of the jsonargparse package - the refusal must look at the immediate caller.  Returns [(where, outcome)], outcome "refused" | other."""
    from jsonargparse import CLI, ArgumentParser

    out = []

    def fresh():
        p = ArgumentParser(exit_on_error=False)
        p.add_argument("--n", type=int, default=1)
        return p

    def custom_type(v):
        p = fresh()
        try:
            p.parse_known_args(["--n=2", "--zz9=1"], p.get_defaults())
        except NotImplementedError:
            out.append(("custom type function", "refused"))
        except Exception as ex:  # noqa: BLE001
            out.append(("custom type function", "raised %s" % type(ex).__name__))
        else:
            out.append(("custom type function", "parsed, leftovers returned"))
        return int(v)

    class Component:
        def __init__(self, a: int = 1):
            p = fresh()
            try:
                p.parse_known_args(["--n=2", "--zz9=1"], p.get_defaults())
            except NotImplementedError:
                out.append(("__init__ run by instantiate_classes", "refused"))
            except Exception as ex:  # noqa: BLE001
                out.append(("__init__ run by instantiate_classes", "raised %s" % type(ex).__name__))
            else:
                out.append(("__init__ run by instantiate_classes", "parsed, leftovers returned"))

    def command(a: int = 1):
        p = fresh()
        try:
            p.parse_known_args(["--n=2", "--zz9=1"], p.get_defaults())
        except NotImplementedError:
            out.append(("function run by CLI()", "refused"))
        except Exception as ex:  # noqa: BLE001
            out.append(("function run by CLI()", "raised %s" % type(ex).__name__))
        else:
            out.append(("function run by CLI()", "parsed, leftovers returned"))

    def compute(a):
        p = fresh()
        try:
            p.parse_known_args(["--n=2", "--zz9=1"], p.get_defaults())
        except NotImplementedError:
            out.append(("link compute_fn", "refused"))
        except Exception as ex:  # noqa: BLE001
            out.append(("link compute_fn", "raised %s" % type(ex).__name__))
        else:
            out.append(("link compute_fn", "parsed, leftovers returned"))
        return a

    steps = []

    def s1():
        p = ArgumentParser(exit_on_error=False)
        p.add_argument("--x", type=custom_type, default=0)
        p.parse_args(["--x=3"])

    def s2():
        p = ArgumentParser(exit_on_error=False)
        p.add_class_arguments(Component, "k")
        p.instantiate_classes(p.parse_args([]))

    def s3():
        CLI(command, args=[])

    def s4():
        p = ArgumentParser(exit_on_error=False)
        p.add_argument("--a", type=int, default=1)
        p.add_argument("--b", type=int, default=0)
        p.link_arguments("a", "b", compute_fn=compute)
        p.parse_args(["--a=2"])

    for name, step in (("custom type function", s1), ("__init__ run by instantiate_classes", s2), ("function run by CLI()", s3), ("link compute_fn", s4)):
        before = len(out)
        try:
            step()
        except Exception as ex:  # noqa: BLE001
            steps.append((name, "the call-back situation could not be set up: %s: %s" % (type(ex).__name__, str(ex)[:120])))
        if len(out) == before and not (steps and steps[-1][0] == name):
            steps.append((name, "the call-back was never run"))
    return out, steps


def check_known_args_callbacks(ctx: Ctx):
    out, problems = known_args_callbacks()
    for where, what in problems:
        raise MachineryError("parse_known_args probe: %s: %s" % (where, what))
    for where, outcome in out:
        ctx.count()
        ctx.hist("known_args_caller", where)
        if outcome != "refused":
            ctx.violation("parse_known_args called from user code (%s, itself called by jsonargparse) is not refused: %s - a lenient parse mode" % (where, outcome),
                          {"kind": "known_args_callback", "where": where})


# ---------------------------------------------------------------- history independence (one parser object, many parses)
def rerun_same(ch, parser, cfg, res, tmpdir):
    """the SAME input once more (argv / env: the rendering that was used), on `parser`"""
    if ch == "argv":
        argv = list(res[2])
        return run_real(lambda: parser.parse_args(argv))
    if ch == "env":
        env = dict(res[2])
        return run_real(lambda: parser.parse_env(env))
    if ch == "file":
        return None
    return run_channel(None, ch, parser, None, cfg, tmpdir)


def verdict_of(res):
    """what must not depend on the history: accept/reject and the accepted values (messages may legitimately differ in detail)"""
    return [res[0], res[1] if res[0] == "ok" else None]


def check_history(ctx, case, first, history, tmpdir, stats):
    """required / unknown-key enforcement is a function of (declaration, input) alone: after the whole history of accepted and rejected
    parses on ONE parser object, the valid configuration parsed again through every channel gives what it gave on the then-new parser"""
    for ch, (cfg, res) in first.items():
        again = rerun_same(ch, case.parser, cfg, res, tmpdir)
        if again is None:
            continue
        ctx.count()
        ctx.hist("history", "valid again after %d+ parses" % (len(history) // 20 * 20))
        if verdict_of(again) != verdict_of(res):
            ctx.violation("[%s] the same valid input gives a different result after %d other parses on the same parser object: first %s, then %s"
                          % (ch, len(history), str(res[:2])[:300], str(again[:2])[:300]),
                          {"kind": "history", "spec": case.fields, "cfg": case.ph(case.cfg), "history": case.ph(history[-60:]), "channel": ch,
                           "input": case.ph(list(res[2:])) if len(res) > 2 else None})
            stats["violations"] += 1


def check_fresh(ctx, case, mut, ch, cfg, res, history, tmpdir, stats):
    """the same (possibly faulty) input on a parser object that has never parsed anything: same verdict, same accepted values"""
    fresh = build_parser(case.fields, case.mod)
    again = rerun_same(ch, fresh, cfg, res, tmpdir)
    if again is None:
        return
    ctx.count()
    ctx.hist("history", "vs fresh parser")
    if verdict_of(again) != verdict_of(res):
        what = "valid configuration" if mut is None else "mutation %s at %s" % (mut["kind"], ".".join(map(str, mut["path"])))
        ctx.violation("[%s] %s: the parser object that has parsed %d inputs before says %s, a new parser object of the same declaration says %s "
                      "- the verdict depends on the history of the parser" % (ch, what, len(history), str(res[:2])[:300], str(again[:2])[:300]),
                      {"kind": "history", "spec": case.fields, "cfg": case.ph(case.cfg), "history": case.ph(history[-60:]), "channel": ch,
                       "mut": case.ph(mut) if mut else None, "input": case.ph(list(res[2:])) if len(res) > 2 else None})
        stats["violations"] += 1


# ---------------------------------------------------------------- command-line tokens beyond the positionals
POS_TYPES = ["int", "str", "optInt"]


def pos_spec(rng):
    """a leaf parser: 0-2 positionals, 0-3 optionals (eligible for optionals-as-positionals), optionally actions that are NOT eligible
    (a config-file option, an option with nargs='+', a dataclass group - whose members are eligible), optionally below a subcommand"""
    npos = rng.choice([0, 1, 1, 2])
    nopt = rng.randint(0, 3)
    return {"pos": [rng.choice(["int", "str"]) for _ in range(npos)], "opt": [rng.choice(POS_TYPES) for _ in range(nopt)],
            "cfgopt": rng.random() < 0.4, "many": rng.random() < 0.3, "sub": rng.random() < 0.35}


def pos_build(spec):
    from typing import List, Optional

    from jsonargparse import ActionConfigFile, ArgumentParser

    ty = {"int": int, "str": str, "optInt": Optional[int]}
    leaf = ArgumentParser(exit_on_error=False)
    if spec["cfgopt"]:
        leaf.add_argument("--cfg", action=ActionConfigFile)
    for i, t in enumerate(spec["pos"]):
        leaf.add_argument("p%d" % i, type=ty[t])
    if spec["many"]:
        leaf.add_argument("--many", type=int, nargs="+", default=[])
    for i, t in enumerate(spec["opt"]):
        leaf.add_argument("--o%d" % i, type=ty[t], default=None if t == "optInt" else ({"int": 0, "str": "d"}[t]))
    if not spec["sub"]:
        return leaf, leaf, []
    top = ArgumentParser(exit_on_error=False)
    top.add_argument("--top", type=int, default=0)
    sc = top.add_subcommands(required=True, dest="subcommand")
    sc.add_subcommand("run", leaf)
    return top, leaf, ["run"]


def pos_argv(rng, spec, extra):
    """(argv, the extra tokens, {dest: expected value} for the positionals)"""
    toks, exp = [], {}
    for i, t in enumerate(spec["pos"]):
        v = str(11 + i) if t == "int" else "pv%d" % i
        toks.append(v)
        exp["p%d" % i] = int(v) if t == "int" else v
    extras = []
    for j in range(extra):
        if j < len(spec["opt"]):
            t = spec["opt"][j]
            extras.append("tk%d" % j if t == "str" else str(100 + j))
        else:
            extras.append("LEFT%d" % j)
    named = []
    for i, t in enumerate(spec["opt"]):
        if rng.random() < 0.3:
            named.append("--o%d=%s" % (i, "nm%d" % i if t == "str" else str(900 + i)))
    argv = toks + extras
    for n in named:                       # `--k=v` options anywhere between the tokens
        argv.insert(rng.randint(0, len(argv)), n)
    return argv, extras, exp


def typed_tok(t, tok):
    return tok if t == "str" else int(tok)


def check_positional_tokens(ctx: Ctx, stats):
    """parse_args: every command-line token is consumed by exactly one action or reported ("Unrecognized arguments: ..."), with the setting
    parse_optionals_as_positionals off and on; the real `_positional_optionals` is compared with the model's `posLoop` on what it was given"""
    from jsonargparse import set_parsing_settings
    from jsonargparse._common import get_optionals_as_positionals_actions, get_parsing_setting, supports_optionals_as_positionals

    rng = ctx.rng
    n = ctx.budget(45, 700) * (3 if ctx.search_boost > 1 else 1)
    records, owners = [], []
    before = get_parsing_setting("parse_optionals_as_positionals")
    try:
        for i in range(n):
            spec = pos_spec(rng) if i >= 12 else {"pos": [["int"], [], ["str", "int"]][i % 3], "opt": [["int", "str"], ["str"], ["optInt", "int", "str"], []][i % 4],
                                                  "cfgopt": i % 5 == 0, "many": i % 7 == 0, "sub": i % 2 == 1}
            nopt = len(spec["opt"])
            for setting in (True, False):
                set_parsing_settings(parse_optionals_as_positionals=setting)
                top, leaf, prefix = pos_build(spec)
                for extra in sorted(set([0, nopt, nopt + 1, nopt + 2, rng.randint(0, nopt + 3)])):
                    argv, extras, exp = pos_argv(rng, spec, extra)
                    full = (["--top=3"] if prefix and rng.random() < 0.5 else []) + prefix + argv
                    spy = []
                    orig_po, orig_cvk = leaf._positional_optionals, leaf._check_value_key

                    def po(cfg, unk, _leaf=leaf, _orig=orig_po, _spy=spy):
                        rec = {"unk": list(unk), "enabled": bool(supports_optionals_as_positionals(_leaf)),
                               "acts": [[a.dest, a.option_strings == [], cfg.get(a.dest) is not None]
                                        for a in get_optionals_as_positionals_actions(_leaf, include_positionals=True)], "asg": [], "done": False}
                        _spy.append(rec)
                        out = _orig(cfg, unk)
                        rec["rest"] = list(out[1])
                        rec["done"] = True
                        return out

                    def cvk(action, value, key, cfg, _orig=orig_cvk, _spy=spy):
                        if _spy and not _spy[-1]["done"]:
                            _spy[-1]["asg"].append([action.dest, value])
                        return _orig(action, value, key, cfg)

                    leaf._positional_optionals, leaf._check_value_key = po, cvk
                    try:
                        res = run_real(lambda: top.parse_args(list(full)))
                    finally:
                        del leaf._positional_optionals, leaf._check_value_key
                    ctx.count()
                    ctx.hist("postokens", "setting %s, %s, extra tokens - optionals = %+d" % ("on" if setting else "off", "subcommand" if prefix else "leaf", extra - nopt))
                    for rec in spy:
                        if rec["done"]:
                            records.append({"op": "posopt", "enabled": rec["enabled"], "acts": rec["acts"], "unk": rec["unk"]})
                            owners.append((spec, setting, full, rec))
                    dev = None
                    capacity = nopt if setting else 0
                    if extra <= capacity:
                        if res[0] != "ok":
                            dev = "a command line whose %d extra token(s) fit the %d optional(s) is rejected: %s" % (extra, nopt, str(res[1:3])[:200])
                        else:
                            got = res[1]
                            for k in prefix:
                                got = got.get(k, {}) if isinstance(got, dict) else {}
                            for d, v in exp.items():
                                if got.get(d) != v:
                                    dev = "positional %s: expected %r, got %r" % (d, v, got.get(d))
                            for j, tok in enumerate(extras):
                                want = typed_tok(spec["opt"][j], tok)
                                if got.get("o%d" % j) != want:
                                    dev = "extra token %r (number %d) is not the value of the optional added %d-th (o%d = %r): the token was dropped or misplaced" % (tok, j, j, j, got.get("o%d" % j))
                    else:
                        beyond = extras[capacity:]
                        if res[0] == "ok":
                            dev = "%d extra token(s) for %d optional(s) (setting %s): accepted - the token(s) %r no action consumes are not reported" % (extra, nopt, setting, beyond)
                        elif res[0] == "exc":
                            dev = "rejected with %s instead of ArgumentError" % res[1]
                        else:
                            missing = [t for t in beyond if not delimited(res[1], t)]
                            if missing:
                                dev = "rejected, but the error does not name the unconsumed token(s) %r: %r" % (missing, res[1][:200])
                    if dev is None:
                        if extra > 0:
                            ctx.nontrivial(json.dumps(["postokens", spec, setting, full]))
                        continue
                    ctx.violation("[argv tokens] parser %s, setting parse_optionals_as_positionals=%s, command line %r: %s" % (json.dumps(spec), setting, full, dev),
                                  {"kind": "postokens", "spec": spec, "setting": setting, "argv": full, "extra": extra})
                    stats["violations"] += 1
    finally:
        set_parsing_settings(parse_optionals_as_positionals=bool(before))
    if not records:
        return
    try:
        out = ctx.driver("Validate", records)
    except MachineryError as ex:
        if ctx.lean_ok:
            raise
        ctx.tie_break("correspondence Validate (posLoop) not runnable (model does not build)", str(ex)[:300])
        return
    for (spec, setting, full, rec), m in zip(owners, out):
        ctx.count()
        if m.get("asg") != [[d, v] for d, v in rec["asg"]] or m.get("rest") != rec["rest"]:
            stats["disagree"] += 1
            ctx.tie_break("correspondence Validate (posLoop vs _positional_optionals) disagrees: leftover %r, actions %r: code assigns %r and leaves %r, model assigns %r and leaves %r"
                          % (rec["unk"], rec["acts"], rec["asg"], rec["rest"], m.get("asg"), m.get("rest")),
                          json.dumps({"spec": spec, "setting": setting, "argv": full, "model": m, "real": rec}, default=repr)[:1800])


def replay_postokens(r):
    from jsonargparse import set_parsing_settings
    from jsonargparse._common import get_parsing_setting

    before = get_parsing_setting("parse_optionals_as_positionals")
    try:
        set_parsing_settings(parse_optionals_as_positionals=bool(r["setting"]))
        top, leaf, prefix = pos_build(r["spec"])
        res = run_real(lambda: top.parse_args(list(r["argv"])))
    finally:
        set_parsing_settings(parse_optionals_as_positionals=bool(before))
    nopt = len(r["spec"]["opt"])
    capacity = nopt if r["setting"] else 0
    print("parser:", json.dumps(r["spec"]), "| parse_optionals_as_positionals =", r["setting"])
    print("command line:", r["argv"], "->", res[:2])
    tokens = [a for a in r["argv"] if not a.startswith("--") and a != "run"][len(r["spec"]["pos"]):]
    if r["extra"] > capacity:
        beyond = tokens[capacity:]
        bad = res[0] != "err" or any(not delimited(res[1], t) for t in beyond)
        print("tokens no action can consume:", beyond, "-> reported" if not bad else "-> NOT all reported")
        return 1 if bad else 0
    if res[0] != "ok":
        return 1
    got = res[1]
    for k in prefix:
        got = got.get(k, {})
    bad = [t for j, t in enumerate(tokens) if got.get("o%d" % j) != typed_tok(r["spec"]["opt"][j], t)]
    print("tokens not found at their optional:", bad)
    return 1 if bad else 0


def optdc_places(fields, sig=False, acc=None):
    """where a case has Optional[Dataclass] arguments: actions of the long-lived parser derived from a signature / added with add_argument, or only
    inside per-class parsers (init_args, list items, other Optional[Dataclass] values), or nowhere"""
    top = acc is None
    acc = set() if top else acc
    for _, n in fields:
        k = n["k"]
        if k == "optdc":
            acc.add("signature-derived action" if sig else "add_argument action")
            optdc_places(n["fields"], sig, set())      # below: per-class parser
        elif k == "group":
            optdc_places(n["fields"], sig or n["style"] in ("dataclass", "class"), acc)
        elif k == "sub":
            for _, cfs in n["choices"]:
                optdc_places(cfs, False, acc)
    return "+".join(sorted(acc)) if acc else "none at parser level"


def load_corpus(ctx):
    from ..lib import corpus as corpus_mod

    return corpus_mod.load(ctx.prop)


def run(ctx: Ctx):
    repo_python_path()
    ctx.rule = ("generated parsers (2-5 top-level fields, depth <= 3) over typed leaves {int,str,bool,float,Optional[int],List[int]}, groups in the four "
                "declaration styles, class-typed arguments (abstract base, 1-2 subclasses, nested parameters), lists of leaves/dataclasses/classes and "
                "subcommands; one valid configuration per parser; every single-fault mutation (foreign key - an unrelated name, truncations of the defined sibling keys (proper string prefixes) and extensions of them - at every mapping position incl. next to "
                "class_path, inside init_args, list items, sections; keys spelled __comment__ / __pth__ / __zz9__ (not in meta_keys: rejected) and the three meta keys (known finding) at every position; keys ending in '+' at every position: unrelated name+, misspelt list key+, '+' on an argument that is not a list (all to be rejected naming the key, either spelling) and the legitimate append on a list argument (to be accepted); required key removed / nulled; group or section holding required keys removed; "
                "required subcommand removed; Optional[Dataclass] arguments (added with add_argument or as parameters of dataclass / class groups, nested) with the same mutations inside their values) through channels {parse_object, parse_string json/yaml, parse_path/--cfg file, argv, environment "
                "variables, environment config}; non-trivial = a (parser, mutation, channel) triple that the code rejects naming the key; distinct by canonical JSON; "
                "plus leaf parsers (0-2 positionals, 0-3 optionals, optionally below a subcommand) x parse_optionals_as_positionals on/off x 0..optionals+3 extra command-line tokens: "
                "accepted iff the tokens fit, each at its optional, else every surplus token named")
    ctx.assumptions = [
        "base classes of class-typed arguments are abstract: a class specification without class_path is outside the generator",
        "several simultaneous faults: only accept/reject is compared (the order of reports follows set iteration in the code)",
        "argparse abbreviation matching is avoided: the foreign key name is not a prefix of any option",
        "values of typed leaves are of the declared type (typing itself is the subject of C02)",
    ]
    ctx.lean_build(extractors=["lenient_brackets", "meta_key_filter", "positional_optionals"])
    tmpdir = tempfile.mkdtemp(prefix="c06run_")
    atexit.register(shutil.rmtree, tmpdir, True)
    stats = {"inexpressible": 0, "disagree": 0, "violations": 0}

    cases = []
    for c in load_corpus(ctx):
        if "fields" in c:
            cases.append((Case(c["fields"], c["cfg"], "corpus"), c.get("muts")))
    n_cases = ctx.budget(60, 600) * (2 if ctx.search_boost > 1 else 1)
    for i in range(n_cases):
        maxd = 2 if i % 3 else 3
        try:
            cases.append((new_case(ctx.rng, maxd), None))
        except Exception as ex:  # noqa: BLE001 - a generated parser that cannot be built is a harness problem
            raise MachineryError("generated parser could not be built: %r" % (ex,))
    check_positional_tokens(ctx, stats)
    known_done = False
    done = 0
    chunk = ctx.budget(12, 20)
    for c0 in range(0, len(cases), chunk):
        batch = []
        for case, fixed_muts in cases[c0:c0 + chunk]:
            full = ctx.thorough or case.origin == "corpus"
            muts = [rename_mod(m, MODPH, case.modname) for m in fixed_muts] if fixed_muts is not None else mutations_of(ctx.rng, case.fields, case.cfg, case.modname, full)
            if not ctx.thorough and fixed_muts is None and len(muts) > 44:
                typos = [m for m in muts if m.get("variant")]
                rest = [m for m in muts if not m.get("variant")]
                plus = [m for m in typos if str(m.get("variant")).startswith("plus") or m.get("variant") in ("append", "dunder", "meta")]
                other = [m for m in typos if m not in plus]
                plus = ctx.rng.sample(plus, min(len(plus), 10))
                typos = plus + ctx.rng.sample(other, min(len(other), 20 - len(plus)))
                muts = typos + ctx.rng.sample(rest, min(len(rest), 44 - len(typos)))
            ctx.hist("mutations_per_case", min(len(muts) // 10 * 10, 100))
            ctx.hist("optional_dataclass_arguments", optdc_places(case.fields))
            batch.append((case, muts, [case.cfg] + [mutate(case.cfg, m) for m in muts]))
        answers = model_batch(ctx, batch)            # one driver run per batch
        pending = []
        for (case, muts, cfgs), (mt, model) in zip(batch, answers):
            pending.append((case, process_case(ctx, case, muts, cfgs, mt, model, ctx.budget(2, 4), tmpdir, stats)))
            if not known_done or ctx.thorough:
                check_known_args(ctx, case)
                if not known_done:
                    check_known_args_callbacks(ctx)
                known_done = True
            if len(ctx.samples) < 3:
                ctx.sample({"spec": case.ph(case.fields), "cfg": case.ph(case.cfg), "mutations": len(muts)})
            done += 1
        check_argv_model(ctx, pending, stats)         # one more for the command lines
        if ctx.elapsed() > ctx.budget(58, 660) and c0 + chunk < len(cases):
            ctx.extra["stopped_early_after_cases"] = done
            break

    # --- replay of catalogued findings
    for f in ctx.open_findings():
        w = f["witness"]
        case = Case(w["spec"], w["cfg"], "finding")
        mut = rename_mod(w["mut"], MODPH, case.modname) if w.get("mut") else None
        res = run_channel(ctx.rng, w.get("channel", "object"), case.parser, case.fields, mutate(case.cfg, mut) if mut else case.cfg, tmpdir)
        ctx.count()
        seen = {"ok": "accepted", "err": "rejected", "exc": "exception"}[res[0]] if res is not None else None
        if seen == "rejected" and w.get("expect") == "misnamed":
            seen = "misnamed" if oracle_judge(mut, res) is not None else "rejected"
        if seen == w.get("expect", "accepted"):
            ctx.known(f["id"], f["description"])
        else:
            ctx.stale_findings.append(f["id"])
    ctx.extra["cases"] = len(cases)
    ctx.extra["inexpressible_in_channel"] = stats["inexpressible"]
    ctx.extra["correspondence_disagreements"] = stats["disagree"]


def replay_history(ctx: Ctx, r):
    """one parser object: the valid configuration through every channel, the recorded history of inputs, then the input in question;
    next to it a parser object that has parsed nothing"""
    tmpdir = tempfile.mkdtemp(prefix="c06run_")
    atexit.register(shutil.rmtree, tmpdir, True)
    case = Case(r["spec"], r["cfg"], "replay")
    for ch in CHANNELS:
        run_channel(ctx.rng, ch, case.parser, case.fields, case.cfg, tmpdir)
    for mut, ch in r.get("history") or []:
        mut = rename_mod(mut, MODPH, case.modname) if mut else None
        try:
            run_channel(ctx.rng, ch, case.parser, case.fields, mutate(case.cfg, mut) if mut else case.cfg, tmpdir)
        except Exception:  # noqa: BLE001 - a history entry that cannot be re-applied is skipped
            pass
    mut = rename_mod(r["mut"], MODPH, case.modname) if r.get("mut") else None
    cfg = mutate(case.cfg, mut) if mut else case.cfg
    ch = r["channel"]
    inp = rename_mod(r.get("input"), MODPH, case.modname)
    fake = ("x", None) + tuple(inp) if inp else ("x", None)
    old = rerun_same(ch, case.parser, cfg, fake, tmpdir)
    new = rerun_same(ch, build_parser(case.fields, case.mod), cfg, fake, tmpdir)
    print("generated module:\n" + case.src)
    print("input (%s):" % ch, json.dumps(case.ph(inp if inp else cfg), default=repr))
    print("parser object with a history ->", old[:2] if old else None)
    print("new parser object            ->", new[:2] if new else None)
    return 1 if old is not None and new is not None and verdict_of(old) != verdict_of(new) else 0


def replay(ctx: Ctx, body):
    repo_python_path()
    r = body["replay"]
    if r.get("kind") == "known_args":
        case = Case(r["spec"], {}, "replay")
        try:
            case.parser.parse_known_args(["--" + FOREIGN + "=1"])
        except NotImplementedError:
            print("parse_known_args refuses external callers")
            return 0
        except BaseException as ex:  # noqa: BLE001
            print("parse_known_args raised", type(ex).__name__)
            return 1
        print("parse_known_args accepted an external call")
        return 1
    if r.get("kind") == "known_args_callback":
        out, problems = known_args_callbacks()
        for where, outcome in out + problems:
            print("%-40s %s" % (where, outcome))
        return 1 if problems or any(o != "refused" for _, o in out) else 0
    if r.get("kind") == "postokens":
        return replay_postokens(r)
    if r.get("kind") == "history":
        return replay_history(ctx, r)
    if r.get("kind") != "oracle":
        print("nothing to replay (broken tie without a failing input):", json.dumps(r, default=repr)[:1500])
        return 1
    tmpdir = tempfile.mkdtemp(prefix="c06run_")
    atexit.register(shutil.rmtree, tmpdir, True)
    case = Case(r["spec"], r["cfg"], "replay")
    mut = rename_mod(r["mut"], MODPH, case.modname) if r.get("mut") else None
    cfg = mutate(case.cfg, mut) if mut else case.cfg
    print("generated module:\n" + case.src)
    print("configuration:", json.dumps(case.ph(cfg), default=repr))
    bad = 0
    for _ in range(8):   # argv / env renderings are randomised: try several
        res = run_channel(ctx.rng, r["channel"], case.parser, case.fields, cfg, tmpdir)
        if res is None:
            continue
        dev = oracle_judge(mut, res)
        print("channel %s ->" % r["channel"], res[:3], "| deviation:", dev)
        if dev is not None:
            bad = 1
            break
        if r["channel"] not in ("argv", "env", "file"):
            break
    return bad

"""C16 — Classes are instantiated in an order compatible with every link.

Pipeline
  1. build lean/Jap/Props/C16.lean (theorems over the model lean/Jap/Core/Graph.lean, all graphs / key lists).
  2. correspondence (model = Drv/Graph):
       a. real `DirectedGraph` (add_edge in the given insertion order, get_topological_order, cycle ValueError)
          vs model `topo`: exhaustive small digraphs in every insertion order + random graphs up to 8 nodes;
       b. real `ActionLink.reorder` vs model `reorder` on key/component lists with prefix-related names;
       c. real `ActionLink.instantiation_order(parser)` and the `reorder` call made by `instantiate_classes`
          on real parsers (the end-to-end scenarios) vs model `inst_order` / `components`; plus, on stub parsers,
          `instantiation_order` on every subset of target keys spread over up to four nesting levels (shared
          prefixes) in every declaration order.
  3. property oracle on the real code, independent of the model:
       i.   every graph: the returned order is a valid topological order (own check) or the graph really has a
            cycle through the reported edge (own DFS); real `reorder` == own stable sort by first matching key;
       ii.  end to end: real parsers over 2-4 components (class groups, subclass arguments, typed arguments,
            groups with nested subclass-typed parameters) whose classes live in a generated module and log their
            constructor calls; generated ACYCLIC instantiation links (object / attribute / compute_fn, one or two
            sources) in every declaration order: every source constructed before the object it feeds, each class
            exactly once, each fed parameter received the source object / attribute / compute_fn(sources);
       iii. link sets that close a cycle must raise ValueError at the `link_arguments` call that closes it
            (and not earlier).
  4. value flow: every end-to-end run the oracle accepts is also routed through the model `instantiateClasses`
     (Core/GraphFlow) along the component sequence the real call used: constructor sequence, the argument each fed
     parameter received (symbolic: obj / attr / compute_fn application), readiness, applied set popped at the end.
     After-failure oracle: on one parser a failing instantiate_classes call followed by a good one must behave
     like a first call and leave nothing on the parser or in the caller's cfg (C16_bookkeeping_fresh on real code).
     List targets: the end-to-end scenarios include arguments that are LISTS of subclass specs (parameter of a class group,
     top-level List[...] / Optional[List[...]] argument, list below a subclass spec) whose element classes have different
     signatures, and single subclass arguments whose class lacks the linked parameter; oracle: every element that has the
     parameter received the value, source first, every element constructed once, parameters no link feeds untouched.  The
     shape of the parsed cfg at each link's target action is read from the real cfg and handed to the model (`targetSlots`).
     Correspondence d: real ActionLink.set_target_value on hand-made configurations vs model `targetSlots`.
     Statement ties: Gen/LinkFlowSrc (extractor link_flow_src) pins the eight transcribed functions (tie_* theorems).
     Nested keys: the driver evaluates the decidable classes of the nested-key theorems (NestedKeysOK, ContainmentCovered,
     SourcesTopLevel) on every real parser; cross-check: excluded => the scenario is in the catalogued finding class, inside =>
     the real run built every source before every consumer.  Chains: links whose source is itself fed by another link, chains of
     3-5 components in four declaration orders, walked end to end by instance identity.
  5. open findings are replayed (still failing -> KNOWN-FINDING).
"""
from __future__ import annotations

import atexit
import itertools
import json
import os
import re
import shutil
import sys
import tempfile
import types
from typing import List, Optional

from ..lib.common import Ctx, MachineryError, repo_python_path

MANIFEST = {
    "engine": "E5-Graph",
    "technique": "Lean 4 proof of the DirectedGraph topological sort, of reorder, of the component order and of the value delivery of "
                 "set_target_value/apply_instantiation_links (all graphs / link sets / lists, no size bound) + statement ties of the eight transcribed "
                 "functions + exhaustive/random differential correspondence with the real DirectedGraph/ActionLink + end-to-end constructor-log oracle "
                 "on real parsers (class groups, subclass arguments, nested specs, lists of subclass specs with mixed signatures)",
    "text": "Theorems in lean/Jap/Props/C16.lean prove for every sequence of add_edge calls that get_topological_order returns a permutation of the "
            "nodes with every edge forward, fails only with an edge closing a real cycle, and succeeds iff the graph is acyclic (fuel n+1 suffices); that "
            "reorder is the stable sort by first matching key; that - for link sets of any size with sources and targets nested at any depth, outside "
            "the decidable class of a key that is only a source and contains a target (NestedKeysOK; the three nested findings are exactly the "
            "excluded classes NestedKeysOK / ContainmentCovered / SourcesTopLevel, each with its negation witness) - every source component precedes "
            "EVERY component consuming the link (C16_instantiate_nested), that instantiation_order rejects exactly the sets whose dependencies "
            "including containment are cyclic (C16_reject_cycle_nested), that constructor calls happen in chain order along chains of links of any "
            "length (C16_chain_delivery); and, on "
            "the value-flow model of set_target_value/apply_instantiation_links/instantiate_classes (applied-links set kept in the per-call cfg, opaque "
            "compute_fn table, constructor log, target positions = the target key or, for a target inside a list of subclass specs, the parameter in "
            "every item that has it), that every class component is constructed exactly once, every argument received through a link position is "
            "F(constructed source objects/attributes) and every position of every feeding link inside a component is filled whenever the sources are "
            "ready - which the order theorems give for acyclic link sets with owned keys and, without ownership, inside NestedKeysOK "
            "(C16_fed_value_nested); that a list target is written in every item having the "
            "parameter and nowhere else (C16_list_delivery); and that every call starts with an empty applied set because the bookkeeping lives in "
            "cfg (regenerated Gen/LinkBookkeeping). The statements of set_target_value, apply_instantiation_links, instantiation_order, reorder, "
            "DirectedGraph.add_edge/get_topological_order/topological_sort and of the component loop of instantiate_classes are regenerated into "
            "Gen/LinkFlowSrc and pinned by tie_* theorems. The model is tied to /repo by running the real DirectedGraph, ActionLink.reorder, "
            "ActionLink.instantiation_order and ActionLink.set_target_value against the model's executable definitions on exhaustive small graphs in "
            "every insertion order, random graphs, hand-made configurations and real parsers; the property itself is checked end to end from "
            "constructor logs of real parsers with generated acyclic and cyclic link sets in every declaration order.",
    "level_note": "Trusted: Lean kernel; axioms propext/Quot.sound/Classical.choice only; the correspondence harness; list(set) iteration order is taken "
                  "from the running interpreter and passed to the model; the shape of the parsed configuration at a link's target action (which items "
                  "of a list hold which keys) is read from the real cfg and passed to the model. The full component-order statement is false for the "
                  "code (open finding C16-nested-target-in-source: a link target nested inside a component that is only a link source); proved under "
                  "the decidable hypothesis NestedKeysOK (nested keys of any depth; the FlatKeys theorem is kept), negation proved on a witness; the "
                  "model's classes are cross-checked against the catalogued finding signatures and the real run on every scenario. Open finding C16-list-below-subclass-dropped: a list target below a "
                  "subclass spec receives nothing (model agrees with the code, witness in Props). Outside: interpreter recursion limit (chains of ~1000 "
                  "links), nested links applied inside a subclass (is_nested_instantiation_link), links whose source attribute is missing at run time, "
                  "the type check of a link into a whole subclass-typed argument, list items that are not Namespaces.",
}

FINDING_ORDER = "C16-nested-target-in-source"
FINDING_CYCLE = "C16-containment-cycle-accepted"
FINDING_NSRC = "C16-nested-source-after-enclosing-group"
FINDING_SUBLIST = "C16-list-below-subclass-dropped"
MODNAME = "c16_e2e_classes"
CYCLE_RE = re.compile(r"Graph has cycles, found while checking (.*) --> (.*)$", re.S)

# ---------------------------------------------------------------------------------------------
# real side: DirectedGraph / reorder
# ---------------------------------------------------------------------------------------------

def real_topo(edges):
    from jsonargparse._link_arguments import DirectedGraph

    g = DirectedGraph()
    for s, t in edges:
        g.add_edge(s, t)
    # snapshot before sorting: topological_sort reads edges_dict[source], which adds empty entries to the defaultdict
    res = {"nodes": list(g.nodes), "edges": [[k, list(v)] for k, v in g.edges_dict.items()]}
    try:
        order = g.get_topological_order()
    except ValueError as ex:
        m = CYCLE_RE.search(str(ex))
        if not m:
            return dict(res, other="ValueError:" + str(ex)[:80])
        return dict(res, cycle=[m.group(1), m.group(2)])
    except Exception as ex:  # noqa: BLE001 - the error class is the observation
        return dict(res, other=type(ex).__name__)
    return dict(res, ok=list(order))


def has_path(adj, src, dst):
    """own DFS: is dst reachable from src by >= 0 edges"""
    seen, stack = set(), [src]
    while stack:
        x = stack.pop()
        if x == dst:
            return True
        if x in seen:
            continue
        seen.add(x)
        stack.extend(adj.get(x, ()))
    return False


def kahn_acyclic(nodes, edges):
    indeg = {n: 0 for n in nodes}
    adj = {n: set() for n in nodes}
    for s, t in {(a, b) for a, b in edges}:
        if t not in adj[s]:
            adj[s].add(t)
            indeg[t] += 1
    ready = [n for n in nodes if indeg[n] == 0]
    done = 0
    while ready:
        n = ready.pop()
        done += 1
        for t in adj[n]:
            indeg[t] -= 1
            if indeg[t] == 0:
                ready.append(t)
    return done == len(nodes)


def graph_oracle(edges, res):
    """the property on one graph, independent of the model; returns a description of the failure or None"""
    nodes = []
    for s, t in edges:
        for n in (s, t):
            if n not in nodes:
                nodes.append(n)
    acyclic = kahn_acyclic(nodes, edges)
    if "ok" in res:
        o = res["ok"]
        if not acyclic:
            return "an order was returned for a graph that has a cycle"
        if sorted(o) != sorted(nodes) or len(set(o)) != len(o):
            return "returned order is not a permutation of the nodes"
        pos = {n: i for i, n in enumerate(o)}
        for s, t in edges:
            if not pos[s] < pos[t]:
                return "edge %s --> %s goes backwards in the returned order" % (s, t)
        return None
    if "cycle" in res:
        u, v = res["cycle"]
        if acyclic:
            return "a cycle was reported for an acyclic graph"
        if [u, v] not in [list(e) for e in edges]:
            return "the reported edge %s --> %s is not an edge" % (u, v)
        adj = {}
        for s, t in edges:
            adj.setdefault(s, []).append(t)
        if not has_path(adj, v, u):
            return "the reported edge %s --> %s does not close a cycle" % (u, v)
        return None
    return "unexpected outcome %r" % (res,)


def real_reorder(order, dests):
    from jsonargparse._link_arguments import ActionLink

    comps = [types.SimpleNamespace(dest=d, idx=i) for i, d in enumerate(dests)]
    out = ActionLink.reorder(list(order), comps)
    return [c.idx for c in out]


def ref_reorder(order, dests):
    """the property's reading: stable sort by the position of the first key that is the component or a dotted prefix of it"""
    def rank(d):
        for i, k in enumerate(order):
            if d == k or d[: len(k) + 1] == k + ".":
                return i
        return len(order)

    return sorted(range(len(dests)), key=lambda i: rank(dests[i]))


# ---------------------------------------------------------------------------------------------
# generators: graphs, reorder cases
# ---------------------------------------------------------------------------------------------
NODE_NAMES = ["a", "ab", "a.b", "b", "c", "a.b.c", "d", "ab.c"]


def all_edge_orders(n, loops):
    names = NODE_NAMES[:n]
    pairs = [(s, t) for s in names for t in names if loops or s != t]
    for k in range(len(pairs) + 1):
        for combo in itertools.combinations(pairs, k):
            for perm in itertools.permutations(combo):
                yield [list(e) for e in perm]


def all_digraphs(n, loops):
    names = NODE_NAMES[:n]
    pairs = [(s, t) for s in names for t in names if loops or s != t]
    for mask in range(1 << len(pairs)):
        yield [list(pairs[i]) for i in range(len(pairs)) if mask >> i & 1]


def random_graph(rng, max_nodes=8):
    n = rng.randint(1, max_nodes)
    names = rng.sample(NODE_NAMES, n) if n <= len(NODE_NAMES) else NODE_NAMES
    style = rng.random()
    m = rng.randint(0, min(n * n, 3 * n))
    edges = []
    if style < 0.5:  # acyclic: forward w.r.t. a hidden order (the list `names` is already shuffled)
        if n < 2:
            return []
        for _ in range(m):
            i, j = sorted(rng.sample(range(n), 2))
            edges.append([names[i], names[j]])
    elif style < 0.65:  # acyclic plus one back or self edge somewhere
        for _ in range(m):
            if n >= 2:
                i, j = sorted(rng.sample(range(n), 2))
                edges.append([names[i], names[j]])
        i, j = sorted((rng.randrange(n), rng.randrange(n)))
        edges.insert(rng.randint(0, len(edges)), [names[j], names[i]])
    else:
        for _ in range(m):
            edges.append([rng.choice(names), rng.choice(names)])
    rng.shuffle(edges)
    if edges and rng.random() < 0.3:  # duplicates exercise the de-duplication of add_edge
        edges.insert(rng.randint(0, len(edges)), list(rng.choice(edges)))
    return edges


KEY_POOL = ["a", "ab", "a.b", "b", "a.b.c", "a.bc", "ab.c", "a.init_args.b", "c", "", "a.", ".a"]


def random_reorder_case(rng):
    pool = KEY_POOL if rng.random() < 0.8 else KEY_POOL[:5]
    order = [rng.choice(pool) for _ in range(rng.randint(0, 5))]
    if rng.random() < 0.8:
        seen, o2 = set(), []
        for k in order:
            if k not in seen:
                seen.add(k)
                o2.append(k)
        order = o2
    dests = [rng.choice(pool) for _ in range(rng.randint(0, 6))]
    return {"order": order, "dests": dests}


def exhaustive_reorder_cases():
    pool = ["a", "ab", "a.b", "b", "a.b.c"]
    orders = [[]] + [[k] for k in pool] + [[k1, k2] for k1 in pool for k2 in pool if k1 != k2]
    for o in orders:
        for n in range(0, 4):
            for ds in itertools.product(pool, repeat=n):
                yield {"order": o, "dests": list(ds)}


# ---------------------------------------------------------------------------------------------
# end to end: generated classes, scenarios, oracle
# ---------------------------------------------------------------------------------------------
def classes_source():
    out = ["from typing import Any, List", "", "LOG = []", "", "", "def _log(name, obj, kw):", "    LOG.append((name, obj, dict(kw)))", "", ""]
    for i in range(6):
        out += [
            "class K%d:" % i,
            "    def __init__(self, p0: Any = 'K%d.p0', p1: Any = 'K%d.p1', p2: Any = 'K%d.p2', p3: Any = 'K%d.p3'):" % (i, i, i, i),
            "        _log('K%d', self, dict(p0=p0, p1=p1, p2=p2, p3=p3))" % i,
            "        self.p0, self.p1, self.p2, self.p3 = p0, p1, p2, p3",
            "        self.at = ['K%d.at']" % i,
            "        self.bt = ['K%d.bt']" % i,
            "", "",
            "class G%d:" % i,
            "    def __init__(self, g: Any = 'G%d.g', h: Any = 'G%d.h'):" % (i, i),
            "        _log('G%d', self, dict(g=g, h=h))" % i,
            "        self.g, self.h = g, h",
            "        self.at = ['G%d.at']" % i,
            "        self.bt = ['G%d.bt']" % i,
            "", "",
            "class C%d:" % i,
            "    def __init__(self, grandchild: G%d, p: Any = 'C%d.p', q: Any = 'C%d.q'):" % (i, i, i),
            "        _log('C%d', self, dict(grandchild=grandchild, p=p, q=q))" % i,
            "        self.grandchild, self.p, self.q = grandchild, p, q",
            "        self.at = ['C%d.at']" % i,
            "        self.bt = ['C%d.bt']" % i,
            "", "",
            "class R%d:" % i,
            "    def __init__(self, child: C%d, r: Any = 'R%d.r', r2: Any = 'R%d.r2'):" % (i, i, i),
            "        _log('R%d', self, dict(child=child, r=r, r2=r2))" % i,
            "        self.child, self.r, self.r2 = child, r, r2",
            "        self.at = ['R%d.at']" % i,
            "        self.bt = ['R%d.bt']" % i,
            "", "",
        ]
        out += [
            # a subclass of K<i> WITHOUT the parameters p0/p1 (a link into them finds no target: ignored, object untouched)
            "class K%dn(K%d):" % (i, i),
            "    def __init__(self, p2: Any = 'K%d.p2', p3: Any = 'K%d.p3'):" % (i, i),
            "        _log('K%dn', self, dict(p2=p2, p3=p3))" % i,
            "        self.p2, self.p3 = p2, p3",
            "        self.at = ['K%dn.at']" % i,
            "        self.bt = ['K%dn.bt']" % i,
            "", "",
            # elements of list-of-subclasses arguments: the log name carries the element's tag (given in the config)
            "class E%d:" % i,
            "    def __init__(self, tag: str = '', p0: Any = 'E%d.p0', p1: Any = 'E%d.p1'):" % (i, i),
            "        _log(type(self).__name__ + '@' + tag, self, dict(p0=p0, p1=p1))",
            "", "",
            "class E%da(E%d):" % (i, i),
            "    pass",
            "", "",
            "class E%dn(E%d):" % (i, i),
            "    def __init__(self, tag: str = '', q: Any = 'E%d.q'):" % i,
            "        _log('E%dn@' + tag, self, dict(q=q))" % i,
            "", "",
            "class E%dh(E%d):" % (i, i),
            "    def __init__(self, tag: str = '', p0: Any = 'E%d.p0'):" % i,
            "        _log('E%dh@' + tag, self, dict(p0=p0))" % i,
            "", "",
            "class L%d:" % i,
            "    def __init__(self, elems: List[E%d] = [], r: Any = 'L%d.r', r2: Any = 'L%d.r2'):" % (i, i, i),
            "        _log('L%d', self, dict(elems=elems, r=r, r2=r2))" % i,
            "        self.elems, self.r, self.r2 = elems, r, r2",
            "        self.at = ['L%d.at']" % i,
            "        self.bt = ['L%d.bt']" % i,
            "", "",
        ]
    out += [
        "def f1(*args):", "    return ['f1', *args]", "", "",
        "def f2(*args):", "    return ['f2', *args]", "",
    ]
    return "\n".join(out)


_TMP = {"dir": None, "mod": None}


def gen_module():
    """write the generated classes into a real module file in a temp dir and import it (once per process)"""
    if _TMP["mod"] is not None:
        return _TMP["mod"]
    d = tempfile.mkdtemp(prefix="c16_")
    _TMP["dir"] = d
    atexit.register(shutil.rmtree, d, True)
    with open(os.path.join(d, MODNAME + ".py"), "w") as f:
        f.write(classes_source())
    sys.path.insert(0, d)
    import importlib

    _TMP["mod"] = importlib.import_module(MODNAME)
    return _TMP["mod"]


# A scenario (JSON-able):
#   comps: [{"name": dest, "kind": "group"|"subclass"|"typed"|"deepgroup"|"deepsub", "cls": i}]   in declaration order
#   links: [{"sources": [[obj, attr|None], ...], "target": [obj, slot], "fn": None|"f1"|"f2"}]      in declaration order
# objects are named  "<comp>"  "<comp>/child"  "<comp>/child/grandchild"  (the latter two only for deep kinds)
#   list kinds (targets that are LISTS of subclass specs): {"kind": "listgroup"|"listarg"|"optlistarg", "elems": [variant, ...]}
#       listgroup: class group L<i>(elems: List[E<i>], r, r2); listarg: --name of type List[E<i>]; optlistarg: Optional[List[E<i>]]
#       variant "" = E<i>(p0, p1), "a" = subclass with the same signature, "n" = subclass WITHOUT p0/p1, "h" = subclass with p0 only
#       the elements are the pseudo object "<comp>/*" (a link target only): slot p0/p1 is fed into EVERY element whose class has it
#   flat subclass/typed components may carry "lacks": true: the class given in the config is K<i>n, which has no p0/p1
FLAT_KINDS = ("group", "subclass", "typed")
DEEP_KINDS = ("deepgroup", "deepsub")
#       sublist: subclass argument --name whose given class is L<i>; its elems are addressed as name.init_args.elems.init_args.<p>
#                (open finding C16-list-below-subclass-dropped: set_target_value drops such a link silently)
LIST_KINDS = ("listgroup", "listarg", "optlistarg", "sublist")
GEN_LIST_KINDS = ("listgroup", "listarg", "optlistarg", "listgroup", "listarg", "optlistarg", "sublist")
HOLDER_KINDS = ("listgroup", "sublist")  # the list is a parameter of an object L<i> that is constructed too
SLOTS = {"": ["p0", "p1", "p2", "p3"], "root": ["r", "r2"], "child": ["p", "q"], "grandchild": ["g", "h"], "elems": ["p0", "p1"]}
VARIANT_PARAMS = {"": ["p0", "p1"], "a": ["p0", "p1"], "n": ["q"], "h": ["p0"]}
LACKS_PARAMS = ["p2", "p3"]


def is_elems(obj):
    return obj.endswith("/*")


def slots_of(sc, obj):
    c = comp_by_name(sc, comp_of(obj))
    if c["kind"] in LIST_KINDS:
        return SLOTS["elems"] if is_elems(obj) else SLOTS["root"]
    if c["kind"] in DEEP_KINDS:
        return SLOTS[["root", "child", "grandchild"][obj_level(obj)]]
    return SLOTS[""]


def list_dest(c):
    """dest of the list-typed action of a list component"""
    return c["name"] + ".elems" if c["kind"] == "listgroup" else c["name"] + ".init_args.elems" if c["kind"] == "sublist" else c["name"]


def elem_log_name(c, j):
    return "E%d%s@%s#%d" % (c["cls"], c["elems"][j], c["name"], j)


def log_names(sc, obj):
    """names under which the constructor calls of an object show up in the log (several for the elements of a list)"""
    if is_elems(obj):
        c = comp_by_name(sc, comp_of(obj))
        return [elem_log_name(c, j) for j in range(len(c["elems"]))]
    return [class_of(sc, obj)]


def has_slot(sc, obj_log_name, obj, slot):
    """does the class constructed for this (element of the) object have the parameter `slot`"""
    c = comp_by_name(sc, comp_of(obj))
    if is_elems(obj):
        j = int(obj_log_name.rsplit("#", 1)[1])
        return slot in VARIANT_PARAMS[c["elems"][j]]
    if c.get("lacks") and obj_level(obj) == 0:
        return slot in LACKS_PARAMS
    return True


def comp_of(obj):
    return obj.split("/")[0]


def obj_level(obj):
    return obj.count("/")


def comp_by_name(sc, name):
    for c in sc["comps"]:
        if c["name"] == name:
            return c
    raise MachineryError("scenario refers to an unknown component " + name)


def objects_of(comp):
    if comp["kind"] in DEEP_KINDS:
        return [comp["name"] + "/child/grandchild", comp["name"] + "/child", comp["name"]]
    if comp["kind"] in HOLDER_KINDS:
        return [comp["name"] + "/*", comp["name"]]
    if comp["kind"] in LIST_KINDS:
        return [comp["name"] + "/*"]
    return [comp["name"]]


def class_of(sc, obj):
    c = comp_by_name(sc, comp_of(obj))
    if is_elems(obj):
        raise MachineryError("class_of on the elements of a list component")
    if c["kind"] in DEEP_KINDS:
        return "RCG"[obj_level(obj)] + str(c["cls"])
    if c["kind"] in HOLDER_KINDS:
        return "L%d" % c["cls"]
    return ("K%dn" if c.get("lacks") else "K%d") % c["cls"]


def source_key(sc, src):
    obj, attr = src
    c = comp_by_name(sc, comp_of(obj))
    key = c["name"]
    if obj_level(obj) == 1:
        key += ".child"
    elif obj_level(obj) == 2:
        key += ".child.grandchild"
    return key + ("." + attr if attr else "")


def target_key(sc, tgt):
    obj, slot = tgt
    c = comp_by_name(sc, comp_of(obj))
    name, kind, lvl = c["name"], c["kind"], obj_level(obj)
    if kind in LIST_KINDS:
        return "%s.init_args.%s" % (list_dest(c), slot) if is_elems(obj) else ("%s.init_args.%s" if kind == "sublist" else "%s.%s") % (name, slot)
    if kind == "group":
        return "%s.%s" % (name, slot)
    if kind in ("subclass", "typed"):
        return "%s.init_args.%s" % (name, slot)
    if kind == "deepgroup":
        return [name + ".%s", name + ".child.init_args.%s", name + ".child.init_args.grandchild.init_args.%s"][lvl] % slot
    return [name + ".init_args.%s", name + ".init_args.child.init_args.%s",
            name + ".init_args.child.init_args.grandchild.init_args.%s"][lvl] % slot


def object_edges(sc, links=None):
    """construction-order constraints between objects: containment (inner before outer) and links (source before fed object)"""
    edges = []
    for c in sc["comps"]:
        objs = objects_of(c)
        for inner, outer in zip(objs, objs[1:]):
            edges.append((inner, outer))
    for l in sc["links"] if links is None else links:
        for obj, _ in l["sources"]:
            edges.append((obj, l["target"][0]))
    return edges


def all_objects(sc):
    return [o for c in sc["comps"] for o in objects_of(c)]


def nested_target_in_source(sc, links=None):
    """signature of the open findings: some link's target object lies strictly inside the component (sub)object that
    is a source of some link (the link graph has no edge from such a nested target to the enclosing source)"""
    links = sc["links"] if links is None else links
    srcs = {obj for l in links for obj, _ in l["sources"]}
    for l in links:
        t = l["target"][0]
        for s in srcs:
            if t != s and t.startswith(s + "/"):
                return True
    return False


def nested_source_keys(sc, links=None):
    """keys of link sources that are nested objects (the child of a deep class group).  Third open finding: once the
    enclosing group has been instantiated (because a link key or the depth sort places it before the link's target),
    cfg[<nested source>] is gone and applying the link raises NSKeyError naming exactly that key."""
    links = sc["links"] if links is None else links
    return sorted({source_key(sc, [s, None]) for l in links for s, _ in l["sources"] if obj_level(s) >= 1})


def nested_source_below_linked(sc, links=None):
    return bool(nested_source_keys(sc, links))


def is_sublist_drop_failure(sc, fails):
    """signature of the open finding C16-list-below-subclass-dropped: every failure is "did not receive" for an element of
    a list that is a parameter of a class given as a subclass spec (target <arg>.init_args.elems.init_args.<p>)"""
    names = [c["name"] for c in sc["comps"] if c["kind"] == "sublist"]
    if not names or not fails:
        return False
    pat = re.compile(r"parameter (p0|p1) of E\d\w?@(%s)#\d+ did not receive the linked value" % "|".join(re.escape(n) for n in names))
    return all(pat.match(f) for f in fails)


def is_nested_source_failure(sc, fails):
    keys = nested_source_keys(sc)
    return bool(keys) and bool(fails) and all("NSKeyError" in f and any('Key "%s"' % k in f for k in keys) for f in fails)


def build_parser(sc):
    """returns (parser, raised_at, error): links are added in declaration order; stops at the first ValueError"""
    from jsonargparse import ArgumentParser

    mod = gen_module()
    parser = ArgumentParser(exit_on_error=False)
    for c in sc["comps"]:
        if c["kind"] in LIST_KINDS:
            if c["kind"] == "listgroup":
                parser.add_class_arguments(getattr(mod, "L%d" % c["cls"]), c["name"])
            elif c["kind"] == "sublist":
                parser.add_subclass_arguments(getattr(mod, "L%d" % c["cls"]), c["name"])
            else:
                et = List[getattr(mod, "E%d" % c["cls"])]
                parser.add_argument("--" + c["name"], type=Optional[et] if c["kind"] == "optlistarg" else et)
            continue
        cls = getattr(mod, ("R%d" if c["kind"] in DEEP_KINDS else "K%d") % c["cls"])
        if c["kind"] in ("group", "deepgroup"):
            parser.add_class_arguments(cls, c["name"])
        elif c["kind"] in ("subclass", "deepsub"):
            parser.add_subclass_arguments(cls, c["name"])
        else:
            parser.add_argument("--" + c["name"], type=cls)
    for i, l in enumerate(sc["links"]):
        src = tuple(source_key(sc, s) for s in l["sources"])
        fn = getattr(mod, l["fn"]) if l.get("fn") else None
        try:
            parser.link_arguments(src if len(src) > 1 or fn else src[0], target_key(sc, l["target"]), fn, apply_on="instantiate")
        except ValueError as ex:
            return parser, i, str(ex)
    return parser, None, None


def parse_args_for(sc):
    args = []
    for c in sc["comps"]:
        n, i = c["name"], c["cls"]
        child = {"class_path": "%s.C%d" % (MODNAME, i), "init_args": {"grandchild": {"class_path": "%s.G%d" % (MODNAME, i)}}}
        if c["kind"] in LIST_KINDS:
            elems = [{"class_path": "%s.E%d%s" % (MODNAME, i, v), "init_args": {"tag": "%s#%d" % (n, j)}} for j, v in enumerate(c["elems"])]
            if c["kind"] == "sublist":
                args.append("--%s=%s" % (n, json.dumps({"class_path": "%s.L%d" % (MODNAME, i), "init_args": {"elems": elems}})))
            else:
                args.append("--%s=%s" % (list_dest(c), json.dumps(elems)))
        elif c["kind"] in ("subclass", "typed"):
            args.append("--%s=%s.K%d%s" % (n, MODNAME, i, "n" if c.get("lacks") else ""))
        elif c["kind"] == "deepgroup":
            args.append("--%s.child=%s" % (n, json.dumps(child)))
        elif c["kind"] == "deepsub":
            args.append("--%s=%s" % (n, json.dumps({"class_path": "%s.R%d" % (MODNAME, i), "init_args": {"child": child}})))
    return args


class Recorder:
    """records (a) arguments and result of the ActionLink.reorder calls (the first one is the component call) and
    (b) after every apply_instantiation_links(parser, cfg, target=dest) the set of links marked as applied"""

    def __init__(self):
        self.calls = []
        self.applied = []

    def __enter__(self):
        from jsonargparse._link_arguments import ActionLink

        self.cls = ActionLink
        self.orig = ActionLink.__dict__["reorder"]
        self.orig_apply = ActionLink.__dict__["apply_instantiation_links"]
        orig_fn = ActionLink.reorder
        orig_apply_fn = ActionLink.apply_instantiation_links
        rec = self

        def wrapper(order, components):
            res = orig_fn(order, components)
            try:
                rec.calls.append({"order": list(order), "dests": [c.dest for c in components], "result": [c.dest for c in res]})
            except Exception:  # noqa: BLE001
                pass
            return res

        def apply_wrapper(parser, cfg, target=None, order=None):
            res = orig_apply_fn(parser, cfg, target=target, order=order)
            try:
                key = "__applied_instantiation_links__"
                if target is not None and key in cfg:
                    rec.applied.append((parser, target, [id(a) for a in cfg[key]]))
            except Exception:  # noqa: BLE001
                pass
            return res

        ActionLink.reorder = staticmethod(wrapper)
        ActionLink.apply_instantiation_links = staticmethod(apply_wrapper)
        return self

    def __exit__(self, *a):
        setattr(self.cls, "reorder", self.orig)
        setattr(self.cls, "apply_instantiation_links", self.orig_apply)

    def schedule(self, parser):
        """[[component dest, [indices of the links newly marked applied at it]], ...] for the top-level parser"""
        from jsonargparse._link_arguments import get_link_actions

        index = {id(a): i for i, a in enumerate(get_link_actions(parser, "instantiate"))}
        out, prev = [], set()
        for p, target, ids in self.applied:
            if p is not parser:
                continue
            cur = set(ids)
            out.append([target, sorted(index.get(i, -1) for i in cur - prev)])
            prev = cur
        return out


def run_acyclic(sc):
    """oracle ii on one scenario; returns (failures, observations)"""
    mod = gen_module()
    obs = {}
    fails = []
    try:
        parser, raised_at, err = build_parser(sc)
    except Exception as ex:  # noqa: BLE001
        return ["exception while building the parser: %s: %s" % (type(ex).__name__, str(ex)[:200])], obs
    if raised_at is not None:
        return ["link %d of an acyclic set was rejected: %s" % (raised_at, err[:200])], obs
    obs["parser"] = parser
    del mod.LOG[:]
    try:
        cfg = parser.parse_args(parse_args_for(sc))
        obs["targets"] = target_shapes(parser, cfg)  # snapshot before instantiation
        rec = Recorder()
        try:
            with rec:
                parser.instantiate_classes(cfg)
        finally:
            obs["reorder_calls"] = rec.calls  # also when the call raises: the component order was computed before
        obs["schedule"] = rec.schedule(parser)
    except Exception as ex:  # noqa: BLE001
        fails.append("exception: %s: %s" % (type(ex).__name__, str(ex)[:200]))
    log = list(mod.LOG)
    del mod.LOG[:]
    obs["log"] = [n for n, _, _ in log]
    obs["log_full"] = [[n, {k: canon_val(sc, v) for k, v in kw.items()}] for n, _, kw in log]  # snapshot now: live objects
    if fails:
        return fails, obs
    # each class exactly once
    first = {}
    for idx, (name, inst, kw) in enumerate(log):
        if name in first:
            fails.append("class %s constructed more than once" % name)
        else:
            first[name] = (idx, inst, kw)
    expected_names = [n for o in all_objects(sc) for n in log_names(sc, o)]
    for o in all_objects(sc):
        for n in log_names(sc, o):
            if n not in first:
                fails.append("class %s (object %s) was not constructed" % (n, o))
    for n in first:
        if n not in expected_names:
            fails.append("unexpected constructor call %s" % n)
    if fails:
        return fails, obs
    fed = set()
    for l in sc["links"]:
        tobj, slot = l["target"]
        # a list target: every element whose class has the parameter; a single target whose class lacks it: nothing
        for tname in log_names(sc, tobj):
            if not has_slot(sc, tname, tobj, slot):
                continue
            fed.add((tname, slot))
            tidx, _, tkw = first[tname]
            expected = []
            for sobj, attr in l["sources"]:
                sidx, sinst, _ = first[class_of(sc, sobj)]
                if not sidx < tidx:
                    fails.append("source %s constructed after the object %s it feeds" % (sobj, tname if is_elems(tobj) else tobj))
                expected.append(getattr(sinst, attr) if attr else sinst)
            got = tkw[slot]
            want = [l["fn"]] + expected if l.get("fn") else expected[0]
            ok = same_value(got, want)
            if not ok:
                fails.append("parameter %s of %s did not receive the linked value (got %s)" % (slot, tname if is_elems(tobj) else tobj, type(got).__name__ if not isinstance(got, str) else got))
    if not fails:
        fails.extend(chain_walk_failure(sc, first))
    # parameters no link feeds are untouched: a plain-data parameter still holds its default "<Class>.<param>"
    for n, (_, _, kw) in first.items():
        for k, v in kw.items():
            if (n, k) not in fed and isinstance(v, list) and v and v[0] in ("f1", "f2"):
                fails.append("parameter %s of %s holds a linked value although no link feeds it" % (k, n))
            elif (n, k) not in fed and re.fullmatch(r"[KRCGLE]\d\w?", type(v).__name__) and k not in ("child", "grandchild"):
                fails.append("parameter %s of %s holds a source object although no link feeds it" % (k, n))
    return fails, obs


def _ns_keys(ns):
    """every key path (leaf and branch) below a Namespace, as `in` would answer"""
    from jsonargparse import Namespace

    out = []
    for k, v in vars(ns).items():
        out.append(k)
        if isinstance(v, Namespace):
            out.extend(k + "." + x for x in _ns_keys(v))
    return out


def target_shapes(parser, cfg):
    """per instantiation link (declaration order) what set_target_value will find: the dest of the target action, whether
    it is subclass-typed (lists included), and the shape of the parsed value there - read off the REAL parser and cfg"""
    from jsonargparse import Namespace
    from jsonargparse._link_arguments import get_link_actions
    from jsonargparse._typehints import ActionTypeHint

    out = []
    for a in get_link_actions(parser, "instantiate"):
        ta = a.target[1]
        tsub = bool(ActionTypeHint.is_subclass_typehint(ta, all_subtypes=False, also_lists=True))
        parent = cfg.get(ta.dest) if tsub else None
        if isinstance(parent, Namespace):
            shape = {"single": sorted(_ns_keys(parent))}
        elif isinstance(parent, list):
            shape = {"list": [sorted(_ns_keys(i)) if isinstance(i, Namespace) else None for i in parent]}
        else:
            shape = {"gone": True}
        out.append({"tdest": ta.dest, "tsub": tsub, "parent": shape})
    return out


def dest_of_class(sc, clsname):
    """flow-model component dest of the object a generated class is constructed for (as a link source would name it)"""
    for o in all_objects(sc):
        if not is_elems(o) and class_of(sc, o) == clsname:
            c = comp_by_name(sc, comp_of(o))
            if c["kind"] == "deepgroup" and obj_level(o) >= 1:
                return c["name"] + ".child" if obj_level(o) == 1 else c["name"] + ".child.grandchild"
            return c["name"] if obj_level(o) == 0 or c["kind"] == "deepgroup" else c["name"] + "/" + "/".join(o.split("/")[1:])
    return "?" + clsname


def canon_val(sc, v):
    """a value received by a constructor, in the model's symbolic form (Val of Core/GraphFlow)"""
    from jsonargparse import Namespace

    if isinstance(v, str):
        return {"raw": v}
    if isinstance(v, list) and v and v[0] in ("f1", "f2"):
        return {"app": [v[0], [canon_val(sc, x) for x in v[1:]]]}
    if isinstance(v, list) and len(v) == 1 and isinstance(v[0], str) and v[0][-3:] in (".at", ".bt"):  # e.g. ['K0n.at']
        return {"attr": [{"obj": dest_of_class(sc, v[0][:-3])}, v[0][-2:]]}
    if isinstance(v, (Namespace, dict)):
        return {"ns": "?"}
    name = type(v).__name__
    if re.fullmatch(r"[KRCGL]\dn?", name):
        return {"obj": dest_of_class(sc, name)}
    return {"other": name}


def flow_case(sc, reorder_call, targets):
    """driver input for the value-flow model: the scenario's links (each with what the REAL parser/cfg hold at its target
    action: dest, subclass-typed?, shape of the parsed value), the order and the component sequence the real
    instantiate_classes used (recorded), each component flagged: constructs a class"""
    classes = set()
    for c in sc["comps"]:
        if c["kind"] in LIST_KINDS:
            if c["elems"] and c["kind"] != "sublist":
                classes.add(list_dest(c))  # builds the elements (an empty list shows no constructor call)
            if c["kind"] in HOLDER_KINDS:
                classes.add(c["name"])  # sublist: the elements are built inside the subclass component itself
            continue
        classes.add(c["name"])
        if c["kind"] == "deepgroup":
            classes.add(c["name"] + ".child")
    links = [{"sources": [[source_key(sc, [o, None]), a] for o, a in l["sources"]], "target": target_key(sc, l["target"]), "fn": l.get("fn"),
              "tdest": t["tdest"], "tsub": t["tsub"], "parent": t["parent"]}
             for l, t in zip(sc["links"], targets)]
    return {"op": "flow", "links": links, "order": reorder_call["order"], "comps": [[d, d in classes] for d in reorder_call["result"]]}


def item_key(tdest, j, child_key):
    """the model's name for `cfg[tdest][j][child_key]` (Core/GraphFlow.itemKey)"""
    return "%s.#%d.%s" % (tdest, j, child_key)


def flow_expectation(sc, log_full):
    """what the real run showed, in the shape of the model's answer: (component construction sequence,
    {target key: received value}) — the received value is read from the constructor call of the class owning the slot"""
    seq = []
    for name, _ in log_full:
        o = next(x for x in all_objects(sc) if name in log_names(sc, x))
        c = comp_by_name(sc, comp_of(o))
        if is_elems(o):
            d = c["name"] if c["kind"] == "sublist" else list_dest(c)
        else:
            d = c["name"] + ".child" if (c["kind"] == "deepgroup" and obj_level(o) >= 1) else c["name"]
        if not seq or seq[-1] != d:
            seq.append(d)
    received = {}
    kws = {n: kw for n, kw in log_full}
    for l in sc["links"]:
        tobj, slot = l["target"]
        if is_elems(tobj):  # one position per element; an element whose class lacks the parameter received nothing (None)
            c = comp_by_name(sc, comp_of(tobj))
            for j, n in enumerate(log_names(sc, tobj)):
                received[item_key(list_dest(c), j, "init_args." + slot)] = kws.get(n, {}).get(slot)
        else:
            received[target_key(sc, l["target"])] = kws.get(class_of(sc, tobj), {}).get(slot)
    return seq, received


def same_value(got, want):
    """constructed objects by identity; attribute values (lists of strings) and compute_fn results by structure
    (values routed into a subclass's init_args are copied by the library, instances are not)"""
    if isinstance(want, list):
        return isinstance(got, list) and len(got) == len(want) and all(same_value(a, b) for a, b in zip(got, want))
    if isinstance(want, str):
        return got == want
    return got is want


def first_cycle_index(sc):
    """index of the first link (declaration order) that closes a cycle among the objects, or None"""
    objs = all_objects(sc)
    for i in range(len(sc["links"])):
        if not kahn_acyclic(objs, object_edges(sc, sc["links"][: i + 1])):
            return i
    return None


def run_cyclic(sc):
    """oracle iii; returns (failures, rejected_index)"""
    want = first_cycle_index(sc)
    try:
        _, raised_at, err = build_parser(sc)
    except Exception as ex:  # noqa: BLE001
        return ["exception other than ValueError while adding links: %s: %s" % (type(ex).__name__, str(ex)[:200])], None
    if raised_at == want:
        if want is not None and "cycle" not in (err or ""):
            return ["link %d rejected, but not as a cycle: %s" % (want, (err or "")[:160])], raised_at
        return [], raised_at
    if raised_at is None:
        return ["link %d closes a cycle but link_arguments accepted it" % want], raised_at
    if want is None or raised_at < want:
        return ["link %d does not close a cycle but was rejected: %s" % (raised_at, (err or "")[:160])], raised_at
    return ["link %d closes a cycle but link_arguments accepted it (a later link %d was rejected)" % (want, raised_at)], raised_at


# ----- scenario generation ------------------------------------------------------------------
COMP_NAMES = ["a", "ab", "b", "a_b", "m.a", "m.b", "c"]


def gen_elems(rng):
    """element classes of a list argument: 0-4 elements, mixed signatures more often than not"""
    k = rng.choice([0, 1, 2, 2, 3, 3, 4])
    return [rng.choice(["", "a", "n", "n", "h"]) for _ in range(k)]


def gen_shape(rng, deep_bias=0.45, list_bias=0.4):
    """components + an acyclic link set (declaration order = generation order); returns a scenario"""
    n = rng.randint(2, 4)
    names = rng.sample(COMP_NAMES, n)
    comps = []
    for i, nm in enumerate(names):
        r = rng.random()
        pd = deep_bias / (1 + sum(c["kind"] in DEEP_KINDS for c in comps))
        pl = list_bias / (1 + sum(c["kind"] in LIST_KINDS for c in comps))
        if r < pd:
            comps.append({"name": nm, "kind": rng.choice(DEEP_KINDS), "cls": i})
        elif r < pd + pl * (1 - pd):
            comps.append({"name": nm, "kind": rng.choice(GEN_LIST_KINDS), "cls": i, "elems": gen_elems(rng)})
        else:
            c = {"name": nm, "kind": rng.choice(FLAT_KINDS), "cls": i}
            if c["kind"] != "group" and rng.random() < 0.2:
                c["lacks"] = True  # the class given in the config has no p0/p1: links into them find no target
            comps.append(c)
    sc = {"comps": comps, "links": []}
    # hidden construction order of all objects, consistent with containment
    objs = all_objects(sc)
    while True:
        rng.shuffle(objs)
        pos = {o: i for i, o in enumerate(objs)}
        if all(pos[a] < pos[b] for a, b in object_edges(sc, [])):
            break
    free = {o: list(slots_of(sc, o)) for o in objs}
    n_links = rng.randint(1, 5)
    for _ in range(n_links * 3):
        if len(sc["links"]) >= n_links:
            break
        t = rng.choice(objs)
        if not free[t]:
            continue
        cands = [o for o in objs if pos[o] < pos[t] and source_allowed(sc, o) and comp_of(o) != comp_of(t)]
        if not cands:
            continue
        fn = rng.choice([None, None, "f1", "f2"])
        k = 2 if fn and len(cands) >= 2 and rng.random() < 0.4 else 1
        srcs = [[o, rng.choice([None, "at", "bt"])] for o in rng.sample(cands, k)]
        slot = free[t].pop(0)
        sc["links"].append({"sources": srcs, "target": [t, slot], "fn": fn})
    return sc


def source_allowed(sc, obj):
    """which objects can be named as a link source: a component, or the child of a deep *group*"""
    lvl = obj_level(obj)
    if lvl == 0:
        return True
    return lvl == 1 and comp_by_name(sc, comp_of(obj))["kind"] == "deepgroup"


def declaration_orders(sc, rng, cap):
    """the scenario in every declaration order of components and links (all of them when there are at most `cap`, else a sample)"""
    nc, nl = len(sc["comps"]), len(sc["links"])
    total = 1
    for k in range(2, nc + 1):
        total *= k
    for k in range(2, nl + 1):
        total *= k
    if total <= cap:
        for pc in itertools.permutations(sc["comps"]):
            for pl in itertools.permutations(sc["links"]):
                yield {"comps": list(pc), "links": list(pl)}
    else:
        seen = set()
        for _ in range(cap):
            pc = rng.sample(sc["comps"], nc)
            pl = rng.sample(sc["links"], nl)
            key = json.dumps([pc, pl], sort_keys=True)
            if key not in seen:
                seen.add(key)
                yield {"comps": pc, "links": pl}


FLAT_NAMES = ["a", "ab", "a_b", "b"]


def flat_scenario(n, mask, kinds_shift=0):
    """the labelled digraph `mask` on n flat components (bit i*n+j = link from component i into component j) as a scenario;
    component kinds and link kinds vary deterministically with the mask"""
    comps = [{"name": FLAT_NAMES[i], "kind": FLAT_KINDS[(i + mask + kinds_shift) % 3], "cls": i} for i in range(n)]
    links, used = [], [0] * n
    for i in range(n):
        for j in range(n):
            if mask >> (i * n + j) & 1:
                style = (i * 5 + j * 3 + mask) % 4
                links.append({"sources": [[FLAT_NAMES[i], [None, "at", None, "bt"][style]]], "target": [FLAT_NAMES[j], "p%d" % used[j]],
                              "fn": [None, None, "f1", "f2"][style]})
                used[j] += 1
    return {"comps": comps, "links": links}


def exhaustive_flat(n, loops):
    """every labelled digraph with at least one link on n flat components: yields (scenario, is_cyclic)"""
    for mask in range(1, 1 << (n * n)):
        if not loops and any(mask >> (i * n + i) & 1 for i in range(n)):
            continue
        sc = flat_scenario(n, mask)
        yield sc, first_cycle_index(sc) is not None


def gen_cyclic(rng, base):
    """an acyclic scenario plus one link that closes a cycle among the objects, inserted at a random declaration position"""
    sc = {"comps": base["comps"], "links": [dict(l) for l in base["links"]]}
    objs = all_objects(sc)
    edges = object_edges(sc)
    adj = {}
    for s, t in edges:
        adj.setdefault(s, []).append(t)
    used = {(l["target"][0], l["target"][1]) for l in sc["links"]}
    cands = []
    for t in objs:
        for s in objs:
            if source_allowed(sc, s) and has_path(adj, t, s):  # t ->* s, the new link s -> t closes a cycle (s == t: self link)
                cands.append((s, t))
    rng.shuffle(cands)
    for s, t in cands:
        freeslots = [x for x in slots_of(sc, t) if (t, x) not in used]
        if not freeslots:
            continue
        fn = rng.choice([None, "f1"])
        link = {"sources": [[s, rng.choice([None, "at"])]], "target": [t, freeslots[-1]], "fn": fn}
        sc["links"].insert(rng.randint(0, len(sc["links"])), link)
        return sc
    return None


# ----- correspondence c: instantiation_order / component order on a real parser --------------
def py_target_node(key):
    head = key.rsplit(".", 1)[0]
    return head[: -len(".init_args")] if head.endswith(".init_args") else head


def model_links_of(parser):
    from jsonargparse._link_arguments import get_link_actions

    links, targets = [], set()
    for a in get_link_actions(parser, "instantiate"):
        links.append({"sources": [sa.dest for _, sa in a.source], "target": a.target[0]})
        targets.add(py_target_node(a.target[0]))  # same insertion sequence as the code => same iteration order in this process
    return links, list(targets)


def real_inst_order(parser):
    from jsonargparse._link_arguments import ActionLink

    try:
        return {"ok": list(ActionLink.instantiation_order(parser))}
    except ValueError as ex:
        m = CYCLE_RE.search(str(ex))
        return {"cycle": [m.group(1), m.group(2)]} if m else {"other": str(ex)[:80]}


class _StubLink:
    """hashable stand-in for an ActionLink (get_link_actions tests `a not in skip`)"""

    def __init__(self, sources, target):
        self.apply_on = "instantiate"
        self.target = (target, None)
        self.source = [(s, types.SimpleNamespace(dest=s)) for s in sources]


def fake_parser(links):
    """the only things instantiation_order reads from a parser: _links_group._group_actions[*].apply_on/.target/.source"""
    acts = [_StubLink(l["sources"], l["target"]) for l in links]
    return types.SimpleNamespace(_links_group=types.SimpleNamespace(_group_actions=acts))


# link target keys on up to four nesting levels below one group / one subclass argument, plus unrelated ones
TARGET_POOLS = [
    ["root.r", "root.child.init_args.p", "root.child.init_args.grandchild.init_args.g",
     "root.child.init_args.grandchild.init_args.sub.init_args.z", "other.q", "root.child2.init_args.p"],
    ["x.init_args.r", "x.init_args.child.init_args.p", "x.init_args.child.init_args.grandchild.init_args.g",
     "x.init_args.child.init_args.q", "y.init_args.p0", "x.init_args.childinit_args.w"],
]
PURE_SOURCES = ["s0", "s1", "s2", "s3"]


def pure_link_sets(thorough):
    """link lists (pure inputs of instantiation_order): every subset of <= 4 (thorough: <= 5) targets of a pool, three source
    assignments, EVERY declaration order"""
    kmax = 5 if thorough else 4
    for pool in TARGET_POOLS:
        for k in range(1, kmax + 1):
            for combo in itertools.combinations(pool, k):
                variants = [
                    [{"sources": [PURE_SOURCES[i % 4]], "target": t} for i, t in enumerate(combo)],      # distinct sources
                    [{"sources": ["s0"], "target": t} for t in combo],                                     # one common source
                    [{"sources": [PURE_SOURCES[i % 4], PURE_SOURCES[(i + 1) % 4]], "target": t} for i, t in enumerate(combo)],
                ]
                if k > 4:
                    variants = variants[:1]
                for links in variants:
                    for perm in itertools.permutations(links):
                        yield list(perm)


def correspond_pure_inst_order(ctx, state):
    """correspondence c': real ActionLink.instantiation_order on stub parsers vs model, multi-level shared-prefix targets"""
    cases = list(pure_link_sets(ctx.thorough))
    lines, reals = [], []
    for links in cases:
        targets = set()
        for l in links:
            targets.add(py_target_node(l["target"]))  # same insertion sequence as the code => same iteration order
        lines.append({"op": "inst_order", "links": links, "set_order": list(targets)})
        reals.append(real_inst_order(fake_parser(links)))
    model = driver(ctx, lines, "instantiation_order (pure)")
    ctx.extra["pure_instantiation_order_cases"] = len(cases)
    if model is None:
        return
    for links, real, m in zip(cases, reals, model):
        ctx.count()
        levels = len({py_target_node(l["target"]).count(".") for l in links})
        ctx.hist("pure_inst_order_target_levels", levels)
        if levels >= 2:
            ctx.nontrivial("P" + json.dumps(links, sort_keys=True))
        got = {k: v for k, v in m.items() if k in ("ok", "cycle")}
        if got != real:
            state["inst_disagreements"] += 1
            if state["inst_disagreements"] <= 3:
                ctx.tie_break("correspondence E5 (ActionLink.instantiation_order vs model, multi-level targets) disagrees",
                              json.dumps({"links": links, "real": real, "model": m})[:1800])


def three_level_scenarios():
    """deterministic family: links from distinct (and shared) sources into ALL THREE nesting levels of one deep component,
    every declaration order of the links"""
    styles = [
        [("at", None), ("at", None), ("at", None)],
        [(None, None), ("bt", "f1"), (None, "f2")],
    ]
    for kind in DEEP_KINDS:
        for si, style in enumerate(styles):
            comps = [{"name": "a", "kind": FLAT_KINDS[si % 3], "cls": 0}, {"name": "ab", "kind": FLAT_KINDS[(si + 1) % 3], "cls": 1},
                     {"name": "c", "kind": "group", "cls": 2}, {"name": "root", "kind": kind, "cls": 3}]
            tg = [["root/child/grandchild", "g"], ["root/child", "p"], ["root", "r"]]
            links = [{"sources": [[["a", "ab", "c"][i], style[i][0]]], "target": tg[i], "fn": style[i][1]} for i in range(3)]
            for pl in itertools.permutations(links):
                yield {"comps": comps, "links": list(pl)}
            # two links into the deepest level and one into each other level, sources shared
            links4 = links + [{"sources": [["c", None], ["a", "at"]], "target": ["root/child/grandchild", "h"], "fn": "f1"}]
            for pl in itertools.permutations(links4):
                yield {"comps": comps[::-1], "links": list(pl)}


# ----- correspondence d: ActionLink.set_target_value on hand-made configurations ---------------
STV_CHILD_KEYS = ["init_args.p0", "init_args.p1", "init_args.child.init_args.q"]


def stv_parser():
    """one real parser whose actions serve as target actions: a subclass argument, a list of subclasses, an optional list, a
    union with a list, and a plain parameter of a class group"""
    from jsonargparse import ArgumentParser

    mod = gen_module()
    p = ArgumentParser(exit_on_error=False)
    p.add_argument("--one", type=mod.E0)
    p.add_argument("--lst", type=List[mod.E0])
    p.add_argument("--opt", type=Optional[List[mod.E0]])
    p.add_class_arguments(mod.K0, "g")
    return p, {a.dest: a for a in p._actions if a.dest in ("one", "lst", "opt", "g.p0")}


def stv_item(rng):
    """a subclass spec with a random subset of the parameters present (every key path that `in` answers for)"""
    keys = [k for k in STV_CHILD_KEYS if rng.random() < 0.5]
    return sorted(set(["class_path"] + [k[: i] for k in keys for i in range(len(k) + 1) if i == len(k) or k[i] == "."]))


def stv_cases(rng, n):
    """(dest, child key or None for a plain parameter, parent shape)"""
    fixed = []
    full = stv_item(type("R", (), {"random": staticmethod(lambda: 0.0)}))
    none = ["class_path"]
    for dest in ("lst", "opt"):
        for ck in STV_CHILD_KEYS[:2]:
            has = sorted(set(none + ["init_args", ck]))
            for shape in ([], [has], [none], [has, none], [none, has], [has, none, has], [none, none], [has, has], [none, has, none, has]):
                fixed.append((dest, ck, {"list": shape}))
    for ck in STV_CHILD_KEYS:
        fixed += [("one", ck, {"single": full}), ("one", ck, {"single": none}), ("one", ck, {"gone": True}), ("lst", ck, {"gone": True})]
    fixed.append(("g.p0", None, {"gone": True}))
    out = list(fixed)
    for _ in range(n):
        dest = rng.choice(["one", "lst", "opt", "opt", "lst", "g.p0"])
        if dest == "g.p0":
            out.append((dest, None, {"gone": True}))
            continue
        r = rng.random()
        if r < 0.15:
            shape = {"gone": True}
        elif r < 0.4:
            shape = {"single": stv_item(rng)}   # a Namespace where a list is expected is legal input for set_target_value too
        else:
            shape = {"list": [stv_item(rng) for _ in range(rng.randint(0, 5))]}
        out.append((dest, rng.choice(STV_CHILD_KEYS), shape))
    return out


def _ns_from_keys(keys):
    from jsonargparse import Namespace

    ns = Namespace()
    for k in sorted(keys, key=len):
        if any(o != k and o.startswith(k + ".") for o in keys):
            ns[k] = Namespace()
        else:
            ns[k] = "cfg:" + k
    return ns


def real_set_target_value(actions, dest, ck, shape):
    """run the real ActionLink.set_target_value; returns the list of positions that hold the value afterwards
    (model naming: the target key, or dest.#j.child_key for item j of a list), or {"error": ...}"""
    import logging

    from jsonargparse import Namespace
    from jsonargparse._link_arguments import ActionLink

    sentinel = ("linked-value",)
    cfg = Namespace()
    if "single" in shape:
        cfg[dest] = _ns_from_keys(shape["single"])
    elif "list" in shape:
        cfg[dest] = [_ns_from_keys(k) for k in shape["list"]]
    elif ck is not None:
        cfg[dest] = None
    if ck is None:
        cfg["g"] = Namespace(p0="cfg:g.p0")
    target_key = dest if ck is None else dest + "." + ck
    link = types.SimpleNamespace(target=(target_key, actions[dest]), option_strings=["lnk"])
    try:
        ActionLink.set_target_value(link, sentinel, cfg, logging.getLogger("c16-null"))
    except Exception as ex:  # noqa: BLE001
        return {"error": type(ex).__name__}
    out = []
    parent = cfg.get(dest)
    if isinstance(parent, list):
        for j, item in enumerate(parent):
            for k in (item.keys() if isinstance(item, Namespace) else []):
                if item[k] is sentinel:
                    out.append(item_key(dest, j, k))
    for k in cfg.keys():
        v = cfg.get(k)
        if v is sentinel:
            out.append(k)
    return out


def correspond_set_target_value(ctx, state):
    """correspondence d: real ActionLink.set_target_value vs model `targetSlots` - which positions receive the value, for
    subclass arguments / lists of subclass specs (mixed, homogeneous, empty) / plain parameters"""
    from jsonargparse._typehints import ActionTypeHint

    _, actions = stv_parser()
    cases = stv_cases(ctx.rng, ctx.budget(400, 4000) * ctx.search_boost)
    lines, reals = [], []
    for dest, ck, shape in cases:
        tsub = bool(ActionTypeHint.is_subclass_typehint(actions[dest], all_subtypes=False, also_lists=True))
        tk = dest if ck is None else dest + "." + ck
        lines.append({"op": "slots", "links": [{"sources": [["s", None]], "target": tk, "fn": None, "tdest": dest, "tsub": tsub, "parent": shape}]})
        reals.append(real_set_target_value(actions, dest, ck, shape))
    model = driver(ctx, lines, "set_target_value")
    ctx.extra["set_target_value_cases"] = len(cases)
    if model is None:
        return
    for (dest, ck, shape), real, m in zip(cases, reals, model):
        ctx.count()
        if "list" in shape:
            has = [ck in it for it in shape["list"]]
            kind = "list:" + ("empty" if not has else "all-have" if all(has) else "none-has" if not any(has) else "mixed")
            if has and any(has) and not all(has):
                ctx.nontrivial("S" + json.dumps([dest, ck, shape]))
        else:
            kind = "plain" if ck is None else "single" if "single" in shape else "absent"
        ctx.hist("set_target_value_parent", kind)
        got = m.get("slots", [None])[0]
        if isinstance(real, dict) or sorted(real) != sorted(got or []):
            state["stv_disagreements"] += 1
            if state["stv_disagreements"] <= 3:
                ctx.tie_break("correspondence E5 (ActionLink.set_target_value vs model targetSlots) disagrees",
                              json.dumps({"dest": dest, "child_key": ck, "parent": shape, "real": real, "model": got})[:1500])
            # the property itself on this input: every item that has the parameter must have received the value
            if "list" in shape and not isinstance(real, dict) and state["stv_violations"] < 2:
                want = [item_key(dest, j, ck) for j, it in enumerate(shape["list"]) if ck in it]
                if sorted(real) != sorted(want):
                    state["stv_violations"] += 1
                    ctx.violation("set_target_value on a list of subclass specs: the value reached %s, but the items having %s are %s"
                                  % (real, ck, want), {"kind": "set_target_value", "dest": dest, "child_key": ck, "parent": shape})
    ctx.extra["set_target_value_disagreements"] = state["stv_disagreements"]


CHAIN_NAMES = ["a", "ab", "b", "a_b", "m.a", "c"]


def chain_scenarios(rng):
    """links whose source is itself the target of another instantiate link: chains of 3, 4 and 5 components (6 with the
    list holder variant), mixed component kinds, object / attribute / compute_fn links, a second source taken from the start
    of the chain; declared forwards, backwards and in two shuffled orders (components and links)"""
    kinds_cycle = ["group", "subclass", "typed", "deepsub", "group", "listgroup"]
    for n in (3, 4, 5):
        for shift in range(3 if n < 5 else 2):
            comps = []
            for i in range(n):
                kind = kinds_cycle[(i + shift) % len(kinds_cycle)]
                if i == n - 1:
                    kind = ["deepsub", "listgroup", "deepgroup"][shift]  # the end of the chain: a nested target / a list target
                c = {"name": CHAIN_NAMES[i], "kind": kind, "cls": i}
                if kind == "listgroup":
                    c["elems"] = ["", "n", "a"]
                comps.append(c)
            links = []
            for i in range(1, n):
                prev, cur = comps[i - 1], comps[i]
                style = (i + shift) % 4
                srcs = [[prev["name"], [None, "at", None, "bt"][style]]]
                fn = [None, "f1", None, "f2"][style]
                if style == 3 and i >= 2:
                    srcs.append([comps[0]["name"], None])
                # mid-chain components are sources themselves: feed the object itself (a target nested inside a source is the
                # open finding class); the last one is fed in its deepest object / in every element of its list
                if cur["kind"] in DEEP_KINDS:
                    tgt = [cur["name"], "r"] if i < n - 1 else [cur["name"] + "/child/grandchild", "g"] if shift % 2 == 0 else [cur["name"] + "/child", "p"]
                elif cur["kind"] == "listgroup":
                    tgt = [cur["name"], "r"] if i < n - 1 else [cur["name"] + "/*", "p0"]
                else:
                    tgt = [cur["name"], "p0"]
                links.append({"sources": srcs, "target": tgt, "fn": fn})
            base = {"comps": comps, "links": links}
            yield n, base
            yield n, {"comps": comps[::-1], "links": links[::-1]}
            for _ in range(2):
                yield n, {"comps": rng.sample(comps, n), "links": rng.sample(links, len(links))}


def chain_walk_failure(sc, obs_first):
    """the chain end to end: starting from the object built for the last component, following at every step the argument a
    plain object link delivered, one must arrive at the instance built for the first component (identity of instances)"""
    by_target = {}
    for l in sc["links"]:
        if not l.get("fn") and len(l["sources"]) == 1 and l["sources"][0][1] is None and not is_elems(l["target"][0]):
            by_target[comp_of(l["target"][0])] = l
    problems = []
    for c in sc["comps"]:
        cur, steps = c["name"], 0
        while cur in by_target and steps < 10:
            l = by_target[cur]
            tname = class_of(sc, l["target"][0])
            if l["target"][1] not in obs_first[tname][2]:
                break  # the class given for the target lacks the parameter: the link is dropped, the chain ends here
            got = obs_first[tname][2][l["target"][1]]
            sname = class_of(sc, l["sources"][0][0])
            if got is not obs_first[sname][1]:
                problems.append("chain: %s.%s does not hold the instance built for %s" % (l["target"][0], l["target"][1], l["sources"][0][0]))
                break
            cur, steps = l["sources"][0][0], steps + 1
    return problems


def list_target_scenarios():
    """deterministic family (independent of the seed): links into the parameters of the classes of a LIST of subclass
    specs - homogeneous, mixed (some element classes lack the parameter), none having it, empty - for the three list
    kinds, and single subclass arguments whose class lacks the parameter; both declaration orders of the links"""
    elem_lists = [["", "n", "a"], ["n", "h", ""], ["a", ""], ["n"], [], ["h", "n", "n", "a"]]
    for ki, kind in enumerate(LIST_KINDS):
        if kind == "sublist":
            continue
        for ei, elems in enumerate(elem_lists):
            comps = [{"name": "a", "kind": FLAT_KINDS[(ki + ei) % 3], "cls": 0}, {"name": "ab", "kind": "group", "cls": 1},
                     {"name": "t", "kind": kind, "cls": 2, "elems": elems}]
            links = [{"sources": [["a", [None, "at"][ei % 2]]], "target": ["t/*", "p0"], "fn": [None, "f1"][(ki + ei) % 2]},
                     {"sources": [["ab", "bt"], ["a", None]], "target": ["t/*", "p1"], "fn": "f2"}]
            if kind == "listgroup":
                links.append({"sources": [["ab", None]], "target": ["t", "r"], "fn": None})
                comps = comps + [{"name": "c", "kind": "typed", "cls": 3}]
                links.append({"sources": [["t", "at"]], "target": ["c", "p3"], "fn": None})  # the group holding the list is a source itself
            for pl in ([links, links[::-1]] if ei % 2 else [links]):
                yield {"comps": comps if ei % 2 else comps[::-1], "links": list(pl)}
    for kind in ("subclass", "typed"):
        comps = [{"name": "a", "kind": "group", "cls": 0}, {"name": "b", "kind": kind, "cls": 1, "lacks": True}, {"name": "c", "kind": "subclass", "cls": 2}]
        links = [{"sources": [["a", None]], "target": ["b", "p0"], "fn": None}, {"sources": [["a", "at"]], "target": ["b", "p2"], "fn": "f1"},
                 {"sources": [["b", "at"]], "target": ["c", "p1"], "fn": None}]
        for pl in itertools.permutations(links):
            yield {"comps": comps, "links": list(pl)}


# ---------------------------------------------------------------------------------------------
# the check
# ---------------------------------------------------------------------------------------------
def driver(ctx, lines, what):
    if not lines:
        return []
    out = []
    try:
        for i in range(0, len(lines), 100000):
            out.extend(ctx.driver("Graph", lines[i : i + 100000], timeout=1500))
    except MachineryError as ex:
        if ctx.lean_ok:
            raise
        ctx.tie_break("correspondence E5 (%s) not runnable (model does not build)" % what, str(ex))
        return None
    return out


def shrink_edges(edges, still_bad):
    cur = list(edges)
    changed = True
    while changed:
        changed = False
        for i in range(len(cur)):
            cand = cur[:i] + cur[i + 1 :]
            if cand and still_bad(cand):
                cur, changed = cand, True
                break
    return cur


def check_graphs(ctx, graphs, label, state):
    """correspondence a + oracle i on a list of edge lists"""
    model = driver(ctx, [{"op": "topo", "edges": g} for g in graphs], "topo")
    for idx, g in enumerate(graphs):
        real = real_topo(g)
        ctx.count()
        outcome = "ok" if "ok" in real else "cycle" if "cycle" in real else "other"
        ctx.hist("graph_outcome", outcome)
        ctx.hist("graph_edges", min(len(g), 16))
        if len(g) >= 2:
            ctx.nontrivial("G" + json.dumps(g))
        bad = graph_oracle(g, real)
        if bad and state["graph_violations"] < 3:
            state["graph_violations"] += 1
            small = shrink_edges(g, lambda c: graph_oracle(c, real_topo(c)) is not None)
            ctx.violation("DirectedGraph: " + (graph_oracle(small, real_topo(small)) or bad), {"kind": "graph", "edges": small, "origin": label})
        if model is not None:
            m = {k: v for k, v in model[idx].items()}
            if m != real:
                state["graph_disagreements"] += 1
                if state["graph_disagreements"] <= 3:
                    def still(c):
                        r = ctx.driver("Graph", [{"op": "topo", "edges": c}])[0]
                        return r != real_topo(c)
                    try:
                        small = shrink_edges(g, still)
                    except Exception:  # noqa: BLE001
                        small = g
                    ctx.tie_break("correspondence E5 (DirectedGraph vs model topo) disagrees",
                                  json.dumps({"edges": small, "real": real_topo(small), "origin": label})[:1500])
                    state["neighbour_graphs"].append(small)


def check_reorders(ctx, cases, label, state):
    model = driver(ctx, [{"op": "reorder", "order": c["order"], "dests": c["dests"]} for c in cases], "reorder")
    for idx, c in enumerate(cases):
        try:
            real = real_reorder(c["order"], c["dests"])
        except Exception as ex:  # noqa: BLE001
            real = "exception:" + type(ex).__name__
        ctx.count()
        ctx.hist("reorder_len", "%d keys/%d comps" % (min(len(c["order"]), 5), min(len(c["dests"]), 6)))
        ref = ref_reorder(c["order"], c["dests"])
        if any(ref[i] != i for i in range(len(ref))):
            ctx.nontrivial("R" + json.dumps(c, sort_keys=True))
        if real != ref and state["reorder_violations"] < 3:
            state["reorder_violations"] += 1
            ctx.violation("ActionLink.reorder is not the stable extraction by key / key+'.' prefix (got %s, expected %s)" % (real, ref),
                          {"kind": "reorder", "order": c["order"], "dests": c["dests"], "origin": label})
        if model is not None and model[idx].get("perm") != real:
            state["reorder_disagreements"] += 1
            if state["reorder_disagreements"] <= 3:
                ctx.tie_break("correspondence E5 (ActionLink.reorder vs model reorder) disagrees",
                              json.dumps({"case": c, "real": real, "model": model[idx]})[:1500])


def scenario_key(sc):
    return json.dumps(sc, sort_keys=True)


def classify_e2e(ctx, sc, fails, cyclic, state, origin):
    """a failing end-to-end scenario is a known finding (signature) or a violation"""
    if not fails:
        return
    fid = None
    if nested_target_in_source(sc):
        fid = FINDING_CYCLE if cyclic else FINDING_ORDER
    elif not cyclic and is_nested_source_failure(sc, fails):
        fid = FINDING_NSRC
    elif not cyclic and is_sublist_drop_failure(sc, fails):
        fid = FINDING_SUBLIST
    if fid and ctx.is_open(fid):
        ctx.known(fid, "%s (e.g. links %s)" % (fails[0], json.dumps([[[source_key(sc, s) for s in l["sources"]], target_key(sc, l["target"])] for l in sc["links"]])[:200]))
        state["known_hits"] += 1
        return
    state["e2e_violations"] += 1
    if state["e2e_violations"] <= 4:
        small = shrink_scenario(sc, cyclic)
        f2 = (run_cyclic(small)[0] if cyclic else run_acyclic(small)[0]) or fails
        ctx.violation(("cyclic link set: " if cyclic else "acyclic link set: ") + f2[0],
                      {"kind": "e2e", "cyclic": cyclic, "scenario": small, "failures": f2[:5], "origin": origin})


def shrink_scenario(sc, cyclic):
    """drop links (and then unused components) while the scenario still fails outside the known-finding signature"""
    sub0 = (not cyclic) and is_sublist_drop_failure(sc, run_acyclic(sc)[0])

    def failing(c):
        if not c["links"]:
            return False
        if cyclic:
            if first_cycle_index(c) is None:
                return False
            f = run_cyclic(c)[0]
        else:
            if first_cycle_index(c) is not None:
                return False
            f = run_acyclic(c)[0]
        return (bool(f) and nested_target_in_source(c) == nested_target_in_source(sc) and nested_source_below_linked(c) == nested_source_below_linked(sc)
                and (cyclic or is_sublist_drop_failure(c, f) == sub0))

    cur = {"comps": list(sc["comps"]), "links": list(sc["links"])}
    changed = True
    while changed:
        changed = False
        for i in range(len(cur["links"])):
            cand = {"comps": cur["comps"], "links": cur["links"][:i] + cur["links"][i + 1 :]}
            if failing(cand):
                cur, changed = cand, True
                break
    used = {comp_of(o) for l in cur["links"] for o in [l["target"][0]] + [s[0] for s in l["sources"]]}
    cand = {"comps": [c for c in cur["comps"] if c["name"] in used], "links": cur["links"]}
    if len(cand["comps"]) >= 1 and failing(cand):
        cur = cand
    return cur


def correspond_parsers(ctx, items, state):
    """correspondence c: items = [(scenario, parser, reorder_calls, schedule or None)]"""
    lines, meta = [], []
    for sc, parser, calls, sched, fails in items:
        links, set_order = model_links_of(parser)
        real = real_inst_order(parser)
        lines.append({"op": "inst_order", "links": links, "set_order": set_order})
        meta.append(("inst", sc, real, None))
        for l in links:
            lines.append({"op": "target_node", "key": l["target"]})
            meta.append(("tnode", sc, py_target_node(l["target"]), l["target"]))
        if calls:
            c0 = calls[0]
            lines.append({"op": "components", "links": links, "set_order": set_order, "dests": c0["dests"]})
            meta.append(("comps", sc, c0, (sched, fails)))
    model = driver(ctx, lines, "instantiation_order")
    if model is None:
        return
    for (kind, sc, real, extra), m in zip(meta, model):
        ctx.count()
        if kind == "inst":
            got = {k: v for k, v in m.items() if k in ("ok", "cycle")}
            if got != real:
                state["inst_disagreements"] += 1
                if state["inst_disagreements"] <= 3:
                    ctx.tie_break("correspondence E5 (ActionLink.instantiation_order vs model) disagrees",
                                  json.dumps({"scenario": sc, "real": real, "model": m})[:1800])
        elif kind == "tnode":
            if m.get("node") != real:
                state["inst_disagreements"] += 1
                ctx.tie_break("correspondence E5 (target node of a link key) disagrees", json.dumps({"key": extra, "harness": real, "model": m}))
        else:
            depths = [len(d.split(".")) for d in real["dests"]]
            if depths != sorted(depths, reverse=True):
                state["inst_disagreements"] += 1
                ctx.tie_break("instantiate_classes no longer sorts its components deepest first", json.dumps(real)[:800])
            if m.get("ok") != real["result"]:
                state["inst_disagreements"] += 1
                if state["inst_disagreements"] <= 3:
                    ctx.tie_break("correspondence E5 (component order of instantiate_classes vs model) disagrees",
                                  json.dumps({"scenario": sc, "real": real, "model": m})[:1800])
            elif extra[0] is not None and m.get("schedule") != extra[0]:
                state["inst_disagreements"] += 1
                if state["inst_disagreements"] <= 3:
                    ctx.tie_break("correspondence E5 (links applied per component by apply_instantiation_links vs model schedule) disagrees",
                                  json.dumps({"scenario": sc, "real": extra[0], "model": m.get("schedule")})[:1800])
            if "nested_ok" in m:
                # the decidable classes of the nested-key theorems against the catalogued finding signatures and the real run
                fails = extra[1]
                nok, stl, cov = m["nested_ok"], m["sources_top_level"], m["containment_covered"]
                ctx.hist("nested_key_class", ("NestedKeysOK" if nok else "excluded:target-in-source-only-key") + ("" if stl else "+nested-source")
                         + ("" if cov else "+containment-uncovered"))
                problem = None
                if not nok and not nested_target_in_source(sc):
                    problem = "NestedKeysOK excludes a link set outside the catalogued class C16-nested-target-in-source"
                elif not stl and not nested_source_below_linked(sc):
                    problem = "SourcesTopLevel excludes a link set outside the catalogued class C16-nested-source-after-enclosing-group"
                elif nok and any("constructed after the object" in f for f in fails):
                    problem = "the hypothesis of C16_instantiate_nested holds, yet the real run built a source after its consumer"
                elif nok and stl and fails and not is_sublist_drop_failure(sc, fails):
                    problem = "the hypotheses of the nested-key theorems hold, yet the real run failed: %s" % fails[0][:120]
                if problem:
                    state["inst_disagreements"] += 1
                    if state["inst_disagreements"] <= 3:
                        ctx.tie_break("correspondence E5 (decidable link-set classes vs real run): " + problem,
                                      json.dumps({"scenario": sc, "model": {k: m[k] for k in ("nested_ok", "sources_top_level", "containment_covered")},
                                                  "failures": fails[:3]})[:1800])


def correspond_flow(ctx, state):
    """value flow: constructor sequence and the argument every fed parameter received, real run vs model
    (`instantiateClasses` of Core/GraphFlow walked along the component sequence the real call used)"""
    items = state["flow_items"]
    model = driver(ctx, [flow_case(sc, call, targets) for sc, call, _, targets in items], "value flow")
    ctx.extra["value_flow_runs_compared"] = len(items)
    if model is None:
        return
    n_vals = 0
    for (sc, call, log_full, _targets), m in zip(items, model):
        ctx.count()
        seq, received = flow_expectation(sc, log_full)
        m_seq = [e[0] for e in m.get("log", [])]
        m_recv = {}
        for dest, kvs in m.get("log", []):
            for k, v in kvs:
                m_recv.setdefault(k, v)  # the first constructor call that sees the key is the one owning it
        bad = None
        if m_seq != seq:
            bad = "constructor sequence"
        elif not m.get("ready"):
            bad = "model says a source is not constructed when its link is applied, the real run succeeded"
        elif m.get("applied_end") != []:
            bad = "applied set left in cfg"
        else:
            for k, v in received.items():
                n_vals += 1
                if m_recv.get(k) != v:
                    bad = "argument received through %s" % k
                    break
            extra = sorted(set(m_recv) - set(received))
            if not bad and extra:
                bad = "the model writes a value to %s, no constructor of the real run can have received it" % extra[0]
        if bad:
            state["flow_disagreements"] += 1
            if state["flow_disagreements"] <= 3:
                ctx.tie_break("correspondence E5 (value flow: %s) disagrees" % bad,
                              json.dumps({"scenario": sc, "real": {"sequence": seq, "received": received}, "model": m})[:1900])
    ctx.extra["value_flow_arguments_compared"] = n_vals
    ctx.extra["value_flow_disagreements"] = state["flow_disagreements"]


def bookkeeping_oracle(ctx, state, scenarios):
    """C16_bookkeeping_fresh on the real code: on ONE parser, a failing instantiate_classes call (a compute_fn that
    raises once) followed by a good one: the second call must construct every class once and feed every parameter;
    and nothing about applied links may survive on the parser or in the caller's cfg"""
    mod = gen_module()
    for sc in scenarios:
        if not any(l.get("fn") for l in sc["links"]) or first_cycle_index(sc) is not None:
            continue
        if nested_target_in_source(sc) or nested_source_below_linked(sc):
            continue
        try:
            parser, raised_at, _ = build_parser(sc)
        except Exception:  # noqa: BLE001
            continue
        if raised_at is not None:
            continue
        cfg = parser.parse_args(parse_args_for(sc))
        before = set(vars(parser))  # baseline right before the failing call (parse_args itself sets parser.args)

        def boom(*a):
            raise RuntimeError("compute_fn fails on purpose")

        # the link actions hold the function objects: patch their compute_fn for the first call
        from jsonargparse._link_arguments import get_link_actions

        acts = [a for a in get_link_actions(parser, "instantiate") if a.compute_fn is not None]
        saved = [(a, a.compute_fn) for a in acts]
        a_last = acts[-1]
        a_last.compute_fn = boom
        del mod.LOG[:]
        failed = False
        try:
            parser.instantiate_classes(cfg)
        except Exception:  # noqa: BLE001
            failed = True
        for a, f in saved:
            a.compute_fn = f
        del mod.LOG[:]
        ctx.count()
        state["bookkeeping_runs"] += 1
        problems = []
        if not failed:
            continue
        new_attrs = sorted(set(vars(parser)) - before)
        if new_attrs:
            problems.append("the failed call left new attributes on the parser: %s" % new_attrs)
        if "__applied_instantiation_links__" in cfg:
            problems.append("the failed call left the applied-links key in the caller's cfg")
        try:
            parser.instantiate_classes(cfg)
        except Exception as ex:  # noqa: BLE001
            problems.append("the call after a failed one raised %s: %s" % (type(ex).__name__, str(ex)[:120]))
        log = list(mod.LOG)
        del mod.LOG[:]
        if not problems:
            first = {}
            for name, inst, kw in log:
                if name in first:
                    problems.append("class %s constructed more than once after a failed call" % name)
                first[name] = (inst, kw)
            for l in sc["links"]:
                tobj, slot = l["target"]
                for tname in log_names(sc, tobj):
                    if tname not in first:
                        problems.append("class %s not constructed after a failed call" % tname)
                        continue
                    if not has_slot(sc, tname, tobj, slot):
                        continue
                    exp = []
                    for sobj, attr in l["sources"]:
                        sinst = first.get(class_of(sc, sobj), (None, None))[0]
                        exp.append(getattr(sinst, attr) if attr and sinst is not None else sinst)
                    want = [l["fn"]] + exp if l.get("fn") else exp[0]
                    if not same_value(first[tname][1][slot], want):
                        problems.append("after a failed call parameter %s of %s did not receive the linked value" % (slot, tname))
        if problems and state["e2e_violations"] < 4:
            state["e2e_violations"] += 1
            ctx.violation("instantiate_classes after a failed call: " + problems[0], {"kind": "e2e-after-failure", "scenario": sc, "failures": problems[:5]})


def run_e2e(ctx, state, n_shapes, cap, n_cyclic, corpus_scenarios):
    from ..lib import corpus as corpus_mod  # noqa: F401

    items = []
    seen = set()

    def one(sc, cyclic, origin):
        key = ("C" if cyclic else "A") + scenario_key(sc)
        if key in seen:
            return
        seen.add(key)
        ctx.count()
        for c in sc["comps"]:
            ctx.hist("e2e_component_kind", c["kind"])
        for l in sc["links"]:
            ctx.hist("e2e_link_kind", ("fn%d" % len(l["sources"]) if l.get("fn") else "plain") + ("/attr" if any(a for _, a in l["sources"]) else "/object")
                     + ("/list-target" if is_elems(l["target"][0]) else "/nested-target" if obj_level(l["target"][0]) else ""))
            if is_elems(l["target"][0]):
                ev = comp_by_name(sc, comp_of(l["target"][0]))["elems"]
                has = [l["target"][1] in VARIANT_PARAMS[v] for v in ev]
                ctx.hist("e2e_list_target", "empty" if not ev else "all-have" if all(has) else "none-has" if not any(has) else "mixed")
            elif comp_by_name(sc, comp_of(l["target"][0])).get("lacks"):
                ctx.hist("e2e_list_target", "single:" + ("class-lacks-param" if l["target"][1] not in LACKS_PARAMS else "class-has-param"))
        if cyclic:
            fails, _ = run_cyclic(sc)
            ctx.hist("e2e_outcome", "cyclic:" + ("rejected" if not fails else "FAIL"))
            state["e2e_cyclic"] += 1
            ctx.nontrivial(key)
        else:
            fails, obs = run_acyclic(sc)
            ctx.hist("e2e_outcome", "acyclic:" + ("ok" if not fails else "FAIL"))
            state["e2e_acyclic"] += 1
            if len(sc["links"]) >= 2:
                ctx.nontrivial(key)
            special = bool(fails) or nested_target_in_source(sc) or nested_source_below_linked(sc)  # the classes the nested-key theorems exclude
            if special:
                state["special_items"] += 1
            if "parser" in obs and (len(items) < state["max_parser_corr"] or (special and state["special_items"] <= ctx.budget(250, 2500))):
                items.append((sc, obs["parser"], obs.get("reorder_calls"), obs.get("schedule") if not fails else None, list(fails)))
                if not fails and obs.get("reorder_calls"):
                    state["flow_items"].append((sc, obs["reorder_calls"][0], obs["log_full"], obs["targets"]))
        classify_e2e(ctx, sc, fails, cyclic, state, origin)

    for c in corpus_scenarios:
        base = c["scenario"]
        if len(base["links"]) <= 4:  # every declaration order of the links with the components as given (deterministic) ...
            for pl in itertools.permutations(base["links"]):
                one({"comps": base["comps"], "links": list(pl)}, bool(c.get("cyclic")), "corpus")
        for sc in declaration_orders(base, ctx.rng, 48):  # ... and component orders too (all when <= 48, else a sample)
            one(sc, bool(c.get("cyclic")), "corpus")
    n3 = 0
    for sc in three_level_scenarios():
        one(sc, False, "three-level")
        n3 += 1
    ctx.extra["three_level_target_scenarios"] = n3
    for f in ctx.open_findings():  # the witnesses of the open findings also go through the model's decidable classes (cross-check)
        w = f["witness"]
        if not w.get("cyclic"):
            for pl in itertools.permutations(w["scenario"]["links"]):
                one({"comps": w["scenario"]["comps"], "links": list(pl)}, False, "finding-witness")
    nch = {}
    for n, sc in chain_scenarios(ctx.rng):
        one(sc, False, "chains")
        nch[n] = nch.get(n, 0) + 1
        ctx.hist("e2e_chain_length", n)
    ctx.extra["chain_scenarios_by_length"] = nch
    nl = 0
    for sc in list_target_scenarios():
        one(sc, False, "list-targets")
        nl += 1
    ctx.extra["list_target_scenarios"] = nl
    # every link graph on few flat components (deterministic floor, independent of the seed)
    n_ex = {"acyclic": 0, "cyclic": 0}
    plan = [(3, False, 6, 24)] if not ctx.thorough else [(3, False, 36, 24), (2, True, 24, 24), (4, False, 6, 4)]
    if not ctx.thorough:
        plan.append((2, True, 24, 24))
    for n, loops, cap_a, cap_c in plan:
        for sc0, cyc in exhaustive_flat(n, loops):
            if cyc and n == 4 and ctx.rng.random() < 0.8:
                continue  # 4 components: every DAG, a fifth of the cyclic digraphs
            orders = declaration_orders(sc0, ctx.rng, cap_c if cyc else cap_a) if (ctx.thorough or cyc) else \
                ({"comps": sc0["comps"], "links": list(pl)} for pl in itertools.permutations(sc0["links"]))
            for sc in orders:
                one(sc, cyc, "exhaustive")
            n_ex["cyclic" if cyc else "acyclic"] += 1
    ctx.extra["exhaustive_flat_link_graphs"] = dict(n_ex, plan=[{"components": n, "self_links": l} for n, l, _, _ in plan])
    shapes = []
    for _ in range(n_shapes):
        if state["e2e_violations"] >= 4 and ctx.search_boost > 1:
            break  # boosted search after a broken tie: failing inputs have been found, no need for the rest of the budget
        base = gen_shape(ctx.rng)
        if not base["links"]:
            continue
        shapes.append(base)
        for sc in declaration_orders(base, ctx.rng, cap):
            one(sc, False, "generated")
    for i in range(n_cyclic):
        if state["e2e_violations"] >= 4 and ctx.search_boost > 1:
            break
        base = shapes[i % len(shapes)] if shapes else gen_shape(ctx.rng)
        cyc = gen_cyclic(ctx.rng, base)
        if cyc is None:
            continue
        # every declaration order of the links (the components' order too when cheap)
        for sc in declaration_orders(cyc, ctx.rng, max(6, cap // 4)):
            one(sc, True, "generated")
    for sc in shapes[:2]:
        ctx.sample({"e2e": {"comps": sc["comps"], "links": [[[source_key(sc, s) for s in l["sources"]], target_key(sc, l["target"]), l.get("fn")] for l in sc["links"]]}})
    correspond_parsers(ctx, items, state)
    correspond_pure_inst_order(ctx, state)
    correspond_flow(ctx, state)
    correspond_set_target_value(ctx, state)
    bookkeeping_oracle(ctx, state, [x[0] for x in state["flow_items"]][: ctx.budget(150, 1500)])
    ctx.extra["after_failure_runs"] = state["bookkeeping_runs"]


def run(ctx: Ctx):
    repo_python_path()
    ctx.rule = ("graphs: edge lists in insertion order over <=8 prefix-related node names (every digraph on <=3 nodes in every insertion order, every "
                "digraph on 4 nodes, random graphs with duplicates/self loops), real DirectedGraph vs Lean model and vs an independent order/cycle check; "
                "non-trivial = >=2 edges. reorder: key lists x component lists over names incl. 'a','ab','a.b', real vs model vs own stable sort; "
                "non-trivial = result differs from the input order. end to end: 2-4 components (group/subclass/typed/deep group/deep subclass), 1-5 "
                "acyclic instantiate links (object/attribute/compute_fn, 1-2 sources, nested targets and sources, targets inside lists of 0-4 subclass "
                "specs with mixed signatures, classes lacking the linked parameter) in every declaration order, plus cyclic "
                "sets; checked from the constructor log; non-trivial = >=2 links (acyclic) or any cyclic set; distinct by canonical JSON. "
                "set_target_value: dest kind x child key x parent shape (absent / spec / list of 0-5 specs with random key subsets), real vs model; "
                "non-trivial = mixed list")
    ctx.assumptions = [
        "list(set) iteration order of the link targets is read from the running interpreter and handed to the model (hash dependent in the code)",
        "keys contain no newline (re.sub(r'\\.init_args$') is modelled as a plain suffix strip)",
        "interpreter recursion limit (chains of ~1000 links) is outside the model; the model's fuel is proved never to run out",
        "nested links applied inside a subclass (is_nested_instantiation_link) and links skipped because a source attribute is missing are outside the generator",
        "items of a list-of-subclasses argument are Namespaces after parsing (set_target_value on other item types is not exercised)",
        "statement ties compare ast.unparse text produced by the interpreter of /venv (a different Python may print the same AST differently)",
    ]
    ctx.lean_build(extractors=["link_bookkeeping", "link_flow_src"])
    state = {"graph_violations": 0, "graph_disagreements": 0, "neighbour_graphs": [], "reorder_violations": 0, "reorder_disagreements": 0,
             "e2e_violations": 0, "e2e_acyclic": 0, "e2e_cyclic": 0, "known_hits": 0, "inst_disagreements": 0, "max_parser_corr": ctx.budget(400, 4000),
             "flow_items": [], "flow_disagreements": 0, "bookkeeping_runs": 0, "stv_disagreements": 0, "stv_violations": 0, "special_items": 0}

    from ..lib import corpus as corpus_mod

    corpus = corpus_mod.load(ctx.prop)
    boost = ctx.search_boost

    # ---- a. graphs ---------------------------------------------------------------------------
    graphs = [c["edges"] for c in corpus if c.get("kind") == "graph"]
    n_corpus_graphs = len(graphs)
    check_graphs(ctx, graphs, "corpus", state)
    ex = list(all_edge_orders(3, loops=False))                      # 1957: every loop-free digraph on <=3 nodes, every insertion order
    ctx.extra["exhaustive_3_nodes_loopfree_all_orders"] = len(ex)
    check_graphs(ctx, ex, "exhaustive-3", state)
    if ctx.thorough:
        n = 0
        batch = []
        for g in all_edge_orders(3, loops=True):                    # 986 410: with self loops, every insertion order
            batch.append(g)
            if len(batch) >= 100000:
                check_graphs(ctx, batch, "exhaustive-3-loops", state)
                n += len(batch)
                batch = []
        check_graphs(ctx, batch, "exhaustive-3-loops", state)
        n += len(batch)
        ctx.extra["exhaustive_3_nodes_with_loops_all_orders"] = n
        g4 = list(all_digraphs(4, loops=True))                      # 65 536 digraphs on 4 nodes, canonical + one shuffled insertion order
        check_graphs(ctx, g4, "exhaustive-4", state)
        sh = []
        for g in g4:
            g = list(g)
            ctx.rng.shuffle(g)
            sh.append(g)
        check_graphs(ctx, sh, "exhaustive-4-shuffled", state)
        ctx.extra["exhaustive_4_nodes_digraphs"] = len(g4)
    else:
        g3 = list(all_digraphs(3, loops=True))                      # 512 digraphs with self loops: canonical + two shuffled orders
        more = []
        for g in g3:
            for _ in range(2):
                h = list(g)
                ctx.rng.shuffle(h)
                more.append(h)
        check_graphs(ctx, g3 + more, "exhaustive-3-loops", state)
        g4 = list(all_digraphs(4, loops=False))                     # 4096 loop-free digraphs on 4 nodes
        check_graphs(ctx, g4, "exhaustive-4-loopfree", state)
        ctx.extra["exhaustive_3_nodes_with_loops_digraphs"] = len(g3)
        ctx.extra["exhaustive_4_nodes_loopfree_digraphs"] = len(g4)
    rnd = [random_graph(ctx.rng) for _ in range(ctx.budget(4000, 40000) * boost)]
    check_graphs(ctx, rnd, "random", state)
    if state["neighbour_graphs"]:
        neigh = []
        for g in state["neighbour_graphs"]:
            for _ in range(300):
                h = [list(e) for e in g]
                for _ in range(ctx.rng.randint(1, 3)):
                    h.insert(ctx.rng.randint(0, len(h)), [ctx.rng.choice(NODE_NAMES[:5]), ctx.rng.choice(NODE_NAMES[:5])])
                ctx.rng.shuffle(h)
                neigh.append(h)
        check_graphs(ctx, neigh, "neighbours", state)
    for g in rnd[:2]:
        ctx.sample({"graph": g})

    # ---- b. reorder ---------------------------------------------------------------------------
    rc = [{"order": c["order"], "dests": c["dests"]} for c in corpus if c.get("kind") == "reorder"]
    rc += list(exhaustive_reorder_cases())
    ctx.extra["exhaustive_reorder_cases"] = len(rc)
    rc += [random_reorder_case(ctx.rng) for _ in range(ctx.budget(3000, 30000) * boost)]
    check_reorders(ctx, rc, "generated", state)
    ctx.sample({"reorder": rc[-1]})

    # ---- c + ii + iii. real parsers -----------------------------------------------------------
    e2e_corpus = [c for c in corpus if c.get("kind") == "e2e"]
    run_e2e(ctx, state, n_shapes=ctx.budget(48, 420) * boost, cap=ctx.budget(24, 24), n_cyclic=ctx.budget(48, 420) * boost, corpus_scenarios=e2e_corpus)

    # ---- replay of catalogued findings ----------------------------------------------------------
    for f in ctx.open_findings():
        w = f["witness"]
        fails = (run_cyclic(w["scenario"])[0] if w.get("cyclic") else run_acyclic(w["scenario"])[0])
        ctx.count()
        if fails:
            ctx.known(f["id"], f["description"])
        else:
            ctx.stale_findings.append(f["id"])
    ctx.replay_fixed_demos()
    ctx.extra.update({
        "graphs_checked": sum(ctx.dist.get("graph_outcome", {}).values()),
        "corpus_graphs": n_corpus_graphs,
        "graph_correspondence_disagreements": state["graph_disagreements"],
        "reorder_cases": len(rc),
        "reorder_correspondence_disagreements": state["reorder_disagreements"],
        "e2e_acyclic_runs": state["e2e_acyclic"],
        "e2e_cyclic_runs": state["e2e_cyclic"],
        "e2e_runs_in_known_finding_class": state["known_hits"],
        "parser_correspondence_disagreements": state["inst_disagreements"],
    })


def replay(ctx: Ctx, body):
    repo_python_path()
    r = body["replay"]
    kind = r.get("kind")
    if kind == "graph":
        real = real_topo(r["edges"])
        bad = graph_oracle(r["edges"], real)
        print("edges (insertion order):", r["edges"])
        print("real DirectedGraph:", real)
        print("oracle:", bad or "ok")
        return 1 if bad else 0
    if kind == "reorder":
        real = real_reorder(r["order"], r["dests"])
        ref = ref_reorder(r["order"], r["dests"])
        print("order:", r["order"], "components:", r["dests"])
        print("real reorder:", [r["dests"][i] for i in real], " expected:", [r["dests"][i] for i in ref])
        return 1 if real != ref else 0
    if kind == "e2e":
        sc = r["scenario"]
        print("components:", [(c["name"], c["kind"]) for c in sc["comps"]])
        for l in sc["links"]:
            print("  link", [source_key(sc, s) for s in l["sources"]], "-->", target_key(sc, l["target"]), "fn=%s" % l.get("fn"))
        if r.get("cyclic"):
            fails, at = run_cyclic(sc)
            print("first link closing a cycle:", first_cycle_index(sc), " rejected at:", at)
        else:
            fails, obs = run_acyclic(sc)
            print("constructor log:", obs.get("log"))
        print("failures:", fails)
        return 1 if fails else 0
    if kind == "set_target_value":
        _, actions = stv_parser()
        real = real_set_target_value(actions, r["dest"], r["child_key"], r["parent"])
        want = [item_key(r["dest"], j, r["child_key"]) for j, it in enumerate(r["parent"]["list"]) if r["child_key"] in it]
        print("list items (key paths):", r["parent"]["list"])
        print("link target:", r["dest"] + "." + r["child_key"])
        print("positions holding the value after set_target_value:", real, " expected:", want)
        return 1 if isinstance(real, dict) or sorted(real) != sorted(want) else 0
    if kind == "e2e-after-failure":
        st = {"e2e_violations": 0, "bookkeeping_runs": 0}

        class _C:  # minimal stand-in collecting the verdict
            def __init__(self):
                self.bad = []

            def count(self, n=1):
                pass

            def violation(self, what, body):
                self.bad.append(what)

        c = _C()
        bookkeeping_oracle(c, st, [r["scenario"]])
        print("after-failure oracle:", c.bad or "ok")
        return 1 if c.bad else 0
    if "broken" in r:
        print("tie broken without a failing input:", json.dumps(r["broken"], indent=1)[:3000])
        return 1
    print("unknown replay kind")
    return 2

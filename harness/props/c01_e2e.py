"""C01 end-to-end oracle on real parsers + the DFA-driven string generator.

A *case* is JSON-able and self-contained:  {"spec": {"args": [{"name","type","default"?}...]}, "obj": {...}}
  type  := {"t": "str"|"int"|"float"|"bool"} | {"t":"enum","name"} | {"t":"restricted","name"} | {"t":"registered","name"}
         | {"t":"literal","vals":[..]} | {"t":"opt","a":T} | {"t":"union","a":[T..]} | {"t":"list","a":T}
         | {"t":"dict","k":"str"|"int","v":T} | {"t":"tuple","a":[T..]} | {"t":"vtuple","a":T} | {"t":"set","a":T}
         | {"t":"dataclass","name","fields":[{"name","type","default"}]}
  obj   := {argument name (dotted for nested keys): plain python value}; given to `parse_object` as a nested dict
           (Enum members by name, tuples/sets as lists)
The accepted configuration `cfg0 = parser.parse_object(obj)` is the reference; every *variant*
(dump format x skip_default, --print_config captured from stdout and fed back through --cfg, save + parse_path)
must re-parse to a configuration equal to cfg0 value for value and type for type.
"""
from __future__ import annotations

import contextlib
import contextvars
import copy
import dataclasses
import enum
import io
import json
import math
import os
import shutil
import tempfile

# ---------------------------------------------------------------- component classes (static, importable)


class Color(enum.Enum):
    red = 1
    green = 2
    blue = 3


# member names that a YAML reader could take for something else
Weird = enum.Enum("Weird", {"1e3": 1, "null": 2, "on": 3, "0x1F": 4, "~": 5, "a b": 6, "2001-01-01": 7, "- x": 8, "k: v": 9})
ENUMS = {"Color": Color, "Weird": Weird}
ENUM_NAMES = {k: [m.name for m in v] for k, v in ENUMS.items()}


def _restricted():
    from jsonargparse import typing as T

    out = {n: getattr(T, n) for n in ("PositiveInt", "NonNegativeInt", "PositiveFloat", "NonNegativeFloat", "ClosedUnitInterval",
                                      "OpenUnitInterval", "NotEmptyStr", "Email")}
    out["Band"] = T.restricted_number_type("Band", float, [(">", -1.5), ("<", 2.5)])
    out["EvenOrBig"] = T.restricted_number_type("EvenOrBig", int, [("==", 2), (">", 100)], join="or")
    out["Hex"] = T.restricted_string_type("Hex", r"^[0-9a-fA-F_.+-]+$")
    return out


_restricted_cache = {}


def restricted(name):
    if not _restricted_cache:
        _restricted_cache.update(_restricted())
    return _restricted_cache[name]


RESTRICTED_VALUES = {
    "PositiveInt": [1, 7, 10 ** 6, 2 ** 63],
    "NonNegativeInt": [0, 3, 255],
    "PositiveFloat": [0.5, 1.0, 1e22, 1e-7, 3],
    "NonNegativeFloat": [0.0, 2.5, 1e16],
    "ClosedUnitInterval": [0.0, 1.0, 0.25, 1],
    "OpenUnitInterval": [0.5, 1e-7, 0.999],
    "NotEmptyStr": ["a", "1e3", "null", " x", "0x_", "yes"],
    "Email": ["a@b.c", "1e3@x.yz"],
    "Band": [-1.0, 0.0, 2.0, 1],
    "EvenOrBig": [2, 101, 10 ** 9],
    "Hex": ["1e3", "ff", "0e0", "1_0", "1.5", "+1", "._"],
}
RESTRICTED_BASE = {"PositiveInt": "int", "NonNegativeInt": "int", "PositiveFloat": "float", "NonNegativeFloat": "float",
                   "ClosedUnitInterval": "float", "OpenUnitInterval": "float", "NotEmptyStr": "str", "Email": "str",
                   "Band": "float", "EvenOrBig": "int", "Hex": "str"}

PRIMS = {"str": str, "int": int, "float": float, "bool": bool}


def registered(name):
    """built-in registered types of jsonargparse.typing (SecretStr is never dumped by design: excluded)"""
    import datetime
    import decimal
    import pathlib
    import uuid

    return {"range": range, "timedelta": datetime.timedelta, "bytes": bytes, "bytearray": bytearray, "uuid": uuid.UUID,
            "complex": complex, "path": pathlib.Path, "decimal": decimal.Decimal}[name]


# plain inputs (given to parse_object); every one is accepted by the type's deserializer
REGISTERED_VALUES = {
    "range": ["range(5)", "range(0)", "range(2, 8)", "range(0, 10, 2)", "range(0, 10, 3)", "range(10, 0, -1)", "range(10, 0, -3)", "range(5, 5)",
              "range(-3, 3)", "range(0, -5, -1)", "range(1, 10, 2)", "range(0, 1, 5)", "range(0, 7, 1)", "range(-4, -1, 1)"],
    "timedelta": ["1:02:03", "0:00:00", "0:00:00.5", "0:00:00.000001", "100:00:00", "-2 days, 1:00:00", "-1 day, 23:59:59.999999",
                  "3 days, 0:00:01.25", "1 day, 0:00:00", "0:59:59.75", "400 days, 12:30:00"],
    "bytes": ["", "AA==", "aGVsbG8=", "/+8=", "MWUz", "bnVsbA==", "AAECAwQFBgcICQ=="],
    "bytearray": ["", "AA==", "aGVsbG8=", "/+8=", "b24="],
    "uuid": ["12345678-1234-5678-1234-567812345678", "00000000-0000-0000-0000-000000000000", "ffffffff-ffff-4fff-bfff-ffffffffffff",
             "10000000-0000-4000-8000-0000000000e3"],
    "complex": ["(1+2j)", "1j", "3", "(-0.5-1.5j)", "1e+22j", "(1e-07+0j)", "0j", "(2.5+0j)", "-1j"],
    "path": ["a/b.txt", "x", ".", "/abs/path", "a b/c", "1e3", "null", "~", "on", "0x1F", "dir/2001-01-01", "- x", "k: v"],
    "decimal": [0.5, 2.25, -0.125, 3, "0.5", "1024", 0.0, "-7.75"],                    # exactly representable as float
}
REGISTERED_VALUES_WIDE = {"decimal": ["0.1", "1.10", 0.3, "3.14159265358979323846", "1E+3"]}  # C20-decimal-via-float territory

_dc_cache = {}


def mk_type(t):
    from typing import Dict, List, Literal, Optional, Set, Tuple, Union

    k = t["t"]
    if k in PRIMS:
        return PRIMS[k]
    if k == "enum":
        return ENUMS[t["name"]]
    if k == "restricted":
        return restricted(t["name"])
    if k == "registered":
        return registered(t["name"])
    if k == "literal":
        return Literal[tuple(t["vals"])]
    if k == "opt":
        return Optional[mk_type(t["a"])]
    if k == "union":
        return Union[tuple(mk_type(x) for x in t["a"])]
    if k == "list":
        return List[mk_type(t["a"])]
    if k == "dict":
        return Dict[{"str": str, "int": int}[t["k"]], mk_type(t["v"])]
    if k == "tuple":
        return Tuple[tuple(mk_type(x) for x in t["a"])]
    if k == "vtuple":
        return Tuple[mk_type(t["a"]), ...]
    if k == "set":
        return Set[mk_type(t["a"])]
    if k == "dataclass":
        return mk_dataclass(t)
    raise ValueError(k)


class Rejected(Exception):
    pass


def dec(x):
    """decode object markers of a case: registered-type values given as Python OBJECTS (not as text), so that the
    re-parsed value is compared with the original object and not with what the type's own reader made of a text"""
    if isinstance(x, dict):
        if len(x) == 1:
            (k, v), = x.items()
            if k == "$timedelta":
                import datetime

                return datetime.timedelta(days=v[0], seconds=v[1], microseconds=v[2])
            if k == "$range":
                return range(*v)
            if k == "$bytes":
                return bytes.fromhex(v)
            if k == "$bytearray":
                return bytearray.fromhex(v)
            if k == "$complex":
                return complex(v[0], v[1])
            if k == "$uuid":
                import uuid

                return uuid.UUID(v)
            if k == "$path":
                import pathlib

                return pathlib.Path(v)
            if k == "$decimal":
                import decimal

                return decimal.Decimal(v)
        return {k: dec(v) for k, v in x.items()}
    if isinstance(x, list):
        return [dec(v) for v in x]
    return x


def has_marker(x):
    return '{"$' in json.dumps(x, default=repr)


# registered-type values as objects (markers); sub-second / negative sub-second timedeltas, stepped ranges, …
REGISTERED_OBJECTS = {
    "timedelta": [{"$timedelta": [0, 1, 500000]}, {"$timedelta": [0, 0, 1]}, {"$timedelta": [-1, 86399, 500000]}, {"$timedelta": [2, 3, 250000]},
                  {"$timedelta": [0, 59, 999999]}, {"$timedelta": [-3, 0, 0]}, {"$timedelta": [0, 3600, 0]}, {"$timedelta": [400, 45000, 125]}],
    "range": [{"$range": [0, 10, 2]}, {"$range": [10, 0, -3]}, {"$range": [5]}, {"$range": [2, 8]}, {"$range": [0, 0]}, {"$range": [0, -5, -1]}],
    "bytes": [{"$bytes": ""}, {"$bytes": "00"}, {"$bytes": "68656c6c6f"}, {"$bytes": "ffef"}, {"$bytes": "316533"}],
    "bytearray": [{"$bytearray": ""}, {"$bytearray": "00ff"}, {"$bytearray": "6f6e"}],
    "uuid": [{"$uuid": "12345678-1234-5678-1234-567812345678"}, {"$uuid": "00000000-0000-0000-0000-000000000000"}],
    "complex": [{"$complex": [1.0, 2.0]}, {"$complex": [0.0, 1.0]}, {"$complex": [-0.5, -1.5]}, {"$complex": [0.0, 1e22]}, {"$complex": [1e-07, 0.0]}],
    "path": [{"$path": "a/b.txt"}, {"$path": "1e3"}, {"$path": "on"}, {"$path": "a b/c"}, {"$path": "."}],
    "decimal": [{"$decimal": "0.5"}, {"$decimal": "-7.75"}, {"$decimal": "1024"}, {"$decimal": "2.25"}],
}


def norm_value(t, plain):
    """normal form of a plain value for type t (what the parser itself produces)"""
    from jsonargparse import ArgumentError, ArgumentParser

    p = ArgumentParser(exit_on_error=False)
    p.add_argument("--v", type=mk_type(t))
    try:
        return p.parse_object({"v": dec(copy.deepcopy(plain))}).v
    except ArgumentError as ex:
        raise Rejected(str(ex)[:200]) from ex


def mk_dataclass(t):
    key = json.dumps(t, sort_keys=True, default=repr)
    if key not in _dc_cache:
        fields = []
        for f in t["fields"]:
            ft = mk_type(f["type"])
            if "default" in f:
                dv = norm_value(f["type"], f["default"])
                fields.append((f["name"], ft, dataclasses.field(default_factory=(lambda dv=dv: copy.deepcopy(dv)))))
            else:
                fields.append((f["name"], ft))
        cls = dataclasses.make_dataclass(t["name"], fields)
        cls.__module__ = __name__
        _dc_cache[key] = cls
    return _dc_cache[key]


def build_parser(spec):
    from jsonargparse import ActionConfigFile, ArgumentParser

    p = ArgumentParser(exit_on_error=False, parser_mode=spec.get("mode", "yaml"))
    p.add_argument("--cfg", action=ActionConfigFile)
    for a in spec["args"]:
        kw = {}
        if "default" in a:
            kw["default"] = norm_value(a["type"], a["default"])
        p.add_argument("--" + a["name"], type=mk_type(a["type"]), **kw)
    return p


# ---------------------------------------------------------------- canonical form (value for value, type for type)
def canon(v):
    from jsonargparse import Namespace

    if isinstance(v, Namespace):
        return ("ns", tuple(sorted((k, canon(x)) for k, x in vars(v).items() if k != "cfg" and not k.startswith("__"))))
    if dataclasses.is_dataclass(v) and not isinstance(v, type):
        return ("dc", type(v).__name__, tuple((f.name, canon(getattr(v, f.name))) for f in dataclasses.fields(v)))
    if isinstance(v, enum.Enum):
        return ("enum", type(v).__name__, v.name)
    if isinstance(v, dict):
        return ("dict", tuple(sorted(((canon(k), canon(x)) for k, x in v.items()), key=repr)))
    if isinstance(v, list):
        return ("list", tuple(canon(x) for x in v))
    if isinstance(v, tuple):
        return ("tuple", tuple(canon(x) for x in v))
    if isinstance(v, (set, frozenset)):
        return ("set", tuple(sorted((canon(x) for x in v), key=repr)))
    # instances of restricted types (subclasses of str/int/float) are compared as their base type: adapt_typehints
    # returns a value that equals the default as the plain base type by design (early return), see assumptions
    if isinstance(v, bool) or v is None:
        return (type(v).__name__, v)
    if isinstance(v, float):
        return ("float", repr(float(v)))
    if isinstance(v, int):
        return ("int", int(v))
    if isinstance(v, str):
        return ("str", str(v))
    if type(v).__name__ == "Decimal":
        return ("Decimal", str(v.normalize()) if v.is_finite() else str(v))   # numeric value, not the exponent spelling
    if isinstance(v, range):
        return ("range", v.start, v.stop, v.step)                              # range(0,10,2) != range(0,10): start/stop/step
    return ("other", type(v).__name__, repr(v))


def leaves(v):
    """all scalar leaves (and dict keys) of a python value"""
    from jsonargparse import Namespace

    if isinstance(v, Namespace):
        for x in vars(v).values():
            yield from leaves(x)
    elif dataclasses.is_dataclass(v) and not isinstance(v, type):
        for f in dataclasses.fields(v):
            yield from leaves(getattr(v, f.name))
    elif isinstance(v, dict):
        for k, x in v.items():
            yield k
            yield from leaves(x)
    elif isinstance(v, (list, tuple, set, frozenset)):
        for x in v:
            yield from leaves(x)
    else:
        yield v


# ---------------------------------------------------------------- variants
FORMATS = ["yaml", "json", "json_indented"]


def all_variants():
    out = []
    for f in FORMATS:
        out.append({"kind": "dump", "format": f, "skip_default": False})
    for f in ("yaml", "json"):
        out.append({"kind": "dump", "format": f, "skip_default": True})
    out.append({"kind": "print_config", "flags": ""})
    out.append({"kind": "print_config", "flags": "skip_default"})
    out.append({"kind": "print_config", "flags": "comments"})
    out.append({"kind": "save", "format": "yaml"})
    out.append({"kind": "save", "format": "json"})
    # histories of --print_config requests on one parser object (last: the flags of one request must not reach the next)
    out.append({"kind": "print_config_history", "seq": ["skip_null", "", "skip_default"]})
    # histories of skip_default dumps on one parser object whose defaults change in between WITHOUT set_defaults
    # (default config file rewritten / replaced through the setter, action.default reassigned)
    for change in HISTORY_CHANGES:
        out.append({"kind": "skip_default_history", "format": "yaml", "skip_default": True, "change": change})
    # multi-file save with sub-config files (values carrying __path__) after overrides, next to the files and elsewhere
    out.append({"kind": "save_subconfig", "format": "yaml"})
    out.append({"kind": "save_subconfig", "format": "json"})
    return out


HISTORY_CHANGES = ("file", "files_setter", "action")


def pick_variants(variants, rng):
    """per generated case: every single-step variant, and one of the history variants (they build their own parser)"""
    hist = [v for v in variants if v["kind"] == "skip_default_history"]
    keep = rng.choice(hist) if hist else None
    return [v for v in variants if v["kind"] != "skip_default_history" or v is keep]


def variant_format(variant):
    """text family the variant writes: 'yaml' or 'json'"""
    if variant["kind"] in ("print_config", "print_config_history"):
        return "yaml"
    return "json" if variant["format"].startswith("json") else "yaml"


def to_argv(spec, obj):
    """command line that should reproduce parse_object(obj): top-level str values raw, everything else as JSON text"""
    argv = []

    def emit(name, t, v):
        if t["t"] == "dataclass" and isinstance(v, dict):
            for f in t["fields"]:
                if f["name"] in v:
                    emit(name + "." + f["name"], f["type"], v[f["name"]])
        elif isinstance(v, str):
            argv.append("--%s=%s" % (name, v))
        else:
            argv.append("--%s=%s" % (name, json.dumps(v, ensure_ascii=False)))

    for a in spec["args"]:
        if a["name"] in obj:
            emit(a["name"], a["type"], obj[a["name"]])
    return argv


class Skip(Exception):
    """variant not applicable to this case (e.g. the command line does not reproduce the configuration)"""


def excname(ex):
    return type(ex).__name__


def run_variant(p, cfg0, ref, variant, case, tmpdir):
    """returns None (held) or a failure dict"""
    from jsonargparse import ArgumentError

    kind = variant["kind"]
    text = None
    try:
        if kind == "dump":
            try:
                text = p.dump(cfg0.clone(), format=variant["format"], skip_none=False, skip_default=variant["skip_default"])
            except Exception as ex:  # noqa: BLE001
                return {"stage": "dump", "error": excname(ex), "detail": str(ex)[:300]}
            try:
                back = p.parse_string(text)
            except ArgumentError as ex:
                return {"stage": "reparse", "error": excname(ex), "detail": str(ex)[:300], "text": text[:600]}
        elif kind in ("print_config", "print_config_history"):
            if has_marker(case["obj"]):
                raise Skip("object-valued input has no command-line spelling")
            if kind == "print_config_history" and not any(x is None for x in leaves(cfg0)):
                raise Skip("skip_null is the only lossy flag and only touches null entries: no null in this configuration")
            argv = to_argv(case["spec"], case["obj"])
            try:
                again = p.parse_args(argv)
            except (ArgumentError, SystemExit) as ex:
                raise Skip("argv rejected") from ex
            if canon(again) != ref:
                raise Skip("argv gives another configuration")
            # a history on ONE parser object: several --print_config requests with different flags; every request whose
            # flags are lossless (nulls kept) must print a text that re-parses to the configuration
            seq = [variant["flags"]] if kind == "print_config" else list(variant["seq"])
            back = None
            for step, flags in enumerate(seq):
                flag = "--print_config" + ("=" + flags if flags else "")
                where = "" if kind == "print_config" else " (request %d of the history %r on one parser)" % (step + 1, seq)
                buf = io.StringIO()
                try:
                    with contextlib.redirect_stdout(buf):
                        p.parse_args(argv + [flag])
                    return {"stage": "dump", "error": "NoExit", "detail": "--print_config did not exit" + where}
                except SystemExit as ex:
                    if ex.code not in (0, None):
                        return {"stage": "dump", "error": "Exit%s" % ex.code, "detail": buf.getvalue()[:300] + where}
                except Exception as ex:  # noqa: BLE001
                    if hasattr(p, "print_config"):
                        delattr(p, "print_config")
                    return {"stage": "dump", "error": excname(ex), "detail": str(ex)[:300] + where}
                if "skip_null" in flags:
                    continue          # documented as lossy: nothing to compare, it only is part of the history
                text = buf.getvalue()
                path = os.path.join(tmpdir, "pc%d.yaml" % step)
                with open(path, "w", encoding="utf-8", newline="") as f:
                    f.write(text)
                try:
                    back = p.parse_args(["--cfg", path])
                except ArgumentError as ex:
                    return {"stage": "reparse", "error": excname(ex), "detail": str(ex)[:300] + where, "text": text[:600]}
                got = canon(back)
                if got != ref:
                    return {"stage": "compare", "error": "Different", "detail": first_diff(ref, got) + where, "text": text[:600]}
            if back is None:
                return None
        elif kind == "skip_default_history":
            return history_skip_default(case, variant, tmpdir)
        elif kind == "save_subconfig":
            return save_subconfig(p, ref, variant, case, tmpdir)
        elif kind == "save":
            path = os.path.join(tmpdir, "saved." + ("json" if variant["format"] == "json" else "yaml"))
            try:
                p.save(cfg0.clone(), path, format=variant["format"], skip_none=False, overwrite=True)
            except Exception as ex:  # noqa: BLE001
                return {"stage": "dump", "error": excname(ex), "detail": str(ex)[:300]}
            with open(path, encoding="utf-8", newline="") as f:
                text = f.read()
            try:
                back = p.parse_path(path)
            except ArgumentError as ex:
                return {"stage": "reparse", "error": excname(ex), "detail": str(ex)[:300], "text": text[:600]}
        else:
            raise ValueError(kind)
    except Skip:
        raise
    got = canon(back)  # snapshot immediately
    if got != ref:
        return {"stage": "compare", "error": "Different", "detail": first_diff(ref, got), "text": (text or "")[:600]}
    return None


def history_skip_default(case, variant, tmpdir):
    """A history on ONE parser object: a skip_default dump; then the defaults change without set_defaults (the default
    config file is rewritten / another one is set, or action.default is assigned); then a configuration that spells out
    the OLD defaults is parsed, dumped with skip_default and re-parsed.  Every dump of the history must re-parse to the
    configuration it was made from."""
    from jsonargparse import ArgumentError

    p = build_parser(case["spec"])
    fmt, change = variant["format"], variant["change"]

    def roundtrip(cfg, where):
        ref = canon(cfg)
        try:
            text = p.dump(cfg.clone(), format=fmt, skip_none=False, skip_default=True)
        except Exception as ex:  # noqa: BLE001
            return {"stage": "dump", "error": excname(ex), "detail": str(ex)[:300] + where}
        try:
            back = p.parse_string(text)
        except ArgumentError as ex:
            return {"stage": "reparse", "error": excname(ex), "detail": str(ex)[:300] + where, "text": text[:600]}
        got = canon(back)
        if got != ref:
            return {"stage": "compare", "error": "Different", "detail": first_diff(ref, got) + where, "text": text[:600]}
        return None

    def write(path, text):
        with open(path, "w", encoding="utf-8", newline="") as f:
            f.write(text)

    try:
        old_text = p.dump(p.get_defaults(), format="yaml", skip_none=True)      # the defaults, spelled out
    except Exception as ex:  # noqa: BLE001
        raise Skip("the defaults cannot be dumped") from ex
    dfile = os.path.join(tmpdir, "defaults_%s.yaml" % change)
    if change == "file":
        write(dfile, old_text)
        p.default_config_files = [dfile]
    try:
        cfg_a = p.parse_object(dec(nest(copy.deepcopy(case["obj"]))))
    except ArgumentError as ex:
        raise Skip("not accepted with the default config file in place") from ex
    f = roundtrip(cfg_a, " (first skip_default dump of the history)")
    if f is not None:
        return f
    try:
        new_text = p.dump(cfg_a.clone(), format="yaml", skip_none=True)
    except Exception as ex:  # noqa: BLE001
        raise Skip("plain dump fails (other variant)") from ex
    if change == "file":
        write(dfile, new_text)
    elif change == "files_setter":
        write(dfile, new_text)
        p.default_config_files = [dfile]
    else:
        for action in p._actions:
            if action.dest in ("help", "cfg") or action.dest not in cfg_a:
                continue
            val = cfg_a[action.dest]
            if type(val).__name__ == "Namespace":
                continue
            action.default = copy.deepcopy(val)
    try:
        cfg_b = p.parse_string(old_text)
    except ArgumentError as ex:
        raise Skip("the old defaults are not accepted on top of the new ones") from ex
    return roundtrip(cfg_b, " (history on one parser: skip_default dump, then the defaults changed through %s, then a configuration "
                            "spelling out the old defaults)" % {"file": "the rewritten default config file", "files_setter": "parser.default_config_files = [...]",
                                                               "action": "action.default = ..."}[change])


def save_subconfig(p, ref, variant, case, tmpdir):
    """Group-valued arguments given as sub-config FILES (their values carry __path__), overridden afterwards on the
    command line, then save(multifile) into another directory and into the directory that holds the sub-config files,
    each followed by parse_path."""
    from jsonargparse import ArgumentError
    from jsonargparse import _loaders_dumpers as ld

    spec, obj = case["spec"], case["obj"]
    if has_marker(obj):
        raise Skip("object-valued input has no command-line spelling")
    groups = [a for a in spec["args"] if a["type"]["t"] == "dataclass" and isinstance(obj.get(a["name"]), dict)]
    if not groups:
        raise Skip("no group-valued argument")
    ext = "json" if variant["format"] == "json" else "yaml"
    work = os.path.join(tmpdir, "sub_" + ext)
    other = os.path.join(tmpdir, "sub_" + ext + "_other")
    os.makedirs(work, exist_ok=True)
    os.makedirs(other, exist_ok=True)
    argv = []
    for a in spec["args"]:
        name = a["name"]
        if name not in obj:
            continue
        if a in groups:
            # content of the file: the group with every field that has a default set back to it
            file_obj = {}
            for f in a["type"]["fields"]:
                if "default" in f:
                    file_obj[f["name"]] = copy.deepcopy(f["default"])
                elif f["name"] in obj[name]:
                    file_obj[f["name"]] = copy.deepcopy(obj[name][f["name"]])
            try:
                cfgx = p.parse_object(dec(nest({name: file_obj})))
                sub_text = ld.dumpers["yaml"](ld.loaders["yaml"](p.dump(cfgx, format="yaml", skip_none=False))[name])
            except Exception as ex:  # noqa: BLE001
                raise Skip("no sub-config content for this group") from ex
            sub = os.path.join(work, name + ".yaml")
            with open(sub, "w", encoding="utf-8", newline="") as f:
                f.write(sub_text)
            argv.append("--%s=%s" % (name, sub))
        argv += to_argv({"args": [a]}, obj)
    try:
        cfg1 = p.parse_args(argv)
    except (ArgumentError, SystemExit) as ex:
        raise Skip("argv rejected") from ex
    if canon(cfg1) != ref:
        raise Skip("argv gives another configuration")
    for d, where in ((other, "another directory"), (work, "the directory that holds the sub-config files")):
        path = os.path.join(d, "main." + ext)
        where = " (sub-config files %s, overridden on the command line, saved multi-file into %s)" % ([a["name"] + ".yaml" for a in groups], where)
        try:
            p.save(cfg1.clone(), path, format=variant["format"], skip_none=False, overwrite=True)
        except Exception as ex:  # noqa: BLE001
            return {"stage": "dump", "error": excname(ex), "detail": str(ex)[:300] + where}
        try:
            back = p.parse_path(path)
        except ArgumentError as ex:
            return {"stage": "reparse", "error": excname(ex), "detail": str(ex)[:300] + where}
        got = canon(back)
        if got != ref:
            files = {n: open(os.path.join(d, n), encoding="utf-8").read()[:200] for n in sorted(os.listdir(d))}
            return {"stage": "compare", "error": "Different", "detail": first_diff(ref, got) + where, "text": json.dumps(files)[:600]}
    return None


def first_diff(a, b, path="cfg"):
    if a == b:
        return ""
    if isinstance(a, tuple) and isinstance(b, tuple) and a and b and a[0] == b[0] and a[0] in ("ns", "dict"):
        da, db = dict(a[1]), dict(b[1])
        for k in list(da) + [k for k in db if k not in da]:
            if da.get(k) != db.get(k):
                return first_diff(da.get(k), db.get(k), "%s[%r]" % (path, k if isinstance(k, str) else k[-1]))
    if isinstance(a, tuple) and isinstance(b, tuple) and a and b and a[0] == b[0] and a[0] in ("list", "tuple", "set") and len(a[1]) == len(b[1]):
        for i, (x, y) in enumerate(zip(a[1], b[1])):
            if x != y:
                return first_diff(x, y, "%s[%d]" % (path, i))
    return "%s: original %r, re-parsed %r" % (path, a, b)


class CaseResult:
    def __init__(self):
        self.accepted = False
        self.reject_reason = None
        self.failures = []   # (variant, failure)
        self.skipped = 0
        self.checked = 0
        self.cfg0 = None


def run_case(case, variants):
    """evaluate the property on one case; never raises for behaviour of the library"""
    from jsonargparse import ArgumentError

    res = CaseResult()
    try:
        p = contextvars.copy_context().run(build_parser, case["spec"])
    except Rejected as ex:
        res.reject_reason = "default rejected: " + str(ex)
        return res
    try:
        cfg0 = contextvars.copy_context().run(p.parse_object, dec(nest(copy.deepcopy(case["obj"]))))
    except ArgumentError as ex:
        res.reject_reason = str(ex)[:200]
        return res
    res.accepted = True
    ref = canon(cfg0)
    res.cfg0 = cfg0
    tmpdir = tempfile.mkdtemp(prefix="c01-")
    try:
        for variant in variants:
            try:
                if _is_comments(variant) and not variant.get("force") and not comments_neutral(cfg0):
                    raise Skip("configuration outside the sub-domain of the yaml_comments variant")
                # each variant runs in its own copy of the contextvars context: a dump that raises half-way can leave
                # jsonargparse context variables set (contextmanagers without `finally`; history dependence is C09's
                # subject) and must not influence the next variant / case
                f = contextvars.copy_context().run(run_variant, p, cfg0, ref, variant, case, tmpdir)
            except Skip:
                res.skipped += 1
                continue
            res.checked += 1
            if f is not None:
                res.failures.append((variant, f))
    finally:
        shutil.rmtree(tmpdir, ignore_errors=True)
    return res


# ---------------------------------------------------------------- known-finding signatures (narrow)
JSON_UNSAFE = set(range(0x7F, 0xA0)) | {0x2028, 0x2029, 0xFFFE, 0xFFFF}
NEL = "\x85"


def _strs(v):
    """texts written as strings: str leaves, str dict keys, Enum member names"""
    return [x.name if isinstance(x, enum.Enum) else x for x in leaves(v) if isinstance(x, (str, enum.Enum))]


def sig_json_nonfinite(arg, value, default, variant):
    return variant_format(variant) == "json" and any(isinstance(x, float) and not math.isfinite(x) for x in leaves(value))


def sig_json_unsafe_chars(arg, value, default, variant):
    return variant_format(variant) == "json" and any(ord(ch) in JSON_UNSAFE for s in _strs(value) for ch in s)


def sig_yaml_nel(arg, value, default, variant):
    return variant_format(variant) == "yaml" and any(NEL in s for s in _strs(value))


def _has_set(v):
    if isinstance(v, (set, frozenset)):
        return True
    if isinstance(v, dict):
        return any(_has_set(x) for x in v.values())
    if isinstance(v, (list, tuple)):
        return any(_has_set(x) for x in v)
    return False


def _shares_entry(v, d):
    """dict value and dict default with a common equal entry (at any dict depth) without being equal as a whole; a
    value EQUAL to the default counts when it contains sets (serialised in iteration order, which differs between
    equal set objects, so the equality test of _dump_delete_default_entries fails for some entries only)"""
    if not (isinstance(v, dict) and isinstance(d, dict)):
        return False
    if v == d and not _has_set(v):
        return False
    for k in v:
        if k in d and (v[k] == d[k] or _shares_entry(v[k], d[k])):
            return True
    return False


def _dict_leaf_pairs(t, value, default):
    """(value, default) of every dict-typed leaf: the argument itself, or fields of a dataclass group"""
    if t["t"] == "dataclass":
        for f in t["fields"]:
            fd = None
            if "default" in f:
                try:
                    fd = norm_value(f["type"], f["default"])
                except Rejected:
                    fd = None
            yield from _dict_leaf_pairs(f["type"], _getfield(value, f["name"]), fd)
    else:
        yield value, default


def sig_skip_default_dict_leaf(arg, value, default, variant):
    sd = variant.get("skip_default") or "skip_default" in variant.get("flags", "") or any("skip_default" in f for f in variant.get("seq", []))
    return bool(sd) and any(_shares_entry(_plain_keys(v), _plain_keys(d)) for v, d in _dict_leaf_pairs(arg["type"], value, default))


def _plain_keys(v):
    """dump-side view of dict keys (Dict[int,\u2026] keys are written as str)"""
    if isinstance(v, dict):
        return {str(k): _plain_keys(x) for k, x in v.items()}
    return v


def _owns(t, v):
    k = t["t"]
    if k in PRIMS:
        return type(v) is PRIMS[k]
    if k == "enum":
        return isinstance(v, ENUMS[t["name"]])
    if k == "restricted":
        return type(v) is restricted(t["name"])
    if k == "registered":
        return isinstance(v, registered(t["name"]))
    if k == "literal":
        return any(v == x and type(v) is type(x) for x in t["vals"])
    if k == "opt":
        return v is None or _owns(t["a"], v)
    if k == "union":
        return any(_owns(x, v) for x in t["a"])
    if k == "list":
        return isinstance(v, list) and all(_owns(t["a"], x) for x in v)
    if k == "dict":
        return isinstance(v, dict) and all(_owns(t["v"], x) for x in v.values())
    if k == "tuple":
        return isinstance(v, tuple) and len(v) == len(t["a"]) and all(_owns(tt, x) for tt, x in zip(t["a"], v))
    if k == "vtuple":
        return isinstance(v, tuple) and all(_owns(t["a"], x) for x in v)
    if k == "set":
        return isinstance(v, set) and all(_owns(t["a"], x) for x in v)
    if k == "dataclass":
        return hasattr(v, "__dict__")
    return False


def _reg_text(v):
    """what the registered serializer writes for the value"""
    try:
        from jsonargparse.typing import get_registered_type

        return get_registered_type(type(v)).serializer(v)
    except Exception:  # noqa: BLE001
        return str(v)


def _accepts_text(t, text):
    if isinstance(text, float):      # Decimal is serialised with float
        if t["t"] in ("opt", "union"):
            return any(_accepts_text(x, text) for x in (t["a"] if t["t"] == "union" else [t["a"]]))
        return t["t"] == "float"
    if t["t"] == "str":
        return True
    if t["t"] in ("int", "float", "bool"):
        return isinstance(text, str) and bool(_loader_nonstr) and _loader_nonstr[0](text)
    if t["t"] == "opt":
        return _accepts_text(t["a"], text)
    if t["t"] == "union":
        return any(_accepts_text(x, text) for x in t["a"])
    return False


def _ser_accepts(t, v):
    """would the SERIALISING branch of adapt_typehints for type t take v without raising?  (Enum / restricted /
    registered branches accept anything; a leaf int/float/bool branch yaml-loads a str first; Dict[int, …] casts keys
    with str(); List takes any non-str iterable)"""
    k = t["t"]
    if k in ("enum", "restricted", "registered"):
        return True
    if k == "str":
        return isinstance(v, str)
    if k in ("int", "float", "bool"):
        x = v
        if isinstance(v, str):
            try:
                from jsonargparse._loaders_dumpers import yaml_load

                x = yaml_load(v)
            except Exception:  # noqa: BLE001
                return False
        if k == "bool":
            return isinstance(x, bool)
        if isinstance(x, bool):
            return False
        return isinstance(x, int) or (k == "float" and isinstance(x, float))
    if k == "literal":
        return any(v == x for x in t["vals"])
    if k == "opt":
        return v is None or _ser_accepts(t["a"], v)
    if k == "union":
        return any(_ser_accepts(x, v) for x in t["a"])
    if k == "list":
        return not isinstance(v, (str, dict)) and hasattr(v, "__iter__") and all(_ser_accepts(t["a"], x) for x in v)
    if k == "dict":
        return isinstance(v, dict) and all(_ser_accepts(t["v"], x) for x in v.values())
    if k == "tuple":
        return isinstance(v, (list, tuple, set)) and len(v) == len(t["a"]) and all(_ser_accepts(tt, x) for tt, x in zip(t["a"], v))
    if k in ("vtuple", "set"):
        return isinstance(v, (list, tuple, set)) and all(_ser_accepts(t["a"], x) for x in v)
    if k == "dataclass":
        return isinstance(v, dict) or hasattr(v, "__dict__")
    return False


def _plain_of(v):
    """the plain value the dump writes for v (registered types through their serializer, Enum by name)"""
    if isinstance(v, enum.Enum):
        return v.name
    if isinstance(v, dict):
        return {str(k): _plain_of(x) for k, x in v.items()}
    if isinstance(v, (list, tuple, set, frozenset)):
        return [_plain_of(x) for x in v]
    if v is None or isinstance(v, (bool, int, float, str)):
        return v
    if hasattr(v, "__dict__") and type(v).__name__ == "Namespace":
        return {k: _plain_of(x) for k, x in vars(v).items()}
    return _reg_text(v)


def _deser_accepts(t, p):
    """would the DESERIALISING branch for type t take the plain value p (approximation used for members that come
    before the owner: the first member that accepts the dumped value wins at re-parse)"""
    k = t["t"]
    if k == "str":
        return isinstance(p, str)
    if k in ("int", "float", "bool"):
        return _ser_accepts(t, p)
    if k == "literal":
        return any(p == x for x in t["vals"])
    if k == "opt":
        if p is None:
            return True
        if isinstance(p, str):
            try:
                from jsonargparse._loaders_dumpers import yaml_load

                if yaml_load(p) is None:
                    return True
            except Exception:  # noqa: BLE001
                pass
        return _deser_accepts(t["a"], p)
    if k == "union":
        return any(_deser_accepts(x, p) for x in t["a"])
    if k == "list":
        return isinstance(p, list) and all(_deser_accepts(t["a"], x) for x in p)
    if k == "dict":
        return isinstance(p, dict) and all(_deser_accepts(t["v"], x) for x in p.values())
    if k == "tuple":
        return isinstance(p, list) and len(p) == len(t["a"]) and all(_deser_accepts(tt, x) for tt, x in zip(t["a"], p))
    if k in ("vtuple", "set"):
        return isinstance(p, list) and all(_deser_accepts(t["a"], x) for x in p)
    return False


def _flatten_union(t):
    out = []
    for m in t["a"]:
        if m["t"] == "union":
            out.extend(_flatten_union(m))
        elif m["t"] == "opt":
            out.extend(_flatten_union({"t": "union", "a": [m["a"]]}))
        else:
            out.append(m)
    return out


def _union_family(t, v, nested=False):
    """does (type, value) contain a Union node where a serialiser-total member (Enum / restricted / registered type,
    whose serialising branch accepts anything) comes before the member that owns the value?
    `nested`: the Union sits inside another generic alias.  typing caches `List[Union[A, B]]` and
    `List[Union[B, A]]` as ONE object (Union compares as a set), so the member order the library sees is the order
    of whichever spelling was created first in the process: below a generic the test is order-insensitive."""
    k = t["t"]
    if k == "opt":
        if v is None:
            return False
        if _total(t["a"]) and _deser_accepts({"t": "opt", "a": {"t": "bool"}}, _plain_of(v)) and not isinstance(_plain_of(v), bool):
            return True       # Optional[X] whose value is dumped as a text that reads as null (e.g. Path('null'))
        return _union_family(t["a"], v, True)
    if k == "union":
        members = _flatten_union(t)          # typing flattens Union[A, Union[B, C]] and drops duplicates
        owner = next((i for i, m in enumerate(members) if _owns(m, v)), len(members))
        flat = len(members) != len(t["a"])
        before = members[:owner] if not (nested or flat) else [m for i, m in enumerate(members) if i != owner]
        plain = _plain_of(v)
        for m in before:
            if _total(m) or _ser_accepts(m, v):
                return True
            if owner < len(members) and _total(members[owner]) and _deser_accepts(m, plain):
                return True   # the owner (containing an Enum/restricted/registered type) dumps a text that an earlier member takes at re-parse
            if m["t"] == "list" and isinstance(v, (bytes, bytearray, range)):
                return True   # the sequence branch serialises any non-list iterable with list(): bytes -> [0, ...], range -> [0, 1, ...]
            if owner < len(members) and members[owner]["t"] == "registered" and _accepts_text(m, _reg_text(v)):
                return True   # the owner serialises to a text that an earlier member takes on re-parse (str; int/float/bool if it reads as a number)
        return owner < len(members) and _union_family(members[owner], v, True)
    if k == "list" and isinstance(v, list):
        return any(_union_family(t["a"], x, True) for x in v)
    if k == "dict" and isinstance(v, dict):
        return any(_union_family(t["v"], x, True) for x in v.values())
    if k == "tuple" and isinstance(v, tuple):
        return any(_union_family(tt, x, True) for tt, x in zip(t["a"], v))
    if k in ("vtuple", "set") and isinstance(v, (tuple, set)):
        return any(_union_family(t["a"], x, True) for x in v)
    if k == "dataclass":
        return any(_union_family(f["type"], _getfield(v, f["name"])) for f in t["fields"])
    return False


def _getfield(v, name):
    if isinstance(v, dict):
        return v.get(name)
    return getattr(v, name, None)


def sig_union_serialisation(arg, value, default, variant):
    return _union_family(arg["type"], value)


def sig_skip_default_equal_other_type(arg, value, default, variant):
    """_dump_delete_default_entries compares with ==: 1 == True == 1.0, -0.0 == 0.0; the entry is dropped and the
    default (of another type / sign) comes back"""
    sd = variant.get("skip_default") or "skip_default" in variant.get("flags", "") or any("skip_default" in f for f in variant.get("seq", []))
    if not sd:
        return False
    for v, d in _dict_leaf_pairs(arg["type"], value, default):
        if _eq_other_type(v, d):
            return True
    return False


def _eq_other_type(v, d):
    try:
        if v == d and canon(v) != canon(d):
            return True
    except Exception:  # noqa: BLE001
        return False
    if isinstance(v, dict) and isinstance(d, dict):
        return any(k in d and _eq_other_type(x, d[k]) for k, x in v.items())
    return False


def sig_decimal_via_float(arg, value, default, variant):
    """Decimal is serialised with `float` (finding C20-decimal-via-float): a Decimal that float does not preserve"""
    import decimal

    for x in leaves(value):
        if isinstance(x, decimal.Decimal):
            try:
                if not x.is_finite() or decimal.Decimal(float(x)) != x:
                    return True
            except Exception:  # noqa: BLE001
                return True
    return False


def _is_comments(variant):
    return "comments" in variant.get("flags", "") or variant.get("yaml_comments", False)


_loader_nonstr = []   # set by the check: predicate "the loader resolves this plain text as a non-string"


def sig_comments_requoted(arg, value, default, variant):
    """yaml_comments output is re-serialised by ruyaml (YAML 1.2 rules): quotes that only the YAML 1.1 loader needs are dropped"""
    if not _is_comments(variant) or not _loader_nonstr:
        return False
    return any(_loader_nonstr[0](s) for s in _strs(value))


def sig_comments_float_digits(arg, value, default, variant):
    """ruyaml re-writes floats in exponent notation with fewer digits: 15..17-significant-digit floats change"""
    def hit(f):
        r = repr(float(f)).lower()
        if "e" not in r:
            return False
        mant = r.split("e")[0].replace("-", "").replace(".", "").lstrip("0")
        return len(mant) >= 15
    return _is_comments(variant) and any(isinstance(x, float) and math.isfinite(x) and hit(x) for x in leaves(value))


def _dict_keys(v):
    if isinstance(v, dict):
        for k, x in v.items():
            yield k
            yield from _dict_keys(x)
    elif isinstance(v, (list, tuple, set, frozenset)):
        for x in v:
            yield from _dict_keys(x)
    elif type(v).__name__ == "Namespace" or (dataclasses.is_dataclass(v) and not isinstance(v, type)):
        for x in vars(v).values():
            yield from _dict_keys(x)


def sig_comments_int_key(arg, value, default, variant):
    """add_yaml_comments concatenates keys as str: a str key that PyYAML writes plain but YAML 1.2 reads as int raises"""
    import re

    if not _is_comments(variant):
        return False
    for k in _dict_keys(value):
        if isinstance(k, str) and re.match(r"^[-+]?[0-9]+$", k) and not (_loader_nonstr and _loader_nonstr[0](k)):
            return True
    return False


_NEUTRAL_RE = None


def comments_neutral(cfg0):
    """sub-domain in which the yaml_comments variant (text re-serialised by ruyaml under YAML 1.2 rules; outside the
    model) is exercised by generated cases: every text leaf / key / Enum name is made of letters and inner single
    spaces and is a string for the loader; floats are short and written without exponent"""
    import re

    global _NEUTRAL_RE
    if _NEUTRAL_RE is None:
        _NEUTRAL_RE = re.compile(r"^[A-Za-z]+(?: [A-Za-z]+)*$")
    for x in leaves(cfg0):
        if isinstance(x, enum.Enum):
            x = x.name
        if isinstance(x, str):
            if not _NEUTRAL_RE.match(x) or (_loader_nonstr and _loader_nonstr[0](x)):
                return False
        elif isinstance(x, float):
            r = repr(float(x))
            if "e" in r or "n" in r or len(r) > 8:
                return False
        elif isinstance(x, int) and not isinstance(x, bool) and abs(x) >= 2 ** 63:
            return False
        elif not (x is None or isinstance(x, (bool, int))):
            return False     # registered types (range, timedelta, bytes, UUID, complex, Path, Decimal): serialised texts are not letters-only
    return True


PLAIN_LEAF = (type(None), bool, int, float, str)


def _nonplain_leaf(v, in_container=False):
    """a typed value that the raw dumpers cannot write as it is: Enum member, set, tuple, registered-type object, Path,
    instance of a restricted type ... and a Namespace / dataclass value inside a list or dict (as_dict only converts
    namespaces nested directly in namespaces)"""
    if isinstance(v, dict):
        return any(type(k) not in PLAIN_LEAF or _nonplain_leaf(x, True) for k, x in v.items())
    if type(v) is list:
        return any(_nonplain_leaf(x, True) for x in v)
    if type(v).__name__ == "Namespace" or (dataclasses.is_dataclass(v) and not isinstance(v, type)):
        return in_container or any(_nonplain_leaf(x) for k, x in vars(v).items() if not k.startswith("__"))
    return type(v) not in PLAIN_LEAF


def sig_save_subconfig_unserialised(arg, value, default, variant):
    """multi-file save writes the content of a sub-config file (a value carrying __path__) with strip_meta + as_dict and
    the raw dumper: the leaves are not serialised"""
    return variant.get("kind") == "save_subconfig" and arg["type"]["t"] == "dataclass" and value is not None and _nonplain_leaf(value)


def sig_json_long_key(arg, value, default, variant):
    """libyaml's simple-key limit: the JSON literal of a dict key (with its quotes) longer than 1024 characters"""
    return variant_format(variant) == "json" and any(
        isinstance(k, str) and len(json.dumps(k, ensure_ascii=False)) > 1024 for k in _dict_keys(value))


SIGNATURES = {
    "C01-save-subconfig-unserialised": sig_save_subconfig_unserialised,
    "C01-json-long-key": sig_json_long_key,
    "C01-comments-requoted": sig_comments_requoted,
    "C01-comments-float-digits": sig_comments_float_digits,
    "C01-comments-int-key": sig_comments_int_key,
    "C01-decimal-via-float": sig_decimal_via_float,
    "C01-json-nonfinite-float": sig_json_nonfinite,
    "C01-json-unreadable-chars": sig_json_unsafe_chars,
    "C01-yaml-nel": sig_yaml_nel,
    "C01-skip-default-dict-leaf": sig_skip_default_dict_leaf,
    "C01-skip-default-equal-other-type": sig_skip_default_equal_other_type,
    "C01-union-serialisation": sig_union_serialisation,
}


def classify(case, variant):
    """finding id whose signature an argument of the (already minimised: every remaining argument is needed for
    the failure) case matches, else None"""
    try:
        p = build_parser(case["spec"])
        cfg0 = p.parse_object(dec(nest(copy.deepcopy(case["obj"]))))
    except Exception:  # noqa: BLE001
        return None
    ids = set()
    for a in case["spec"]["args"]:
        value = cfg0.get(a["name"])
        try:
            default = norm_value(a["type"], a["default"]) if "default" in a else None
        except Rejected:
            default = None
        ids |= {fid for fid, fn in SIGNATURES.items() if fn(a, value, default, variant)}
        if variant.get("kind") == "skip_default_history":
            # in the history the roles are exchanged: the OLD defaults are the dumped values, the values of the case the new defaults
            try:
                old_default = p.get_defaults().get(a["name"])
            except Exception:  # noqa: BLE001
                old_default = default
            ids |= {fid for fid, fn in SIGNATURES.items() if fn(a, old_default, value, variant)}
    if not ids:
        return None
    return sorted(ids)[0]


# ---------------------------------------------------------------- shrinking
def fails(case, variant):
    try:
        r = run_case(case, [variant])
    except Exception:  # noqa: BLE001
        return False
    return bool(r.failures)


def _shrink_value(t, v):
    """smaller candidates for a plain value"""
    out = []
    if isinstance(v, dict) and len(v) == 1 and next(iter(v)).startswith("$"):
        return out            # object marker: atomic
    if isinstance(v, list):
        for i in range(len(v)):
            out.append(v[:i] + v[i + 1:])
        for i, x in enumerate(v):
            sub_t = t.get("a") if isinstance(t.get("a"), dict) else None
            for y in _shrink_value(sub_t or {}, x):
                out.append(v[:i] + [y] + v[i + 1:])
    elif isinstance(v, dict):
        for k in v:
            out.append({kk: x for kk, x in v.items() if kk != k})
        for k, x in v.items():
            for y in _shrink_value({}, x):
                out.append({**v, k: y})
    elif isinstance(v, str) and len(v) > 1:
        for i in range(len(v)):
            out.append(v[:i] + v[i + 1:])
    return out


def shrink_case(case, variant, budget=150):
    cur = copy.deepcopy(case)
    steps = 0
    changed = True
    while changed and steps < budget:
        changed = False
        # drop whole arguments
        for i in range(len(cur["spec"]["args"])):
            if len(cur["spec"]["args"]) == 1:
                break
            name = cur["spec"]["args"][i]["name"]
            cand = copy.deepcopy(cur)
            del cand["spec"]["args"][i]
            cand["obj"].pop(name, None)
            steps += 1
            if fails(cand, variant):
                cur, changed = cand, True
                break
        if changed:
            continue
        # shrink values
        for a in cur["spec"]["args"]:
            if a["name"] not in cur["obj"]:
                continue
            for y in _shrink_value(a["type"], cur["obj"][a["name"]]):
                cand = copy.deepcopy(cur)
                cand["obj"][a["name"]] = y
                steps += 1
                if steps > budget:
                    break
                if fails(cand, variant):
                    cur, changed = cand, True
                    break
            if changed or steps > budget:
                break
    return cur


# ---------------------------------------------------------------- DFA-driven string generator
INDICATORS = ["-", "?", ":", ",", "[", "]", "{", "}", "#", "&", "*", "!", "|", ">", "'", '"', "%", "@", "`", " ", "\t", "\n", "~", "=", "<", "."]
PALETTE_OTHER = ["a", "z", "Q", "\u00e9", "\u00df", "\u4e2d", "\U0001f600", "%", "@", "/", ";", "$", "(", "\\", "^"]


class StrGen:
    """strings drawn from the extracted automata: accepted words of every resolver/image DFA, words where loader and
    dumper disagree or where either side is non-str, one-edit neighbours, YAML indicator characters"""

    def __init__(self, model, rng, avoid=frozenset()):
        from ..lib import regex2dfa as R

        self.R, self.m, self.rng = R, model, rng
        self.part, self.J = model["part"], model["J"]
        self.avoid = set(avoid) | set(range(0xD800, 0xE000))
        self.names = list(model["comp_names"])
        # joint states that are interesting: non-str on either side
        self.nonstr_words = self.J.shortest_words(lambda j: model["tagL"][j] != 0 or model["tagD"][j] != 0, limit=400)
        self.diff_words = self.J.shortest_words(lambda j: model["tagL"][j] != model["tagD"][j], limit=200)

    def char_of(self, c, reps_only=False):
        ivs = self.part.classes[c]
        rep = self.part.reps[c]
        if len(ivs) == 1 and ivs[0][0] == ivs[0][1]:
            return chr(rep)
        if reps_only:
            return chr(rep)
        r = self.rng.random()
        if r < 0.5:
            ch = self.rng.choice(PALETTE_OTHER)
            if self.part.cls(ord(ch)) == c and ord(ch) not in self.avoid:
                return ch
        for _ in range(20):
            lo, hi = self.rng.choice(ivs)
            cp = self.rng.randint(lo, min(hi, lo + 300)) if self.rng.random() < 0.8 else self.rng.randint(lo, hi)
            if cp not in self.avoid and (cp >= 0x20 or cp in (9, 10, 13)) and not (0x7F <= cp < 0xA0) and cp not in (0xFFFE, 0xFFFF):
                if self.part.cls(cp) == c:
                    return chr(cp)
        return chr(rep) if rep not in self.avoid and rep >= 0x20 else "a"

    def word_str(self, w):
        return "".join(self.char_of(c) for c in w)

    def accepted(self, name=None):
        name = name or self.rng.choice(self.names)
        w = self.R.random_accepted(self.m["dfas"][name], self.rng, max_len=10)
        return self.word_str(w) if w is not None else ""

    def neighbour(self, s):
        r = self.rng.random()
        alphabet = INDICATORS + list("0123456789eE+-_.xob:naNfIuly")
        if s and r < 0.3:
            i = self.rng.randrange(len(s))
            return s[:i] + s[i + 1:]
        if s and r < 0.6:
            i = self.rng.randrange(len(s))
            return s[:i] + self.rng.choice(alphabet) + s[i + 1:]
        i = self.rng.randint(0, len(s))
        return s[:i] + self.rng.choice(alphabet) + s[i:]

    def indicator_string(self):
        n = self.rng.randint(1, 4)
        parts = [self.rng.choice(INDICATORS + ["a", "b", "1", "0"]) for _ in range(n)]
        return "".join(parts)

    def sample(self):
        r = self.rng.random()
        if r < 0.35:
            s = self.accepted()
        elif r < 0.5:
            s = self.word_str(self.rng.choice(self.nonstr_words)) if self.nonstr_words else self.accepted()
        elif r < 0.58:
            s = self.word_str(self.rng.choice(self.diff_words)) if self.diff_words else self.accepted()
        elif r < 0.7:
            s = self.indicator_string()
        elif r < 0.8:
            s = self.rng.choice(["", "a", "abc", "hello world", "x y  z", "\u00e9", "\U0001f600", "a\U0001f600b", "tab\there", "two\nlines", "trail ", " lead",
                                 "line\n", "\n", "a\r\nb", "it's", 'say "hi"', "back\\slash", "a: b", "a #c", "- x", "[1, 2]", "{a: 1}",
                                 "null", "true", "1e3", "0x1F", "1_000", "2001-01-01", "1:30", "<<", "=", "~", "%YAML", "---", "...", "--- x",
                                 "x" * 90, "word " * 25, "a\u2028b", "a\u00a0b", "\ufeffx"])
        else:
            s = self.accepted()
        # one or two random edits
        while self.rng.random() < 0.3:
            s = self.neighbour(s)
        return "".join(ch for ch in s if ord(ch) not in self.avoid)


# ---------------------------------------------------------------- type / value generators
def gen_leaf_type(rng, prof):
    r = rng.random()
    if r < 0.34:
        return {"t": "str"}
    if r < 0.46:
        return {"t": "int"}
    if r < 0.58:
        return {"t": "float"}
    if r < 0.66:
        return {"t": "bool"}
    if r < 0.76:
        return {"t": "enum", "name": rng.choice(sorted(ENUMS))}
    if r < 0.84:
        return {"t": "restricted", "name": rng.choice(sorted(RESTRICTED_VALUES))}
    if r < 0.93:
        return {"t": "registered", "name": rng.choice(sorted(REGISTERED_VALUES))}
    vals = rng.sample(["a", "1e3", "null", "on", 1, 2, 0, "x y", True, None, "1"], rng.randint(1, 3))
    if not prof.get("mixed_literal", False):
        # bool/int/None mixtures in one Literal are a C02 matter (row 5e): keep one kind per Literal
        kind = type(vals[0])
        vals = [v for v in vals if type(v) is kind]
    return {"t": "literal", "vals": vals}


_dc_counter = [0]


def gen_nested_dataclass(rng, prof, sg, depth=0):
    """a dataclass meant to sit INSIDE a type hint (Optional[D], List[D], Dict[str, D], field of another dataclass):
    it is serialised by a nested parser.  Most fields are Optional with a NON-None default, so that an explicit
    null is information that the dump must keep"""
    fields = []
    for i in range(rng.randint(1, 3)):
        r = rng.random()
        if r < 0.65:
            inner = rng.choice([{"t": "int"}, {"t": "float"}, {"t": "str"}, {"t": "bool"}, {"t": "enum", "name": "Color"}])
            ft = {"t": "opt", "a": inner}
            dv = gen_value(inner, rng, sg, prof)          # non-None default
        elif r < 0.85 or depth >= 1:
            ft = rng.choice([{"t": "int"}, {"t": "str"}, {"t": "float"}, {"t": "list", "a": {"t": "int"}}])
            dv = gen_value(ft, rng, sg, prof)
        else:
            ft = gen_nested_dataclass(rng, prof, sg, depth + 1)   # D as a field of another dataclass
            dv = None
        f = {"name": "f%d" % i, "type": ft}
        if dv is not None or ft["t"] != "dataclass":
            if ft["t"] != "dataclass":
                f["default"] = dv
        fields.append(f)
    fields.sort(key=lambda f: "default" in f)
    _dc_counter[0] += 1
    return {"t": "dataclass", "name": "ND%d" % _dc_counter[0], "fields": fields, "nested": True}


def gen_nested_dataclass_hint(rng, prof, sg):
    d = gen_nested_dataclass(rng, prof, sg)
    r = rng.random()
    if r < 0.35:
        return {"t": "opt", "a": d}
    if r < 0.7:
        return {"t": "list", "a": d}
    if r < 0.9:
        return {"t": "dict", "k": "str", "v": d}
    return {"t": "list", "a": {"t": "opt", "a": d}}


def gen_type(rng, prof, depth=0):
    r = rng.random()
    if depth >= prof.get("max_depth", 2) or r < 0.4:
        return gen_leaf_type(rng, prof)
    if r < 0.5:
        return {"t": "opt", "a": gen_type(rng, prof, depth + 1)}
    if r < 0.62:
        members = [gen_type(rng, prof, depth + 1) for _ in range(rng.randint(2, 3))]
        if not prof.get("union_family", False):
            members = order_union_clean(members)
        elif any(_has_iterable_registered(m) for m in members):
            # the List branch takes bytes/bytearray/range as iterables in both directions (one corpus witness, not generated)
            members = [m for m in members if not _has_list(m)] or [{"t": "int"}]
            if len(members) < 2:
                members = [{"t": "bool"}] + members
        return {"t": "union", "a": members}
    if r < 0.74:
        return {"t": "list", "a": gen_type(rng, prof, depth + 1)}
    if r < 0.84:
        return {"t": "dict", "k": rng.choice(["str", "str", "int"]), "v": gen_type(rng, prof, depth + 1)}
    if r < 0.90:
        return {"t": "tuple", "a": [gen_type(rng, prof, depth + 1) for _ in range(rng.randint(1, 3))]}
    if r < 0.94:
        return {"t": "vtuple", "a": gen_type(rng, prof, depth + 1)}
    return {"t": "set", "a": rng.choice([{"t": "int"}, {"t": "str"}, {"t": "enum", "name": "Color"}, {"t": "bool"}])}


def _total(t):
    """members whose serialising branch accepts any value (the root of the Union serialisation family)"""
    if t["t"] in ("enum", "restricted", "registered"):
        return True
    if t["t"] == "opt":
        return _total(t["a"])
    if t["t"] in ("union", "tuple"):
        return any(_total(x) for x in t["a"])
    if t["t"] in ("list", "vtuple", "set"):
        return _total(t["a"])
    if t["t"] == "dict":
        return _total(t["v"])
    if t["t"] == "dataclass":
        return any(_total(f["type"]) for f in t["fields"])
    return False


def _has_iterable_registered(t):
    if t["t"] == "registered":
        return t["name"] in ("bytes", "bytearray", "range")
    if t["t"] == "opt":
        return _has_iterable_registered(t["a"])
    if t["t"] in ("union", "tuple"):
        return any(_has_iterable_registered(x) for x in t["a"])
    if t["t"] in ("list", "vtuple", "set"):
        return _has_iterable_registered(t["a"])
    if t["t"] == "dict":
        return _has_iterable_registered(t["v"])
    if t["t"] == "dataclass":
        return any(_has_iterable_registered(f["type"]) for f in t["fields"])
    return False


def _has_list(t):
    if t["t"] in ("list", "vtuple", "set", "tuple"):
        return True
    if t["t"] == "opt":
        return _has_list(t["a"])
    if t["t"] == "union":
        return any(_has_list(x) for x in t["a"])
    return False


def order_union_clean(members):
    """keep the seed-driven domain outside the Union serialisation family: at most one member that contains a
    serialiser-total type, placed last"""
    plain = [m for m in members if not _total(m)]
    total = [m for m in members if _total(m)]
    if total and _has_iterable_registered(total[0]):
        plain = [m for m in plain if m["t"] != "list"]   # a List member would serialise bytes/bytearray/range with list()
    out = plain + total[:1]
    if len(out) < 2:
        filler = {"t": "bool"} if out[0]["t"] == "int" else {"t": "int"}
        out = [filler] + out
    return out


def gen_dataclass_type(rng, prof, idx, sg=None):
    fields = []
    for i in range(rng.randint(1, 3)):
        if sg is not None and rng.random() < 0.2:
            ft = gen_nested_dataclass(rng, prof, sg, depth=1) if rng.random() < 0.5 else gen_nested_dataclass_hint(rng, prof, sg)
        else:
            ft = gen_type(rng, prof, depth=1)
        f = {"name": "f%d" % i, "type": ft}
        fields.append(f)
    return {"t": "dataclass", "name": "DC%d" % idx, "fields": fields}


def _has_dict(t):
    """the argument's value can be a dict (a dict-typed leaf)"""
    if t["t"] == "dict":
        return True
    if t["t"] == "opt":
        return _has_dict(t["a"])
    if t["t"] == "union":
        return any(_has_dict(x) for x in t["a"])
    return False


FLOATS = [0.0, -0.0, 1.5, -2.25, 1e22, 1e-7, 1e16, 123456789.125, 5e-324, 1.7976931348623157e308, 3.0, 0.1, 1 / 3, 2.5e-5, 1e21, 1e15]
INTS = [0, 1, -1, 7, 255, 10 ** 6, -2 ** 31, 2 ** 63, 10 ** 22, -10 ** 30, 8, 9, 10, 60, 3600]


def gen_value(t, rng, sg, prof, depth=0, in_union=False):
    k = t["t"]
    if k == "str":
        return sg.sample()
    if k == "int":
        return rng.choice(INTS) if rng.random() < 0.7 else rng.randint(-10 ** 6, 10 ** 6)
    if k == "float":
        r = rng.random()
        if prof.get("nonfinite", False) and r < 0.12:
            return rng.choice([math.inf, -math.inf, math.nan])
        if r < 0.6:
            return rng.choice(FLOATS)
        if r < 0.7:
            return rng.choice(INTS[:8])
        return rng.uniform(-1e6, 1e6) if rng.random() < 0.5 else rng.random() * 10 ** rng.randint(-20, 20)
    if k == "bool":
        return rng.random() < 0.5
    if k == "enum":
        return rng.choice(ENUM_NAMES[t["name"]])
    if k == "restricted":
        return rng.choice(RESTRICTED_VALUES[t["name"]])
    if k == "registered":
        # as a Python object (not text); inside a Union only in the wide profile: a member that takes the serialised
        # text first (str, Dict[str,str], …) is the Union serialisation family
        if rng.random() < prof.get("p_object", 0.35) and (prof.get("union_family", False) or not in_union):
            return copy.deepcopy(rng.choice(REGISTERED_OBJECTS[t["name"]]))
        vals = REGISTERED_VALUES[t["name"]]
        if prof.get("decimal_inexact", False) and t["name"] in REGISTERED_VALUES_WIDE and rng.random() < 0.4:
            vals = REGISTERED_VALUES_WIDE[t["name"]]
        return rng.choice(vals)
    if k == "literal":
        return rng.choice(t["vals"])
    if k == "opt":
        return None if rng.random() < 0.25 else gen_value(t["a"], rng, sg, prof, depth + 1, in_union)
    if k == "union":
        return gen_value(rng.choice(t["a"]), rng, sg, prof, depth + 1, True)
    if k == "list":
        return [gen_value(t["a"], rng, sg, prof, depth + 1, in_union) for _ in range(rng.choice([0, 1, 1, 2, 3]))]
    if k == "dict":
        out = {}
        for _ in range(rng.choice([0, 1, 2, 2, 3])):
            key = (sg.sample() if rng.random() < 0.5 else rng.choice(["a", "b", "k1", "x-y"])) if t["k"] == "str" else str(rng.choice([0, 1, -3, 10, 255]))
            if t["k"] == "str" and (key == "" or len(key) > 40):
                key = "k"
            out[key] = gen_value(t["v"], rng, sg, prof, depth + 1, in_union)
        return out
    if k == "tuple":
        return [gen_value(x, rng, sg, prof, depth + 1, in_union) for x in t["a"]]
    if k == "vtuple":
        return [gen_value(t["a"], rng, sg, prof, depth + 1, in_union) for _ in range(rng.choice([0, 1, 2, 3]))]
    if k == "set":
        vals = [gen_value(t["a"], rng, sg, prof, depth + 1, in_union) for _ in range(rng.choice([0, 1, 2, 3]))]
        out = []
        for v in vals:
            if v not in out:
                out.append(v)
        return out
    if k == "dataclass":
        out = {}
        for f in t["fields"]:
            if "default" in f and rng.random() >= 0.7:
                continue
            if t.get("nested") and f["type"]["t"] == "opt" and rng.random() < 0.45:
                out[f["name"]] = None                    # explicit null over a non-None default
            else:
                out[f["name"]] = gen_value(f["type"], rng, sg, prof, depth + 1, in_union)
        return out
    raise ValueError(k)


def gen_case(rng, sg, prof):
    """one parser + one candidate configuration"""
    nargs = rng.choice([1, 1, 1, 2, 2, 3, 4])
    args, obj = [], {}
    used_dc = 0
    for i in range(nargs):
        r = rng.random()
        if r < prof.get("p_nested_dc", 0.08):
            t = gen_nested_dataclass_hint(rng, prof, sg)
            name = "h%d" % i
            a = {"name": name, "type": t}
            args.append(a)
            obj[name] = gen_value(t, rng, sg, prof)
            continue
        if r < prof.get("p_nested_dc", 0.08) + 0.15:
            t = gen_dataclass_type(rng, prof, used_dc, sg)
            used_dc += 1
            # dataclass fields get defaults half of the time
            for f in t["fields"]:
                if rng.random() < 0.5 and (prof.get("dict_defaults", False) or not _has_dict(f["type"])) and "dataclass" not in json.dumps(f["type"]):
                    f["default"] = gen_value(f["type"], rng, sg, prof)
            t["fields"].sort(key=lambda f: "default" in f)   # dataclass rule: fields without default first
            name = "g%d" % i
        else:
            t = gen_type(rng, prof)
            name = rng.choice(["a%d", "n.b%d", "n.m.c%d", "opt_%d"]) % i
        a = {"name": name, "type": t}
        if t["t"] != "dataclass" and rng.random() < prof.get("p_default", 0.5) and (prof.get("dict_defaults", False) or not _has_dict(t)):
            a["default"] = gen_value(t, rng, sg, prof)
        args.append(a)
        if "default" not in a or rng.random() < 0.75:
            obj[name] = gen_value(t, rng, sg, prof)
    return {"spec": {"args": args}, "obj": obj}


def nest(obj):
    """{'n.b': 1} -> {'n': {'b': 1}} (parse_object takes nested dicts)"""
    out = {}
    for k, v in obj.items():
        cur = out
        parts = k.split(".")
        for p in parts[:-1]:
            cur = cur.setdefault(p, {})
        cur[parts[-1]] = v
    return out


def type_shape(t):
    k = t["t"]
    if k in ("opt", "list", "vtuple", "set"):
        return "%s[%s]" % (k, type_shape(t["a"]))
    if k in ("union", "tuple"):
        return "%s[%s]" % (k, ",".join(type_shape(x) for x in t["a"]))
    if k == "dict":
        return "dict[%s,%s]" % (t["k"], type_shape(t["v"]))
    if k == "dataclass":
        return "dc[%s]" % ",".join(type_shape(f["type"]) for f in t["fields"])
    if k in ("enum", "restricted", "registered"):
        return t["name"]
    return k
